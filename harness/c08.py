"""C08 - multipart/form-data decodes to exactly the parts that were encoded."""
import io
import random

from harness.core import hx, unhx, Violation, excname

LEAN_TARGETS = ["PoorProofs.Props.C08"]
AUDIT_IMPORTS = ["PoorProofs.Props.C08"]
LEAN_FILES = ["PoorModel/Multipart.lean", "PoorModel/Reader.lean", "PoorProofs/Lemmas/Multipart.lean",
              "PoorProofs/Lemmas/MultipartG.lean", "PoorProofs/Lemmas/Reader.lean", "PoorProofs/Props/C08.lean"]
THEOREMS = ["Poor.Multipart.extract_aux", "Poor.Multipart.at_boundary", "Poor.Multipart.headerLines_block",
            "Poor.Multipart.parseHeaderLine_render", "Poor.Multipart.readParts_step", "Poor.Multipart.parse_encode",
            "Poor.Props.C08.C08_extract", "Poor.Props.C08.BOk_of_boundary", "Poor.Props.C08.C08_memory",
            "Poor.Multipart.extract_auxG", "Poor.Multipart.lfContract", "Poor.Multipart.cachedContract",
            "Poor.Multipart.skip_preambleG", "Poor.Props.C08.C08_preamble",
            "Poor.Multipart.parse_encodeG", "Poor.Props.C08.C08_any_reader", "Poor.Props.C08.C08_cached",
            "Poor.Props.C08.C08_cached_fresh", "Poor.Props.C08.C08_delivery_independent"]
TRUSTED_BASE = ["model Poor.Multipart hand-written from fieldstorage.py:507-790; email.FeedParser is modelled as a "
                "'Name: value' line splitter (header blocks outside that shape are reported as model-unsupported); "
                "parse_header is Poor.HeaderValue.parseHeader (C18); the caching reader is Poor.Reader (C09)",
                "StringIO/BytesIO/TemporaryFile and the memory-to-tempfile spill are modelled as appending to a byte "
                "string: the spill thresholds are covered by the oracle only",
                "the declared Content-Length is modelled by truncating the stream (what _readline asks for)"]
ASSUMPTIONS = ["the boundary, preceded by two dashes, does not occur in any content",
               "text field contents are valid UTF-8 (anything else is decoded with replacement characters)"]
RULE = ("part lists of length 1-6 (text fields and files) x names/filenames with spaces, quotes, semicolons, backslashes, "
        "non-ASCII x contents over {CR, LF, CRLF, '-', '--', boundary prefixes, boundary without dashes, NUL, 0xFF, spaces} at "
        "sizes 0..64 and around 8192 and 65536 x boundaries over the RFC 2046 set x delivery {BytesIO, CachedInput with every "
        "block size for small bodies and edge-placing sizes for large ones} x Content-Length present/absent x final CRLF "
        "present/absent x file factory set/unset x end-to-end POST below/above the in-memory limit; "
        "non-trivial = a content contains CR/LF/dashes or a threshold size, or the delivery is the caching reader")
EXHAUSTIVE = {"quick": False, "thorough": False}

BCHARS = "0123456789abcdefghijklmnopqrstuvwxyzABCDEFGHIJKLMNOPQRSTUVWXYZ'()+_,-./:=?"
NAMES = ["a", "field", "a b", 'q"uote', "semi;colon", "back\\slash", "é", "a=b", "trail\\", " lead", "comma,", "名字", "x\ty", "",
         'end"', '"start', '"both"', 'esc\\"', 'q""', "it's"]


def quote_param(v):
    return v.replace("\\", "\\\\").replace('"', '\\"')


def encode(parts, boundary, final_crlf=True, preamble=b"", extra=None):
    """`extra`: per part, further header lines some clients send (RFC 7578 4.8: to be ignored)"""
    out = [preamble]
    for i, (name, filename, ctype, content) in enumerate(parts):
        disp = 'form-data; name="%s"' % quote_param(name)
        if filename is not None:
            disp += '; filename="%s"' % quote_param(filename)
        out.append(b"--" + boundary + b"\r\n")
        out.append(("Content-Disposition: %s\r\n" % disp).encode("utf-8"))
        if ctype is not None:
            out.append(("Content-Type: %s\r\n" % ctype).encode("utf-8"))
        for line in (extra[i] if extra else []):
            out.append(line.replace("%LEN%", str(len(content))).encode("utf-8") + b"\r\n")
        out.append(b"\r\n")
        out.append(content)
        out.append(b"\r\n")
    out.append(b"--" + boundary + b"--")
    if final_crlf:
        out.append(b"\r\n")
    return b"".join(out)


def rand_boundary(rng):
    n = rng.choice([1, 2, 5, 16, 40, 69, 70])
    b = "".join(rng.choice(BCHARS + (" " if i < n - 1 else "")) for i in range(n))
    return b.encode()


def header_boundary(b):
    t = b.decode()
    return '"%s"' % t if any(c in t for c in ' ()<>@,;:\\"/[]?=') else t


def rand_content(rng, n, boundary, text):
    alpha = [b"\r", b"\n", b"\r\n", b"-", b"--", b"--" + boundary[:max(1, len(boundary) // 2)], boundary, b"-" + boundary,
             b"\x00", b" ", b"a", b"\r\n-", b"\r\n--", b"\n--", b"--\r\n", "é".encode(), b"\r\r\n"]
    if not text:
        alpha += [b"\xff", b"\xc3"]
    if n >= 60000 and rng.random() < 0.5:
        # one long line: the 64 KiB line limit falls on content bytes or on the CR / LF of the structural line end
        alpha = [b"a", b"-", b" ", b"\x00", b"--", "é".encode()]
        if rng.random() < 0.3:
            k = rng.choice([65535, 65534, 65536, 131071])
            if k < n:
                head = b"".join(rng.choice(alpha) for _ in range(k))[:k]
                if text:
                    head = head.decode("utf-8", "ignore").encode("utf-8")
                    head += b"a" * (k - len(head))
                return (head + rng.choice([b"\r", b"\n", b"\r\n", b"\r\r"]) + b"tail")[:n]
    out = b""
    while len(out) < n:
        out += rng.choice(alpha)
    out = out[:n]
    if text:
        out = out.decode("utf-8", "ignore").encode("utf-8")
    while b"--" + boundary in out:
        out = out.replace(b"--" + boundary, b"-x" + boundary[:-1] if len(boundary) > 1 else b"-x")
    return out


def rand_parts(rng, boundary, sizes):
    parts = []
    for i in range(rng.randrange(1, 7)):
        isfile = rng.random() < 0.5
        n = rng.choice(sizes)
        c = rand_content(rng, n, boundary, not isfile)
        name = rng.choice(NAMES)
        parts.append((name, rng.choice(NAMES[:-1]) + ".bin" if isfile else None,
                      rng.choice(["application/octet-stream", "text/x-a; charset=utf-8", "image/png", None,
                                  "application/x-www-form-urlencoded", "message/rfc822", "application/json"]) if isfile else
                      rng.choice([None, None, "text/plain", "application/x-www-form-urlencoded"]), c))
    return parts


def parts_tok(parts):
    return ";".join("%s|%s|%s|%s" % (hx(n), hx(f) if f is not None else "-", hx(t) if t is not None else "-", hx(c))
                    for n, f, t, c in parts)


def parse_parts_tok(tok):
    out = []
    for p in tok.split(";"):
        n, f, t, c = p.split("|")
        out.append((unhx(n).decode(), None if f == "-" else unhx(f).decode(), None if t == "-" else unhx(t).decode(), unhx(c)))
    return out


def run_parser(body, boundary_hdr, how, cl, factory=None, keep=0):
    from poorwsgi.fieldstorage import FieldStorageParser
    from poorwsgi.request import CachedInput
    from poorwsgi.headers import Headers
    h = {"Content-Type": "multipart/form-data; boundary=%s" % boundary_hdr}
    if cl is not None:
        h["Content-Length"] = str(cl)
    if how == "lf":
        inp = io.BytesIO(body)
    else:
        block = int(how.split(":")[1])
        inp = CachedInput(io.BytesIO(body), cl if cl is not None else len(body), block, 1)
    p = FieldStorageParser(inp, Headers(h), keep_blank_values=keep, file_callback=factory)
    form = p.parse()
    out = []
    for f in form.list or []:
        v = f.value
        out.append((f.name, f.filename, f.type, v))
    _last["acc"] = accessor_view(form)
    return out


_last = {}


def accessor_view(form):
    """what keys / getlist / getfirst / getvalue of the decoded form say, per name"""
    view = {}
    try:
        for name in form.keys():
            view[name] = (form.getlist(name), form.getfirst(name), form.getvalue(name))
        view[None] = list(form.keys())
    except Exception as err:
        view["error"] = repr(err)
    return view


def generate(rng, tier):
    big = tier == "thorough"
    cases = []
    small = [0, 0, 1, 2, 3, 5, 8, 17, 33, 64]
    # model correspondence: raw bodies (well-formed and mangled)
    for _ in range(2500 if big else 500):
        b = rand_boundary(rng) if rng.random() < 0.5 else b"BnD"
        parts = rand_parts(rng, b, small)[:rng.choice([1, 2, 3])]
        body = encode(parts, b, rng.random() < 0.7, rng.choice([b"", b"", b"preamble\r\n", b"\r\n"]))
        r = rng.random()
        if r < 0.12:
            body = body[:rng.randrange(0, len(body) + 1)]
        elif r < 0.2 and body:
            i = rng.randrange(len(body))
            body = body[:i] + rng.choice([b"\r", b"\n", b"-", b"x", b""]) + body[i + 1:]
        how = "lf" if rng.random() < 0.4 else "cached:%d" % rng.randrange(1, len(body) + 3)
        limit = rng.choice([len(body), len(body), len(body), None, max(len(body) - rng.randrange(1, 9), 0)])
        if how != "lf" and limit is None:
            limit = len(body)
        cases.append("C08 parse %s %s %s %s %s" % (hx(b), hx(body), how, "-" if limit is None else limit, hx(header_boundary(b))))
    for n in ([65535, 65536, 65537, 8192] if big else [65536]):
        for tail in (b"\r", b"a", b"\n"):
            body = encode([("f", "x.bin", None, b"a" * (n - 1) + tail), ("z", None, None, b"end")], b"BnD")
            cases.append("C08 parse %s %s lf %d %s" % (hx(b"BnD"), hx(body), len(body), hx("BnD")))
            cases.append("C08 parse %s %s cached:4096 %d %s" % (hx(b"BnD"), hx(body), len(body), hx("BnD")))
    # the line reader of the model against BytesIO.readline
    for _ in range(600 if big else 150):
        data = b"".join(rng.choice([b"a", b"\n", b"\r", b"\r\n", b"bc", b"-"]) for _ in range(rng.randrange(0, 12)))
        cases.append("C08 lines %s %s" % (hx(data), rng.choice(["-", "1", "2", "3", "5", "65536"])))
    # oracle: encode -> parse -> compare
    for _ in range(3000 if big else 500):
        cases.append("C08 e2e %d" % rng.randrange(1 << 30))
    for _ in range(300 if big else 60):
        cases.append("C08 e2e %d edge" % rng.randrange(1 << 30))
    return cases


def to_model(case):
    t = case.split()
    if t[1] == "parse":
        return ["C08 parse %s %s %s %s" % (t[2], t[3], t[4], t[5])]
    if t[1] == "lines":
        return [case]
    return []


def show_parts(parts):
    out = []
    for name, filename, ctype, value in parts:
        isfile = bool(filename)
        if isinstance(value, str):
            vb = value.encode("utf-8", "surrogatepass")
        elif isinstance(value, bytes):
            vb = value
        elif value is None:
            vb = b""
        else:
            return None
        out.append("%s|%s|%s|%s|%s" % (hx(name) if name is not None else "-", hx(filename) if filename is not None else "-",
                                      hx(ctype), "F" if isfile else "T", hx(vb)))
    return "ok " + ";".join(out) if out else "ok"


def observe(case):
    t = case.split()
    if t[1] == "lines":
        f = io.BytesIO(unhx(t[2]))
        size = -1 if t[3] == "-" else int(t[3])
        out = []
        while True:
            line = f.readline(size)
            if not line:
                break
            out.append(hx(line))
        return ",".join(out)
    if t[1] != "parse":
        return "-"
    boundary, body, how = unhx(t[2]), unhx(t[3]), t[4]
    limit = None if t[5] == "-" else int(t[5])
    try:
        parts = run_parser(body, unhx(t[6]).decode(), how, limit)
    except ValueError:
        return "ValueError"
    except Exception as err:
        return excname(err)
    for _, filename, _, v in parts:
        if isinstance(v, str) and "�" in v:
            return "unsupported"       # replacement characters: not modelled
        if isinstance(v, list):
            return "unsupported"       # nested multipart
    return show_parts(parts) or "unsupported"


def expect(parts):
    out = []
    for name, filename, ctype, content in parts:
        t = ctype.split(";")[0].strip() if ctype else "text/plain"
        if filename:
            out.append((name, filename, t, content))
        else:
            out.append((name, filename, t, content.decode("utf-8")))
    return out


class Factory:
    def __init__(self):
        self.calls = []

    def __call__(self, filename):
        self.calls.append(filename)
        return io.BytesIO()


def oracle(case):
    t = case.split()
    if t[1] != "e2e":
        return []
    rng = random.Random(int(t[2]))
    boundary = rand_boundary(rng) if rng.random() < 0.6 else b"BnD7"
    regime = rng.choice(["small", "small", "small", "spill", "cap", "e2e-small", "e2e-big", "longhdr"])
    sizes = {"small": [0, 0, 1, 2, 3, 5, 8, 17, 33, 64], "spill": [8190, 8191, 8192, 8193, 3, 0],
             "cap": [65534, 65535, 65536, 65537, 70001, 5, 0], "e2e-small": [0, 3, 17, 64], "e2e-big": [40000, 30000, 5],
             "longhdr": [0, 3, 17]}[regime]
    parts = rand_parts(rng, boundary, sizes)
    edge = len(t) > 3 and t[3] == "edge"
    if edge:
        # directed: a content line whose CR / LF / last byte is the 65536th byte of the line the parser reads, and the
        # input arrives in pieces, as from a socket (the reader's buffer is empty where the line is cut, more is to come)
        regime = "e2e-edge"
        k = rng.choice([65535, 65535, 65534, 65536, 131071, 131072])
        fill = rng.choice([b"a", b"-", b"\x00"])
        parts = [(parts[0][0], "e.bin", "application/octet-stream", fill * k + rng.choice([b"", b"", b"\r", b"\ntail"])),
                 (parts[-1][0], None, None, b"tail")]
    if regime == "longhdr":
        # a header line of a part (a long file name) whose length sits on a multiple of the 64 KiB line limit the
        # content loop uses; more headers follow it
        parts = parts[:2]
        k = rng.randrange(len(parts))
        name, _, _, content = parts[k]
        total = rng.choice([65535, 65536, 65537, 65538, 65539, 131073, 131074])
        fixed = len(('Content-Disposition: form-data; name="%s"; filename=""\r\n' % quote_param(name)).encode("utf-8"))
        prefix = rng.choice(["", "ž", "a;", "x y"])
        parts[k] = (name, prefix + "f" * (total - fixed - len(prefix.encode("utf-8")) - 4) + ".bin",
                    rng.choice(["application/x-long", "image/png"]), content)
    if regime in ("cap", "e2e-big"):
        parts = parts[:2]
    final = rng.random() < 0.7
    extra = None
    if rng.random() < 0.3:
        # part headers other than Content-Disposition/Content-Type: a Content-Length of the part, a transfer encoding
        pool = ["Content-Length: %LEN%", "Content-Transfer-Encoding: binary", "X-Part-Id: 7", "content-length: %LEN%"]
        extra = [rng.sample(pool, rng.randrange(0, 3)) for _ in parts]
    # a preamble before the first delimiter (RFC 2046 5.1.1: to be ignored), blank lines in it included
    preamble = rng.choice([b"", b"", b"", b"\r\n", b"This is a multi-part message in MIME format.\r\n\r\n", b"preamble\r\n",
                           b"one\r\n \r\ntwo\r\n", b"\n"])
    body = encode(parts, boundary, final, preamble=preamble, extra=extra)
    want = expect(parts)
    factory = Factory() if rng.random() < 0.3 else None
    cl = len(body) if rng.random() < 0.8 else None
    desc = ""
    try:
        if regime.startswith("e2e"):
            got, desc = through_request(rng, body, boundary, factory,
                                        rng.choice([1460, 4096, 65536, 1, 100000]) if edge else None)
        else:
            if rng.random() < 0.5:
                how = "lf"
            elif len(body) < 400:
                how = "cached:%d" % rng.randrange(1, len(body) + 3)
            else:
                # put a structural CRLF on a block edge
                edges = [i for i in range(len(body) - 1) if body[i:i + 2] == b"\r\n"]
                e = rng.choice(edges) if edges else 100
                how = "cached:%d" % max(1, rng.choice([e, e + 1, e + 2, (e + 1) // 2 or 1, 4096, 65365, 65536]))
            desc = how
            got = run_parser(body, header_boundary(boundary), how, cl if how == "lf" else len(body), factory)
    except Exception as err:
        return [Violation("c08:raises", case, "parsing raised %r [%s, boundary %r, %d parts, body %d bytes]"
                          % (err, desc, boundary, len(parts), len(body)))]
    bad = None
    if len(got) != len(want):
        bad = "%d parts were sent, %d arrived" % (len(want), len(got))
    else:
        for i, (g, w) in enumerate(zip(got, want)):
            if g != w:
                for j, what in enumerate(("name", "filename", "type", "content")):
                    if g[j] != w[j]:
                        gs, ws = (g[j], w[j]) if j < 3 else ((len(g[j]), g[j][-24:]), (len(w[j]), w[j][-24:]))
                        bad = "part %d: %s is %r, sent %r" % (i, what, gs, ws)
                        break
                break
    if not bad and not regime.startswith("e2e") and "acc" in _last:
        # the decoded form's own accessors say the same as its list of parts
        acc = _last.pop("acc")
        names = []
        for n_, _, _, _ in want:
            if n_ not in names:
                names.append(n_)
        if "error" in acc:
            bad = "the accessors of the decoded form raised %s" % acc["error"]
        elif acc.get(None) != names:
            bad = "keys() of the decoded form are %r, the parts' names in order of first occurrence %r" % (acc.get(None), names)
        else:
            for n_ in names:
                vals = [c_ for m_, _, _, c_ in want if m_ == n_]
                wantv = (vals, vals[0], vals if len(vals) > 1 else vals[0])
                if acc.get(n_) != wantv:
                    bad = "getlist/getfirst/getvalue(%r) = %r, the parts of that name hold %r" % (
                        n_, tuple(repr(x)[:60] for x in acc.get(n_, ())), tuple(repr(x)[:60] for x in wantv))
                    break
    if not bad and factory is not None:
        files = [f for _, f, _, _ in want if f]
        if factory.calls != files:
            bad = "file factory was called for %r, file parts are %r" % (factory.calls, files)
    if bad:
        return [Violation("c08:roundtrip", case, "%s [%s, boundary %r, final CRLF %s, Content-Length %s, %s, extra part headers %s]"
                          % (bad, desc, boundary, final, cl, [(n, f, len(c)) for n, f, _, c in parts], extra))]
    return []


_apps = {}


def through_request(rng, body, boundary, factory, piece=None):
    import os
    from poorwsgi import Application, state
    data_size = rng.choice([65365, 16, 16])
    cached = rng.choice([65365, 0, 7, 4096, 1])
    key = (data_size, cached)
    if key not in _apps:
        app = Application("verif_c08_%d_%d" % (os.getpid(), len(_apps)))
        app.data_size = data_size
        app.cached_size = cached

        def handler(req):
            req.environ["verif.out"].append([(f.name, f.filename, f.type, f.value) for f in (req.form.list or [])])
            return "ok"
        app.set_route("/u", handler, state.METHOD_POST)
        _apps[key] = app
    app = _apps[key]
    app.file_callback = factory

    class Raw(io.RawIOBase):
        def __init__(self, data):
            super().__init__()
            self.b = io.BytesIO(data)

        def read(self, n=-1):
            if piece is not None and (n is None or n < 0 or n > piece):
                n = piece           # a short read: what has arrived so far
            return self.b.read(n)

        def readline(self, n=-1):
            return self.b.readline(n)

        def readable(self):
            return True
    out = []
    env = {"REQUEST_METHOD": "POST", "PATH_INFO": "/u", "QUERY_STRING": "", "SERVER_NAME": "s", "SERVER_PORT": "80",
           "SERVER_PROTOCOL": "HTTP/1.1", "wsgi.url_scheme": "http", "wsgi.input": Raw(body + b"GET /next HTTP/1.1\r\n\r\n"),
           "wsgi.errors": io.StringIO(), "CONTENT_TYPE": "multipart/form-data; boundary=%s" % header_boundary(boundary),
           "CONTENT_LENGTH": str(len(body)), "verif.out": out}
    st = []
    b"".join(app(env, lambda s, h: st.append(s)))
    if not out:
        raise RuntimeError("request answered %s" % st[0])
    return out[0], "POST data_size=%d cached_size=%d%s" % (data_size, cached, "" if piece is None else ", input in pieces of %d" % piece)


def classify(case, obs):
    t = case.split()
    if t[1] == "parse":
        return "parse-" + t[4].split(":")[0] + "-" + obs.split()[0][:12]
    return t[1]
