"""C17 - a response depends only on its own request and the configuration."""
import io
import itertools
import os
import random
import re
import shutil
import sys
import tempfile
import threading

from harness.core import hx, unhx, Violation, excname

HERE = os.path.dirname(os.path.abspath(__file__))

LEAN_TARGETS = ["PoorProofs.Props.C17"]
AUDIT_IMPORTS = ["PoorProofs.Props.C17"]
LEAN_FILES = ["PoorModel/Sched.lean", "PoorModel/Gen/Shared.lean", "PoorProofs/Props/C17.lean"]
THEOREMS = ["Poor.Props.C17.sched_independent",
            "Poor.Props.C17.C17_schedule_irrelevant",
            "Poor.Props.C17.C17_shared_unchanged",
            "Poor.Props.C17.wsgi_frame",
            "Poor.Props.C17.wsgi_solo",
            "Poor.Props.C17.C17_wsgi",
            "Poor.Props.C17.shared_inventory_known",
            "Poor.Props.C17.no_request_time_writes"]
TRUSTED_BASE = ["Poor.Sched: requests as sequences of atomic steps over (shared state, own local state); the theorem is the "
                "scheduling argument: under the frame condition (no step writes the shared state) every schedule gives "
                "every request the local result of its solo run",
                "the frame condition is NOT proved of the Python code: it is checked (a) statically by translator/shared.py "
                "(inventory of module/class level mutable objects and their syntactic write sites, regenerated each run; "
                "obligations shared_inventory_known and no_request_time_writes) and (b) dynamically by snapshots of all "
                "shared objects before/after every request of the oracle runs",
                "thread interleavings of CPython byte code inside one step are not modelled: switch points are the ones the "
                "property names (hooks, endpoint entry/exit, streamed chunks), driven by a deterministic scheduler"]
ASSUMPTIONS = ["the clock is frozen during a comparison (nonces, expiry dates)",
               "user handlers themselves keep no state (those of the harness do not)"]
RULE = ("request kinds (hits, regex routes, 404, 405, aborts, crashes, form/JSON bodies, ranges, static files, listings, "
        "debug-info, digest failures and successes, streamed bodies, sessions) x all histories of length <= 3 against one "
        "application, and against two applications in one process x all interleavings of 2-3 in-flight requests at the switch "
        "points {before hook, endpoint entry/exit, after hook, each chunk}; each answer compared with the answer of a fresh, "
        "identically configured application; non-trivial = history of length >= 2 or an interleaving")
EXHAUSTIVE = {"quick": False, "thorough": False}

_root = {}
_count = [0]
NOW = 1790000000.25


def docroot():
    if not _root:
        d = tempfile.mkdtemp(prefix="verif_c17d_")
        with open(os.path.join(d, "static.txt"), "w") as f:
            f.write("static file content 0123456789")
        os.makedirs(os.path.join(d, "dir"))
        with open(os.path.join(d, "dir", "a.txt"), "w") as f:
            f.write("a")
        _root["d"] = d
    return _root["d"]


def cleanup():
    if _root:
        shutil.rmtree(_root["d"], ignore_errors=True)


# ---------------------------------------------------------------------------- application factory

def build_app(variant=0):
    """a fresh application; `variant` selects one of the configurations"""
    from poorwsgi import Application, state
    from poorwsgi.response import Response, HTTPException, abort, GeneratorResponse, FileResponse, JSONResponse, \
        RedirectResponse, NoContentResponse
    from poorwsgi.digest import check_digest, hexdigest
    from poorwsgi.session import PoorSession
    _count[0] += 1
    app = Application("verif_c17_%d_%d" % (os.getpid(), _count[0]))
    app.document_root = docroot()
    app.document_index = True
    app.debug = variant != 2
    app.secret_key = "c17-secret"
    app.auth_type = "Digest"
    app.auth_algorithm = "MD5-sess"
    if variant == 3:
        # RFC 2069 style: no qop, plain algorithm - the applications of one process need not agree
        app.auth_algorithm = "MD5"
        app.auth_qop = None
    elif variant == 4:
        app.auth_algorithm = "SHA-256"
        app.auth_qop = None
    app.auth_map = {"Zone": {"user": hexdigest("user", "Zone", "pw", app.auth_hash)}}
    if variant == 1:
        app.keep_blank_values = 1
        app.auto_form = True
    if variant in (2, 4):
        # ... and their own lists of media types, the documented way: by appending to the list they are given
        app.json_mime_types.append("application/vnd.verif+json")
        app.form_mime_types.append("application/x-verif-form")
    if variant in (1, 4):
        # applications configure their own route filters: a redefined built-in and a filter of their own
        app.set_filter("int", r"\d\d", int)
        app.set_filter("tag", r"[a-z]+", str.upper)

    def point(req, name):
        fn = req.environ.get("verif.point")
        if fn:
            fn(name, req)

    # hook counts differ between the variants (more after than before hooks, none at all, ...)
    nb, na = {3: (0, 2), 4: (2, 0)}.get(variant, (1, 1))

    def mk_before(i):
        def before(req):
            point(req, "before")
        before.__name__ = "before%d" % i
        return before

    def mk_after(i):
        def after(req, res):
            point(req, "after")
            return res
        after.__name__ = "after%d" % i
        return after
    for i in range(nb):
        app.add_before_response(mk_before(i))
    for i in range(na):
        app.add_after_response(mk_after(i))

    @app.route("/hit", method=state.METHOD_ALL)
    def hit(req):
        point(req, "enter")
        out = "hit %s %s %s" % (req.method, sorted(req.args.items()), req.headers.get("X-Tag"))
        # the handler owns the values it was handed: what it does to them must stay within this request
        for v in req.args.values():
            if isinstance(v, list):
                v.sort(reverse=True)
                v.append("mine")
        point(req, "exit")
        return out

    @app.route("/item/<n:int>")
    def item(req, n):
        point(req, "enter")
        return "item %d %r" % (n, dict(req.path_args))

    @app.route("/post", method=state.METHOD_POST | state.METHOD_PUT)
    def post(req):
        point(req, "enter")
        return "form %s json %r" % (sorted((k, req.form.getlist(k)) for k in req.form.keys()), req.json)

    @app.route("/abort/<code:int>")
    def abort_(req, code):
        point(req, "enter")
        abort(code)

    @app.route("/crash")
    def crash(req):
        point(req, "enter")
        raise RuntimeError("crash " + req.args.getfirst("m", "x"))

    @app.route("/stream")
    def stream(req):
        n = req.args.getfirst("n", 3, int)
        tag = req.args.getfirst("t", "s")

        def gen():
            for i in range(n):
                point(req, "chunk")
                yield ("%s%d;" % (tag, i)).encode()
        return GeneratorResponse(gen(), content_type="text/plain")

    @app.route("/range")
    def range_(req):
        res = Response(b"0123456789abcdefghij", content_type="application/octet-stream")
        if "Range" in req.headers:
            from poorwsgi.headers import parse_range
            r = parse_range(req.headers["Range"])
            if "bytes" in r:
                res.make_partial(r["bytes"])
        return res

    @app.route("/file")
    def file_(req):
        return FileResponse(os.path.join(docroot(), "static.txt"))

    @app.route("/json")
    def json_(req):
        return JSONResponse(args=dict(req.args), n=1)

    @app.route("/redirect")
    def redirect(req):
        return RedirectResponse("/hit?from=" + req.args.getfirst("x", ""))

    @app.route("/empty")
    def empty(req):
        return NoContentResponse()

    @app.route("/login")
    def login(req):
        sess = PoorSession(app.secret_key, max_age=60)
        sess.data["user"] = req.args.getfirst("u", "anon")
        res = Response("logged")
        sess.header(res.headers)
        return res

    @app.route("/whoami")
    def whoami(req):
        sess = PoorSession(app.secret_key)
        try:
            sess.load(req.cookies)
        except Exception as err:     # noqa
            return "bad session"
        return "user=%s" % sess.data.get("user")

    @app.route("/visit")
    def visit(req):
        # the documented use of a session: load it, change its data, send it back
        sess = PoorSession(app.secret_key)
        try:
            sess.load(req.cookies)
        except Exception as err:     # noqa
            return "bad session"
        sess.data["n"] = sess.data.get("n", 0) + 1
        sess.data.setdefault("seen", []).append(req.args.getfirst("p", "-"))
        res = Response("visit %s %s" % (sess.data["n"], sess.data["seen"]))
        sess.header(res.headers)
        return res

    @app.route("/admin")
    @check_digest("Zone")
    def admin(req):
        return "admin %s" % req.user

    # further dispatcher and error paths: raw regular-expression route, per-method default handler, a status
    # handler that fails, an exception handler that aborts
    @app.regular_route(r"/raw/(\w+)")
    def raw(req, word):
        point(req, "enter")
        return "raw %s" % word

    @app.default(state.METHOD_DELETE | state.METHOD_PATCH)
    def fallback(req):
        point(req, "enter")
        return "fallback %s %s" % (req.method, req.uri)

    @app.http_state(409)
    def conflict(req, *args, **kwargs):
        raise ValueError("status handler fails for %s" % req.uri)

    @app.http_state(410, state.METHOD_GET)
    def gone(req, *args, **kwargs):
        return "gone %s" % req.uri, "text/plain", (), 410

    @app.error_handler(KeyError)
    def on_key(req, err):
        abort(410)

    @app.route("/keyerr")
    def keyerr(req):
        point(req, "enter")
        raise KeyError(req.args.getfirst("k", "k"))

    if variant == 1:
        @app.http_state(404)
        def my404(req, *args, **kwargs):
            return Response("my 404 for %s" % req.uri, status_code=404)

        @app.error_handler(RuntimeError)
        def on_runtime(req, err):
            return Response("handled %s" % err, status_code=500)

    return app


def env_of(method="GET", path="/hit", query="", body=None, ctype=None, headers=None, extra=None):
    env = {"REQUEST_METHOD": method, "PATH_INFO": path, "QUERY_STRING": query, "SERVER_NAME": "srv", "SERVER_PORT": "80",
           "SERVER_PROTOCOL": "HTTP/1.1", "wsgi.url_scheme": "http", "wsgi.input": io.BytesIO(body or b""),
           "wsgi.errors": io.StringIO(), "REMOTE_ADDR": "10.0.0.1", "HTTP_USER_AGENT": "UA"}
    if body is not None:
        env["CONTENT_LENGTH"] = str(len(body))
    if ctype:
        env["CONTENT_TYPE"] = ctype
    for k, v in (headers or {}).items():
        env["HTTP_" + k.upper().replace("-", "_")] = v
    env.update(extra or {})
    return env


def digest_header(uri, method="GET", password="pw", legacy=None):
    import hashlib
    from poorwsgi.session import get_token
    import poorwsgi.session as S
    old = S.time
    S.time = lambda: NOW
    try:
        nonce = get_token("c17-secret", "UA", timeout=300)
    finally:
        S.time = old
    h = lambda s: hashlib.md5(s.encode()).hexdigest()      # noqa: E731
    opaque = hashlib.sha256(b"srv").hexdigest()
    if legacy:
        # no qop: response = H(H(A1):nonce:H(A2)), no nc/cnonce sent
        if legacy == "SHA-256":
            h = lambda s: hashlib.sha256(s.encode()).hexdigest()      # noqa: E731
        resp = h(":".join([h("user:Zone:" + password), nonce, h("%s:%s" % (method, uri))]))
        return ('Digest username="user", realm="Zone", nonce="%s", uri="%s", algorithm=%s, response="%s", opaque="%s"'
                % (nonce, uri, legacy, resp, opaque))
    a1 = h("%s:%s:%s" % (h("user:Zone:" + password), nonce, "cn"))
    resp = h(":".join([a1, nonce, "00000001", "cn", "auth", h("%s:%s" % (method, uri))]))
    return ('Digest username="user", realm="Zone", nonce="%s", uri="%s", algorithm=MD5-sess, response="%s", opaque="%s", '
            'qop=auth, nc=00000001, cnonce="cn"' % (nonce, uri, resp, opaque))


def session_cookie(visits=False):
    from poorwsgi.session import PoorSession
    from poorwsgi.headers import Headers
    import poorwsgi.session as S
    sess = PoorSession("c17-secret", max_age=60)
    sess.data["user"] = "carol"
    if visits:
        sess.data.update(n=1, seen=["start"])
    return sess.header()[0][1].split(";")[0]


KINDS = {
    "hit": lambda: env_of(query="a=1&b=2", headers={"X-Tag": "t1"}),
    "hit2": lambda: env_of(query="a=other", headers={"X-Tag": "t2"}),
    "hit-multi": lambda: env_of(query="a=1&a=3&a=2&b=x", headers={"X-Tag": "t3"}),
    "hit-post": lambda: env_of("POST", "/hit", body=b"x=1", ctype="application/x-www-form-urlencoded"),
    "item": lambda: env_of(path="/item/42"),
    "item2": lambda: env_of(path="/item/7"),
    "item-bad": lambda: env_of(path="/item/abc"),
    "404": lambda: env_of(path="/nothing"),
    "405": lambda: env_of("DELETE", "/post"),
    "form": lambda: env_of("POST", "/post", body=b"k=v&k=&z=1", ctype="application/x-www-form-urlencoded"),
    "json": lambda: env_of("POST", "/post", body=b'{"a": [1, 2]}', ctype="application/json"),
    "json-vnd": lambda: env_of("POST", "/post", body=b'{"a": [3]}', ctype="application/vnd.verif+json"),
    "form-vnd": lambda: env_of("POST", "/post", body=b"k=v", ctype="application/x-verif-form"),
    "badjson": lambda: env_of("POST", "/post", body=b'{"a": ', ctype="application/json"),
    "multipart": lambda: env_of("POST", "/post", body=b'--B\r\nContent-Disposition: form-data; name="f"\r\n\r\nv\r\n--B--\r\n',
                                ctype="multipart/form-data; boundary=B"),
    "abort403": lambda: env_of(path="/abort/403"),
    "abort418": lambda: env_of(path="/abort/418"),
    "abort500": lambda: env_of(path="/abort/500"),
    "crash": lambda: env_of(path="/crash", query="m=boom"),
    "stream": lambda: env_of(path="/stream", query="n=3&t=a"),
    "stream2": lambda: env_of(path="/stream", query="n=2&t=b"),
    "range": lambda: env_of(path="/range", headers={"Range": "bytes=2-5"}),
    "range-multi": lambda: env_of(path="/range", headers={"Range": "bytes=0-1,5-6"}),
    "range-bad": lambda: env_of(path="/range", headers={"Range": "bytes=50-60"}),
    "norange": lambda: env_of(path="/range"),
    "file": lambda: env_of(path="/file"),
    "static": lambda: env_of(path="/static.txt"),
    "static-head": lambda: env_of("HEAD", "/static.txt"),
    "listing": lambda: env_of(path="/dir/"),
    "debug-info": lambda: env_of(path="/debug-info"),
    "auth-none": lambda: env_of(path="/admin"),
    "auth-bad": lambda: env_of(path="/admin", headers={"Authorization": digest_header("/admin", password="nope")}),
    "auth-ok": lambda: env_of(path="/admin", headers={"Authorization": digest_header("/admin")}),
    "auth-legacy": lambda: env_of(path="/admin", headers={"Authorization": digest_header("/admin", legacy="MD5")}),
    "auth-legacy256": lambda: env_of(path="/admin", headers={"Authorization": digest_header("/admin", legacy="SHA-256")}),
    "raw": lambda: env_of(path="/raw/word1"),
    "default-del": lambda: env_of("DELETE", "/no/such"),
    "default-patch": lambda: env_of("PATCH", "/other"),
    "abort409": lambda: env_of(path="/abort/409"),
    "abort410": lambda: env_of(path="/abort/410"),
    "keyerr": lambda: env_of(path="/keyerr", query="k=zz"),
    "forbidden": lambda: env_of(path="/dir"),
    "login": lambda: env_of(path="/login", query="u=bob"),
    "whoami": lambda: env_of(path="/whoami", headers={"Cookie": session_cookie()}),
    "whoami-none": lambda: env_of(path="/whoami"),
    "visit": lambda: env_of(path="/visit", query="p=a", headers={"Cookie": session_cookie(True)}),
    "visit2": lambda: env_of(path="/visit", query="p=b", headers={"Cookie": session_cookie(True)}),
    "visit-none": lambda: env_of(path="/visit"),
    "redirect": lambda: env_of(path="/redirect", query="x=1"),
    "empty": lambda: env_of(path="/empty"),
    "jsonres": lambda: env_of(path="/json", query="q=1"),
    "options": lambda: env_of("OPTIONS", "/hit"),
    "badmethod": lambda: env_of("BREW", "/hit"),
    # per-request overrides of the application's settings: they hold for that request only
    "crash-dbg-on": lambda: env_of(path="/crash", query="m=boom", extra={"poor_Debug": "On"}),
    "crash-dbg-off": lambda: env_of(path="/crash", query="m=boom", extra={"poor_Debug": "off"}),
    "debug-info-on": lambda: env_of(path="/debug-info", extra={"poor_Debug": "ON"}),
    "listing-off": lambda: env_of(path="/dir/", extra={"poor_DocumentIndex": "Off"}),
    "listing-on": lambda: env_of(path="/dir/", extra={"poor_DocumentIndex": "On"}),
    "whoami-key": lambda: env_of(path="/whoami", headers={"Cookie": session_cookie()}, extra={"poor_SecretKey": "other"}),
    "static-noroot": lambda: env_of(path="/static.txt", extra={"poor_DocumentRoot": "/nonexistent-verif"}),
}
KIND_NAMES = sorted(KINDS)


def frozen():
    """freeze every clock the library reads"""
    import poorwsgi.session as S
    import poorwsgi.request as R
    import poorwsgi.wsgi as W
    saved = []
    for mod in (S, R, W):
        if hasattr(mod, "time") and callable(getattr(mod, "time")):
            saved.append((mod, mod.time))
            mod.time = lambda: NOW
    return saved


def unfreeze(saved):
    for mod, fn in saved:
        mod.time = fn


def canon_body(body, app):
    text = body.decode("utf-8", "replace")
    # the sandbox directory differs between processes - first of all: its random name may look like an application name
    # (`verif_c17_12_3...`, about one directory in 400), and was then canonicalised as one: a false alarm on the unchanged
    # tree, seen once under a parallel retest
    text = re.sub(re.escape(tempfile.gettempdir()) + r"/verif_c17d_\w+", "DOCROOT", text)
    text = text.replace(app.name, "APPNAME")
    text = re.sub(r"0x[0-9a-f]{6,}", "0xADDR", text)
    text = re.sub(r"verif_c17_\d+_\d+", "APPNAME", text)
    text = re.sub(r"\d\d-[A-Z][a-z]{2}-\d{4} \d\d:\d\d", "DATE", text)   # ... and so do the times of its files
    return text


def canon_headers(headers, app):
    out = []
    for k, v in headers:
        v = v.replace(app.name, "APPNAME")
        if k == "Last-Modified":
            v = "DATE"
        out.append((k, v))
    return sorted(out)


def run_request(app, kind, pointfn=None):
    """-> canonical (status, headers, body, seen) of one request, consumed chunk by chunk"""
    env = KINDS[kind]()
    seen = []

    def point(name, req):
        seen.append((name, req.uri, req.method, sorted(req.args.items()) if hasattr(req.args, "items") else None))
        if pointfn:
            pointfn(name)
    env["verif.point"] = point
    st = []
    try:
        it = app(env, lambda s, h: st.append((s, h)))
        chunks = []
        for c in it:
            chunks.append(c)
        if hasattr(it, "close"):
            it.close()
    except BaseException as err:
        return ("ESCAPED", repr(err)[:80], "", tuple(seen))
    raw = b"".join(chunks)
    body = canon_body(raw, app)
    headers = canon_headers(st[0][1], app)
    if body != raw.decode("utf-8", "replace"):
        # the body names the application or an object address: its length is not comparable
        headers = [(k, "LEN" if k == "Content-Length" else v) for k, v in headers]
    return (st[0][0], tuple(headers), body, tuple(map(tuple, seen)))


_solo = {}


def _tuplify(x):
    return tuple(_tuplify(y) for y in x) if isinstance(x, (list, tuple)) else x


def _repo():
    from harness import core
    return core.REPO


def solo_table(variant):
    """answers of one freshly built application per request kind, computed in a fresh interpreter in which no other
    application was ever built (what another application leaves behind *at build time* must not matter either)"""
    import json
    import subprocess
    code = ("import sys, json; sys.path.insert(0, %r); sys.path.insert(0, %r); from harness import c17; "
            "s = c17.frozen(); print('TABLE ' + json.dumps({k: c17.run_request(c17.build_app(%d), k) for k in c17.KIND_NAMES}))"
            % (os.path.dirname(HERE), _repo(), variant))
    out = subprocess.run([sys.executable, "-c", code], capture_output=True, text=True, timeout=300,
                         env=dict(os.environ, VERIF_C17_CHILD="1")).stdout
    for line in out.splitlines():
        if line.startswith("TABLE "):
            return {k: _tuplify(v) for k, v in json.loads(line[6:]).items()}
    raise RuntimeError("no reference answers for variant %d: %s" % (variant, out[-300:]))


_tables = {}


def solo(kind, variant):
    """the answer of a fresh, identically configured application"""
    key = (kind, variant)
    if key not in _solo:
        if not os.environ.get("VERIF_C17_CHILD"):
            if variant not in _tables:
                try:
                    _tables[variant] = solo_table(variant)
                except Exception:
                    _tables[variant] = None
            if _tables[variant] is not None and kind in _tables[variant]:
                _solo[key] = _tables[variant][kind]
                return _solo[key]
        saved = frozen()
        try:
            _solo[key] = run_request(build_app(variant), kind)
        finally:
            unfreeze(saved)
    return _solo[key]


# ---------------------------------------------------------------------------- shared state snapshots

def freeze_obj(o, depth=0):
    if depth > 6:
        return "..."
    if isinstance(o, dict):
        return tuple(sorted((repr(freeze_obj(k, depth + 1)), freeze_obj(v, depth + 1)) for k, v in o.items()))
    if isinstance(o, (list, tuple)):
        return tuple(freeze_obj(x, depth + 1) for x in o)
    if isinstance(o, (set, frozenset)):
        return tuple(sorted(repr(freeze_obj(x, depth + 1)) for x in o))
    if callable(o):
        return "fn:%s.%s" % (getattr(o, "__module__", "?"), getattr(o, "__qualname__", repr(type(o))))
    if isinstance(o, (str, bytes, int, float, bool, type(None))):
        return o
    if hasattr(o, "pattern"):
        return "re:" + str(o.pattern)
    return "obj:" + type(o).__name__


def shared_snapshot(apps=()):
    import sys
    import http.client
    snap = {}
    for name, mod in list(sys.modules.items()):
        if name == "poorwsgi" or name.startswith("poorwsgi."):
            for k, v in vars(mod).items():
                if isinstance(v, (dict, list, set)) and not k.startswith("__"):
                    snap["%s.%s" % (name, k)] = freeze_obj(v)
    from poorwsgi.wsgi import Application
    for k, v in vars(Application).items():
        if isinstance(v, (dict, list, set)):
            snap["Application." + k] = freeze_obj(v)
    snap["http.client.responses"] = freeze_obj(http.client.responses)
    for i, app in enumerate(apps):
        for k, v in vars(app).items():
            if isinstance(v, (dict, list, set)):
                snap["app%d.%s" % (i, k.replace(app.__class__.__name__, "").strip("_"))] = freeze_obj(v)
    return snap


def snap_diff(a, b):
    return sorted(k for k in set(a) | set(b) if a.get(k) != b.get(k))


# ---------------------------------------------------------------------------- deterministic scheduler

class Sched:
    """runs requests in threads, one at a time; control changes hands only at switch points"""

    def __init__(self):
        self.cv = threading.Condition()
        self.turn = None          # worker allowed to run
        self.state = {}           # worker -> "ready" | "running" | "waiting" | "done"
        self.results = {}

    def worker(self, wid, app, kind):
        def point(name):
            with self.cv:
                self.state[wid] = "waiting"
                self.turn = None
                self.cv.notify_all()
                while self.turn != wid:
                    self.cv.wait()
                self.state[wid] = "running"

        def body():
            with self.cv:
                while self.turn != wid:
                    self.cv.wait()
                self.state[wid] = "running"
            try:
                self.results[wid] = run_request(app, kind, point)
            finally:
                with self.cv:
                    self.state[wid] = "done"
                    self.turn = None
                    self.cv.notify_all()
        t = threading.Thread(target=body, daemon=True)
        self.state[wid] = "ready"
        return t

    def step(self, wid):
        with self.cv:
            if self.state.get(wid) == "done":
                return False
            self.turn = wid
            self.cv.notify_all()
            while self.turn is not None:
                if not self.cv.wait(timeout=20):
                    raise RuntimeError("scheduler: worker %r did not come back" % (wid,))
        return True

    def run(self, jobs, schedule):
        threads = [self.worker(i, app, kind) for i, (app, kind) in enumerate(jobs)]
        for t in threads:
            t.start()
        for wid in schedule:
            self.step(wid)
        for i in range(len(jobs)):
            while self.step(i):
                pass
        for t in threads:
            t.join(timeout=20)
        return [self.results.get(i) for i in range(len(jobs))]


def count_points(kind, variant):
    return len(solo(kind, variant)[3]) + 1


# ---------------------------------------------------------------------------- cases

def generate(rng, tier):
    big = tier == "thorough"
    cases = ["C17 inventory"]
    # applications with different authentication settings in one process (first: nothing has run yet)
    for vb, kb in ((3, "auth-legacy"), (4, "auth-legacy256")):
        for ka in ("auth-ok", "auth-bad", "auth-none"):
            cases.append("C17 two 0 %d B%s,A%s,B%s" % (vb, kb, ka, kb))
            cases.append("C17 two %d 0 A%s,B%s,A%s" % (vb, kb, ka, kb))
    # histories against one application
    names = KIND_NAMES
    for a in names:
        for b in names:
            if big or rng.random() < 0.12:
                cases.append("C17 hist %d %s,%s" % (rng.randrange(5), a, b))
    for a in names:       # the same request twice
        cases.append("C17 hist %d %s,%s" % (rng.randrange(5), a, a))
    for _ in range(6000 if big else 250):
        cases.append("C17 hist %d %s" % (rng.randrange(5), ",".join(rng.choice(names) for _ in range(3))))
    # two applications in one process
    for _ in range(1500 if big else 120):
        cases.append("C17 two %d %d %s" % (rng.randrange(5), rng.randrange(5),
                                         ",".join("%s%s" % (rng.choice("AB"), rng.choice(names)) for _ in range(3))))
    # interleavings
    inter = ["hit", "hit2", "stream", "stream2", "crash", "abort403", "form", "json", "debug-info", "auth-none", "auth-ok",
             "item", "item2", "item", "item2", "abort418", "raw", "404", "range", "login", "static", "listing", "hit-post",
             "badjson", "norange", "range-multi", "range-bad", "file", "static-head", "redirect", "jsonres", "empty",
             "visit", "visit2", "whoami"]
    for _ in range(2500 if big else 200):
        k = rng.choice([2, 2, 3])
        kinds = [rng.choice(inter) for _ in range(k)]
        cases.append("C17 inter %d %s %d" % (rng.randrange(5), ",".join(kinds), rng.randrange(1 << 30)))
    if big:
        for a, b in itertools.product(["hit", "stream", "crash", "debug-info", "auth-ok", "form", "static", "range", "norange",
                                       "file", "range-multi", "listing"], repeat=2):
            cases.append("C17 interall 0 %s,%s" % (a, b))
    else:
        for a, b in [("hit", "stream"), ("debug-info", "404"), ("crash", "hit2"), ("item", "item2"), ("abort403", "abort418"),
                     # a response object that exists already (held in an after hook) while another request is ranged
                     ("static", "range"), ("norange", "range"), ("file", "range-multi"), ("range", "range-bad")]:
            cases.append("C17 interall 0 %s,%s" % (a, b))
    return cases


def to_model(case):
    return [case] if case.split()[1] == "inventory" else []


def observe(case):
    t = case.split()
    if t[1] == "inventory":
        return dynamic_inventory()
    return "-"


def dynamic_inventory():
    """module and class level mutable containers found by introspection of the imported package;
    an object imported into several modules is attributed to the first one (import order) that has it"""
    import sys
    import importlib
    order = ["state", "headers", "session", "fieldstorage", "response", "results", "request", "digest", "wsgi"]
    seen_ids, out = set(), []
    for m in order:
        mod = importlib.import_module("poorwsgi." + m)
        for k, v in sorted(vars(mod).items()):
            if isinstance(v, (dict, list, set)) and not (k.startswith("__") and k.endswith("__")):
                if id(v) in seen_ids:
                    continue
                seen_ids.add(id(v))
                out.append("%s.%s" % (m, k))
        for cname, cls in sorted(vars(mod).items()):
            if isinstance(cls, type) and cls.__module__ == "poorwsgi." + m:
                for k, v in sorted(vars(cls).items()):
                    if isinstance(v, (dict, list, set)) and not (k.startswith("__") and k.endswith("__")):
                        if id(v) in seen_ids:
                            continue
                        seen_ids.add(id(v))
                        k = k.replace("_%s__" % cname, "__") if k.startswith("_%s__" % cname) else k
                        out.append("%s.%s.%s" % (m, cname, k))
    return " ".join(sorted(set(out)))


def canon_model(line):
    return " ".join(sorted(line.split()))


def conformance(case, obs):
    """frame condition: snapshots of the shared state around the requests of this case"""
    return _frame_failures.pop(case, None)


_frame_failures = {}


def compare(case, got, want, what):
    got, want = (_tuplify(got) if got is not None else None), _tuplify(want)
    if got == want:
        return None
    if got is None:
        return "%s: no answer" % what
    for i, name in enumerate(("status", "headers", "body", "request attributes at the switch points")):
        if got[i] != want[i]:
            a, b = str(got[i]), str(want[i])
            k = next((j for j in range(min(len(a), len(b))) if a[j] != b[j]), min(len(a), len(b)))
            k = max(0, k - 60)          # show the place where they part
            return "%s: %s differs from the fresh application's: %r instead of %r" % (what, name, a[k:k + 200], b[k:k + 200])
    return "%s differs" % what


def oracle(case):
    """the answer of every request of the case against a fresh application; a violation found in a process that
    has already served other cases is tried again in a fresh interpreter, and the report says whether the case
    alone reproduces it (state left behind by *earlier cases* is a violation too, but its replay needs them)"""
    res = oracle_here(case)
    if res and not os.environ.get("VERIF_C17_CHILD") and _served[0] > 1:
        import subprocess
        code = ("import sys; sys.path.insert(0, %r); sys.path.insert(0, %r); from harness import c17; "
                "r = c17.oracle_here(%r); print('REPRO' if r else 'CLEAN')" % (os.path.dirname(HERE), _repo(), case))
        try:
            out = subprocess.run([sys.executable, "-c", code], capture_output=True, text=True, timeout=120,
                                 env=dict(os.environ, VERIF_C17_CHILD="1")).stdout
        except Exception:
            out = ""
        note = (" [reproduces in a fresh process from this case alone]" if "REPRO" in out else
                " [not from this case alone: needs the state earlier cases of the run left behind]")
        for v in res:
            v.detail += note
    return res


_served = [0]


def oracle_here(case):
    t = case.split()
    if t[1] == "inventory":
        return []
    _served[0] += 1
    saved = frozen()
    try:
        if t[1] == "hist":
            variant = int(t[2])
            kinds = t[3].split(",")
            for kind in kinds:
                solo(kind, variant)
            app = build_app(variant)
            before = shared_snapshot([app])
            for i, kind in enumerate(kinds):
                got = run_request(app, kind)
                bad = compare(case, got, solo(kind, variant), "request %d (%s) after %s" % (i + 1, kind, kinds[:i]))
                if bad:
                    return [Violation("c17:history", case, bad)]
            d = snap_diff(before, shared_snapshot([app]))
            if d:
                _frame_failures[case] = "shared state changed by requests %s: %s" % (kinds, d)
        elif t[1] == "two":
            va, vb = int(t[2]), int(t[3])
            for item in t[4].split(","):
                solo(item[1:], va if item[0] == "A" else vb)
            apps = {"A": (build_app(va), va), "B": (build_app(vb), vb)}
            before = shared_snapshot([apps["A"][0], apps["B"][0]])
            done = []
            for item in t[4].split(","):
                which, kind = item[0], item[1:]
                app, variant = apps[which]
                got = run_request(app, kind)
                bad = compare(case, got, solo(kind, variant), "%s on application %s after %s" % (kind, which, done))
                if bad:
                    return [Violation("c17:two-apps", case, bad)]
                done.append(item)
            d = snap_diff(before, shared_snapshot([apps["A"][0], apps["B"][0]]))
            if d:
                _frame_failures[case] = "shared state changed by requests %s: %s" % (done, d)
        elif t[1] in ("inter", "interall"):
            variant = int(t[2])
            kinds = t[3].split(",")
            counts = [count_points(k, variant) for k in kinds]
            if t[1] == "inter":
                rng = random.Random(int(t[4]))
                base = [i for i, c in enumerate(counts) for _ in range(c)]
                schedules = []
                for _ in range(3):
                    s = base[:]
                    rng.shuffle(s)
                    schedules.append(s)
            else:
                base = [i for i, c in enumerate(counts) for _ in range(c)]
                schedules = sorted(set(itertools.permutations(base)))[:400] if len(base) <= 10 else []
            for s in schedules:
                app = build_app(variant)
                before = shared_snapshot([app])
                res = Sched().run([(app, k) for k in kinds], list(s))
                for i, kind in enumerate(kinds):
                    bad = compare(case, res[i], solo(kind, variant),
                                  "request %d (%s) under schedule %s with %s" % (i, kind, list(s), kinds))
                    if bad:
                        return [Violation("c17:interleaving", case, bad)]
                d = snap_diff(before, shared_snapshot([app]))
                if d:
                    _frame_failures[case] = "shared state changed under schedule %s of %s: %s" % (list(s), kinds, d)
    except Exception as err:
        return [Violation("c17:harness", case, "the run raised %r" % (err,))]
    finally:
        unfreeze(saved)
    return []


def classify(case, obs):
    t = case.split()
    if t[1] == "hist" and "," not in t[3]:
        return "trivial-single"
    return t[1]
