"""Shared driver of the real Application for the request-ladder properties (C01, C03, C04, C05).

A *case* is a protocol line `Cxx route=.. ctor=.. nb=.. na=.. us=.. eh=.. digest=.. prog=site:beh;..`
(see lean/PoorModel/Drv/Wsgi.lean).  This module builds an Application with that
configuration, installs user callables that act out the behaviours, runs the request and
returns the canonical observation: `<trace> <status> <reason> <headers> <body>`.
"""
import io
import os
import re
import shutil
import tempfile

from harness.core import hx, unhx, excname

VOLATILE = {"last-modified", "date", "www-authenticate"}
_apps = {}
_root = None


# ---------------------------------------------------------------------------------------
# exception classes by id

class C0(Exception):
    pass


class C1(C0):
    pass


class C2(Exception):
    pass


class C5(Exception):
    pass


class MyBase(BaseException):
    pass


EXC = {0: C0, 1: C1, 2: C2, 5: C5, 9: Exception}
# built-in exception classes user code raises all the time (the framework's own `except` clauses name some of them);
# ids >= 10 are raised only, never registered as handler classes, and unrelated to each other
BUILTIN_EXC = {10: KeyError, 11: ValueError, 12: TypeError, 13: AttributeError, 14: RuntimeError, 15: IndexError,
               16: StopIteration, 17: AssertionError, 18: ZeroDivisionError, 19: OSError, 20: UnicodeDecodeError}
EXC.update(BUILTIN_EXC)


# ---------------------------------------------------------------------------------------
# values: token <-> python object

def enc_hs(pairs):
    return "+".join("%s=%s" % (hx(k), hx(v)) for k, v in pairs) or "0"


def dec_hs(tok):
    if tok == "0":
        return []
    return [tuple(unhx(x).decode("utf-8") for x in kv.split("=")) for kv in tok.split("+")]


def enc_chunks(chunks):
    return "/".join(hx(c) for c in chunks) or "-"


def dec_chunks(tok):
    return [] if tok == "-" else [unhx(c) for c in tok.split("/")]


class NoSeek(__import__("io").RawIOBase):
    """a readable binary stream without seek/tell/fileno, like a pipe"""

    def __init__(self, data):
        super().__init__()
        self._d, self._p = data, 0

    def readable(self):
        return True

    def seekable(self):
        return False

    def readinto(self, b):
        chunk = self._d[self._p:self._p + len(b)]
        b[:len(chunk)] = chunk
        self._p += len(chunk)
        return len(chunk)


def enc_resp(res, chunks=None):
    """encode the state of a real response object at hand-back time"""
    from poorwsgi.response import NoContentResponse, Declined, Response
    if isinstance(res, Declined):
        cls = "d"
    elif isinstance(res, NoContentResponse):
        cls = "n"
    else:
        cls = "b"
    if chunks is None:
        chunks = [res.data] if isinstance(res, Response) and res.data else ([] if isinstance(res, Response) else [])
    hs = [(k, "x" if k.lower() in VOLATILE else v) for k, v in res.headers.items()]
    return "%s,%d,%s,%s,%s,%d" % (cls, res.status_code, enc_hs(hs), hx(res.content_type or ""),
                                  enc_chunks(chunks), res.content_length)


class Factory:
    """a handler return value: `make()` gives a fresh python object, `tok` its model encoding"""

    def __init__(self, tok, make):
        self.tok = tok
        self.make = make


def f_str(s):
    return Factory("S" + hx(s.encode("utf-8")), lambda: s)


def f_bytes(b):
    return Factory("B" + hx(b), lambda: b)


def f_json(obj):
    import json
    return Factory("J" + hx(json.dumps(obj).encode()), lambda: __import__("copy").deepcopy(obj))


def f_lbytes(chunks):
    return Factory("L" + enc_chunks(chunks), lambda: list(chunks))


def f_gen(chunks):
    return Factory("I" + enc_chunks(chunks), lambda: (c for c in chunks))


F_NONE = Factory("N", lambda: None)
F_INT = Factory("X", lambda: 12345)
F_OBJ = Factory("X", lambda: object())


def f_resp(make, chunks=None):
    """make() -> fresh response object; token computed from a sample instance"""
    sample = make()
    return Factory("R" + enc_resp(sample, chunks), make)


def f_tuple(data, items):
    """items: list of ('c', str) | ('h', headers-arg python, token) | ('s', int) | ('x',)"""
    toks, objs = [], []
    for it in items:
        if it[0] == "c":
            toks.append("c" + hx(it[1]))
            objs.append(lambda it=it: it[1])
        elif it[0] == "h":
            toks.append("h" + it[2])
            objs.append(lambda it=it: it[1]())
        elif it[0] == "s":
            toks.append("s%d" % it[1])
            objs.append(lambda it=it: it[1])
        else:
            toks.append("x")
            objs.append(lambda: object())
    tok = "T" + "|".join([data.tok] + toks)
    return Factory(tok, lambda: tuple([data.make()] + [o() for o in objs]))


def beh_ret(f):
    return "ret~" + f.tok


# registry so that a behaviour token can be turned back into python behaviour
_factories = {}


def register(f):
    _factories[f.tok] = f
    return f


def act(tok, arg=None):
    """perform the behaviour `tok` (python side)"""
    from poorwsgi.response import HTTPException
    p = tok.split("~")
    if p[0] == "ret":
        return _factories[p[1]].make()
    if p[0] == "same":
        return arg
    if p[0] == "ab":
        kw = {}
        if p[2] == "1":
            kw["foo"] = 1
        elif p[2] == "2":
            kw["error"] = ("alice", "admins")       # the keyword the built-in pages document, with a tuple value
        elif p[2] == "3":
            kw["error"] = "reason é %s %d"
        if p[3] == "0" and int(p[1]) == 401:
            kw["realm"] = "Zone"
        raise HTTPException(int(p[1]), **kw)
    if p[0] == "abr":
        raise HTTPException(_factories["R" + p[1]].make())
    if p[0] == "exc":
        if int(p[1]) == 20:
            raise UnicodeDecodeError("utf-8", b"\xff", 0, 1, "verif")
        raise EXC.get(int(p[1]), C5)("verif")
    if p[0] == "sysexit":
        raise SystemExit(3)
    if p[0] == "conn":
        raise ConnectionError("verif")
    if p[0] == "base":
        raise MyBase("verif")
    raise ValueError(tok)


# ---------------------------------------------------------------------------------------
# application

def root():
    global _root
    if _root is None:
        _root = tempfile.mkdtemp(prefix="verif_wsgi_")
        with open(os.path.join(_root, "f"), "wb") as fh:
            fh.write(b"file")
        os.makedirs(os.path.join(_root, "d"))
        with open(os.path.join(_root, "d", "x.txt"), "w") as fh:
            fh.write("x")
    return _root


def parse_case(case):
    kv = dict(t.split("=", 1) for t in case.split()[1:])
    prog = {}
    if kv.get("prog", "none") != "none":
        for e in kv["prog"].split(";"):
            s, b = e.split(":", 1)
            prog[s] = b
    nums = lambda t: [] if t == "none" else [int(x) for x in t.split(",")]
    us, eh = nums(kv["us"]), nums(kv["eh"])
    ehm = nums(kv["ehm"]) if "ehm" in kv else [511] * len(eh)
    usm = nums(kv["usm"]) if "usm" in kv else [511] * len(us)
    return dict(route=kv["route"], ctor=kv["ctor"], nb=int(kv["nb"]), na=int(kv["na"]),
                us=us, eh=eh, digest=kv.get("digest", "0") == "1", prog=prog,
                meth=kv.get("meth", "GET"), ehm=ehm, usm=usm)


METHOD_BITS = {"HEAD": 1, "GET": 2, "POST": 4, "PUT": 8, "DELETE": 16, "TRACE": 32, "OPTIONS": 64,
               "CONNECT": 128, "PATCH": 256}


def method_bit(meth):
    return METHOD_BITS.get(meth, 2)


def to_model(case):
    """model line: handlers registered for other methods are invisible to this request"""
    c = parse_case(case)
    bit = method_bit(c["meth"])
    keep_eh = [i for i in range(len(c["eh"])) if c["ehm"][i] & bit]
    keep_us = [c["us"][i] for i in range(len(c["us"])) if c["usm"][i] & bit]
    def kw_for_model(v):
        # abort(code, error=..): fine for the pages that take `error`, an unexpected keyword for the others
        m = re.match(r"ab~(\d+)~([23])~(\d)$", v)
        if not m:
            return v
        return "ab~%s~%s~%s" % (m.group(1), "0" if int(m.group(1)) in ERROR_KW_PAGES else "1", m.group(3))
    prog = {}
    for k, v in c["prog"].items():
        v = kw_for_model(v)
        if k[0] == "x":
            i = int(k[1:])
            if i in keep_eh:
                prog["x%d" % keep_eh.index(i)] = v
        elif k[0] == "s":
            if int(k[1:]) in keep_us:
                prog[k] = v
        else:
            prog[k] = v
    # a pattern route (with converters, or a raw regular expression without) dispatches like a static one
    route = "hit" if c["route"] in ("rx", "raw") else c["route"]
    # the same request kinds of an application without a document root (other call sites of the dispatcher)
    route = {"dbgn": "dbg", "defn": "default", "nfn": "nf"}.get(route, route)
    return [mk_case(case.split()[0], route, c["ctor"], c["nb"], c["na"], keep_us,
                    [c["eh"][i] for i in keep_eh], c["digest"], prog)]


def get_app(c):
    from poorwsgi import Application, state
    noroot = c["route"] in NOROOT_ROUTES
    key = (c["nb"], c["na"], tuple(c["us"]), tuple(c["eh"]), c["digest"], c["route"] in ("default", "defn"),
           tuple(c["ehm"]), tuple(c["usm"]), noroot)
    if key in _apps:
        return _apps[key]
    app = Application("verif_wsgi_%d_%d" % (os.getpid(), len(_apps)))
    if not noroot:
        app.document_root = root()
    if c["digest"]:
        app.secret_key = "k"
        app.auth_type = "Digest"

    def mk_before(i):
        def before(req):
            req.environ["verif.trace"].append("b%d" % i)
            try:
                pa = dict(req.path_args) if req.path_args is not None else None
            except Exception as err:       # noqa
                pa = repr(err)
            req.environ["verif.seen"].append((req.uri_rule, req.uri_handler is not None, pa))
            return act(req.environ["verif.prog"].get("b%d" % i, "ret~N"))
        before.__name__ = "before%d" % i
        return before

    def mk_after(j):
        def after(req, res):
            req.environ["verif.trace"].append("a%d" % j)
            from poorwsgi.response import BaseResponse
            if not isinstance(res, BaseResponse):
                # an after hook is handed a response object, never the raw value the previous hook returned
                req.environ["verif.trace"].append("raw%d" % j)
            return act(req.environ["verif.prog"].get("a%d" % j, "same"), res)
        after.__name__ = "after%d" % j
        return after

    def endpoint(req, *args):
        req.environ["verif.trace"].append("e")
        return act(req.environ["verif.prog"].get("e", "ret~N"))

    for i in range(c["nb"]):
        app.add_before_response(mk_before(i))
    for j in range(c["na"]):
        app.add_after_response(mk_after(j))
    app.set_route("/hit", endpoint, state.METHOD_ALL)
    app.set_route("/only-post", endpoint, state.METHOD_POST)
    app.set_route("/rx/<n:int>", endpoint, state.METHOD_ALL)
    app.set_regular_route(r"/raw/(?P<w>\w+)", endpoint, state.METHOD_ALL)
    if c["route"] in ("default", "defn"):
        app.set_default(endpoint, state.METHOD_ALL)

    def mk_status(code):
        def status(req, **kw):
            req.environ["verif.trace"].append("s%d" % code)
            return act(req.environ["verif.prog"].get("s%d" % code, "ret~N"))
        return status
    for code, mask in zip(c["us"], c["usm"]):
        app.set_http_state(code, mk_status(code), mask)
    ehm = list(c["ehm"])

    def mk_exch(i):
        def exch(req, err):
            # label = position among the handlers registered for this request's method
            bit = req.method_number
            req.environ["verif.trace"].append("x%d" % sum(1 for k in range(i) if ehm[k] & bit))
            return act(req.environ["verif.prog"].get("x%d" % i, "ret~N"))
        return exch
    for i, cls in enumerate(c["eh"]):
        # the same class registered twice keeps its first position (dict semantics)
        app.set_error_handler(EXC[cls], mk_exch(i), ehm[i])
    _apps[key] = app
    return app


PATHS = {"hit": "/hit", "wrong": "/only-post", "file": "/f", "dir": "/d/", "forb": "/d/", "dbg": "/debug-info",
         "default": "/nothing", "nf": "/nothing", "rx": "/rx/12", "raw": "/raw/ab",
         "dbgn": "/debug-info", "defn": "/nothing", "nfn": "/nothing"}
NOROOT_ROUTES = ("dbgn", "defn", "nfn")
PAGE_RE = re.compile(r"<title>(\d\d\d) - ")


def canon_body(body):
    text = body[:400].decode("utf-8", "replace")
    m = PAGE_RE.search(text)
    if m:
        return ("page:" + m.group(1)).encode()
    if "<title>Poor Wsgi Debug info" in text:
        return b"page:debug-info"
    if "<title>Index of" in text:
        return b"page:index"
    return None


def run_case(case, method=None):
    """-> (trace list, outcome) where outcome is ('answered', status line, headers, body) |
    ('silent',) | ('escaped', exception) ; plus the `seen` list recorded by before hooks"""
    c = parse_case(case)
    if method is None:
        method = c["meth"]
    app = get_app(c)
    app.debug = c["route"] in ("dbg", "dbgn")
    app.document_index = c["route"] == "dir"
    env = {"REQUEST_METHOD": method, "PATH_INFO": PATHS[c["route"]], "QUERY_STRING": "", "SERVER_NAME": "srv",
           "SERVER_PORT": "80", "SERVER_PROTOCOL": "HTTP/1.1", "wsgi.url_scheme": "http",
           "wsgi.input": io.BytesIO(b""), "wsgi.errors": io.StringIO(), "HTTP_HOST": "example.org",
           "verif.trace": [], "verif.seen": [], "verif.prog": c["prog"]}
    ctor = c["ctor"]
    if ctor == "exc~5":
        env["CONTENT_LENGTH"] = "abc"
    elif ctor.startswith("ab~400"):
        env.update(REQUEST_METHOD="POST", CONTENT_TYPE="application/json", CONTENT_LENGTH="3")
        env["wsgi.input"] = io.BytesIO(b"{x}")
    elif ctor == "conn":
        del env["PATH_INFO"]
    elif ctor != "ok":
        raise ValueError("ctor " + ctor)
    calls = []
    try:
        it = app(env, lambda s, h: calls.append((s, h)))
        chunks = list(it)
    except BaseException as err:
        return env["verif.trace"], ("escaped", err, calls), env["verif.seen"]
    if not calls:
        return env["verif.trace"], ("silent", chunks), env["verif.seen"]
    return env["verif.trace"], ("answered", calls, chunks), env["verif.seen"]


def canon(trace, outcome):
    tr = ",".join(trace) or "-"
    if outcome[0] == "escaped":
        return "%s ESCAPED:%s" % (tr, type(outcome[1]).__name__)
    if outcome[0] == "silent":
        return "%s silent%s" % (tr, "" if not outcome[1] else "+body")
    calls, chunks = outcome[1], outcome[2]
    if len(calls) != 1:
        return "%s CALLS:%d" % (tr, len(calls))
    status, headers = calls[0]
    if not all(isinstance(c, bytes) for c in chunks):
        return "%s NONBYTES" % tr
    body = b"".join(chunks)
    tag = canon_body(body)
    hs = []
    for k, v in headers:
        if k.lower() in VOLATILE:
            v = "x"
        if tag is not None and k.lower() == "content-length":
            v = str(len(tag))
        hs.append((k, v))
    if tag is not None:
        body = tag
    code, _, reason = status.partition(" ")
    return "%s %s %s %s %s" % (tr, code, hx(reason), enc_hs(hs), hx(body))


def observe(case):
    try:
        trace, outcome, _ = run_case(case)
        return canon(trace, outcome)
    except Exception as err:
        return "HARNESS-" + excname(err)


def cleanup():
    if _root:
        shutil.rmtree(_root, ignore_errors=True)


# ---------------------------------------------------------------------------------------
# pools of values and behaviours (built lazily: they import poorwsgi)

_pool = None


def pool():
    """-> dict with lists of registered factories: plain values, responses, tuples, garbage"""
    global _pool
    if _pool is not None:
        return _pool
    from poorwsgi.response import (Response, TextResponse, JSONResponse, FileObjResponse, FileResponse,
                                   GeneratorResponse, StrGeneratorResponse, JSONGeneratorResponse,
                                   NoContentResponse, NotModifiedResponse, RedirectResponse,
                                   PartialResponse, Declined)
    from poorwsgi.headers import Headers
    import simplejson
    plain = [f_str(""), f_str("a"), f_str("žluť 😀\n"), f_bytes(b""), f_bytes(b"\x00\xffbin"),
             f_json({}), f_json([]), f_json({"a": [1, {"b": None}], "č": "ř"}), f_json(["x", 1]),
             f_json([{"o": 1}, {"o": 2}]), f_json({"lone": "\ud83d", "pair": "\U0001F600", "nul": "\x00"}),
             f_json(["\udcff name from os.fsdecode"]), f_lbytes([b"ab", b"", b"c"]), f_lbytes([b""]),
             f_gen([b"g1", b"", b"g2"]), f_gen([]), F_NONE]
    junk = [F_INT, F_OBJ]

    def hdr_variants():
        return [("h", lambda: None, "-"),
                ("h", lambda: {"X-D": "1"}, enc_hs([("X-D", "1")])),
                ("h", lambda: [("X-L", "é"), ("Set-Cookie", "a=1"), ("Set-Cookie", "b=2")],
                 enc_hs([("X-L", "é".encode().decode("latin-1")), ("Set-Cookie", "a=1"), ("Set-Cookie", "b=2")])),
                ("h", lambda: (("X-T", "t"),), enc_hs([("X-T", "t")])),
                ("h", lambda: Headers([("X-H", "h")]), enc_hs([("X-H", "h")])),
                ("h", lambda: 5, "!"),
                ("h", lambda: [("a",)], "!")]
    tuples = []
    for d in (f_str("tup"), f_bytes(b"tb"), f_json({"t": 1}), F_NONE, f_gen([b"x"]), F_OBJ):
        register(d)
        tuples.append(f_tuple(d, []))
        tuples.append(f_tuple(d, [("c", "text/plain")]))
        for hv in hdr_variants():
            tuples.append(f_tuple(d, [("c", "text/x-verif; charset=utf-8"), hv]))
        for st in (200, 201, 204, 404, 418, 599, 299, 700):
            tuples.append(f_tuple(d, [("c", "text/plain"), hdr_variants()[1], ("s", st)]))
        tuples.append(f_tuple(d, [("c", "text/plain"), hdr_variants()[0], ("s", 200), ("x",)]))   # 5 items
        tuples.append(f_tuple(d, [("x",)]))                          # content type not a str
        tuples.append(f_tuple(d, [("c", "a/b"), hdr_variants()[0], ("x",)]))   # status not an int
    import io as _io

    def cookie_resp():
        r = Response(b"cookies", headers={"X-First": "1"})
        r.add_header("Set-Cookie", "a=1")
        r.add_header("Set-Cookie", "b=2; Path=/")
        r.add_header("X-Last", "é")
        return r

    def headers_assigned():
        r = Response(b"assigned", headers={"X-Old": "gone"})
        r.headers = [("X-New", "n"), ("Set-Cookie", "a=1"), ("Set-Cookie", "b=2")]      # the setter replaces the collection
        return r

    def headers_assigned_obj():
        r = TextResponse("assigned obj")
        r.headers = Headers([("X-Obj", "é".encode().decode("latin-1")), ("Content-Type", "text/x-own")])
        return r

    def partial():
        r = PartialResponse(b"56789")
        r.make_range([(5, 9)], "chars", 25)
        return r
    jchunks = [c.encode() for c in simplejson.JSONEncoder(iterable_as_array=True).iterencode({"items": [1, 2]})]
    fpath = os.path.join(root(), "f")
    resps = [
        f_resp(lambda: Response("text é", status_code=200)),
        f_resp(lambda: Response(b"", content_type="")),
        f_resp(lambda: Response(b"created", headers=[("Location", "/x")], status_code=201)),
        f_resp(cookie_resp),
        f_resp(lambda: Response(b"own", headers={"Content-Type": "x/y", "Content-Length": "3"})),
        f_resp(lambda: Response(b"lower", headers={"content-type": "x/z", "CONTENT-LENGTH": "5"})),
        f_resp(lambda: GeneratorResponse(iter([b"g"]), headers=[("CONTENT-TYPE", "a/b")]), [b"g"]),
        f_resp(lambda: TextResponse("plain ž", status_code=404)),
        f_resp(lambda: JSONResponse({"k": "v"}, status_code=503)),
        f_resp(lambda: JSONResponse([])),
        f_resp(lambda: FileObjResponse(_io.BytesIO(b"fileobj"), headers={"X-F": "1"}), [b"fileobj"]),
        f_resp(lambda: FileResponse(fpath), [b"file"]),
        # a stream that cannot seek (a pipe, a socket): sent from where it stands, no length known
        f_resp(lambda: FileObjResponse(_io.BufferedReader(NoSeek(b"piped")), headers={"X-P": "1"}), [b"piped"]),
        f_resp(lambda: GeneratorResponse(iter([b"ge", b"n"]), content_length=3), [b"ge", b"n"]),
        f_resp(lambda: GeneratorResponse(iter([b"gen0"])), [b"gen0"]),
        f_resp(lambda: StrGeneratorResponse(iter(["sž", "t"])), ["sž".encode(), b"t"]),
        f_resp(lambda: JSONGeneratorResponse(items=[1, 2]), jchunks),
        f_resp(lambda: NoContentResponse()),
        f_resp(lambda: NoContentResponse(headers={"X-N": "n"}, status_code=205)),
        f_resp(lambda: NotModifiedResponse(etag='"tag"', vary="Accept")),
        f_resp(lambda: RedirectResponse("/there", message="moved")),
        f_resp(lambda: RedirectResponse("/perm", status_code=301)),
        f_resp(partial),
        f_resp(lambda: Declined()),
        f_resp(lambda: Response(b"teapot", status_code=418)),
        f_resp(lambda: Response(b"", status_code=304, headers={"ETag": '"e"'})),
        # every constructor argument of the not-modified response (date as text, seconds and datetime)
        f_resp(lambda: NotModifiedResponse(etag='W/"x"', content_location="/doc/é".encode().decode("latin-1"),
                                           date="Tue, 15 Nov 1994 08:12:31 GMT")),
        f_resp(lambda: NotModifiedResponse(headers={"Cache-Control": "max-age=5"}, date=784887151)),
        f_resp(lambda: NotModifiedResponse(headers=[("Expires", "0"), ("Set-Cookie", "k=v")],
                                           date=__import__("datetime").datetime(2000, 2, 29, 23, 59, 59,
                                                                              tzinfo=__import__("datetime").timezone.utc),
                                           vary="Accept-Encoding, Cookie")),
        f_resp(lambda: NotModifiedResponse()),
        f_resp(lambda: RedirectResponse("/perm2", permanent=True)),
        f_resp(headers_assigned),
        f_resp(headers_assigned_obj),
    ]
    for group in (plain, junk, tuples, resps):
        for f in group:
            register(f)
    _pool = dict(plain=plain, junk=junk, tuples=tuples, resps=resps)
    return _pool


ERROR_KW_PAGES = (400, 401, 403, 404, 405, 501)      # built-in pages with an `error=None` parameter
ABORT_CODES = [0, 200, 204, 304, 400, 401, 403, 404, 405, 416, 418, 500, 501, 503]


def rand_value(rng, garbage=0.1):
    p = pool()
    r = rng.random()
    if r < garbage:
        return rng.choice(p["junk"])
    if r < 0.45:
        return rng.choice(p["plain"])
    if r < 0.7:
        return rng.choice(p["tuples"])
    return rng.choice(p["resps"])


def rand_fail(rng):
    r = rng.random()
    if r < 0.4:
        code = rng.choice(ABORT_CODES)
        r2 = rng.random()
        return "ab~%d~%d~%d" % (code, 1 if r2 < 0.1 else (2 if r2 < 0.2 else (3 if r2 < 0.25 else 0)),
                                1 if (code == 401 and rng.random() < 0.5) else 0)
    if r < 0.5:
        f = rng.choice([x for x in pool()["resps"]])
        return "abr~" + f.tok[1:]
    if r < 0.85:
        return "exc~%d" % rng.choice([0, 1, 2, 5] + (sorted(BUILTIN_EXC) if rng.random() < 0.3 else []))
    return rng.choice(["sysexit", "conn", "base"])


def rand_beh(rng, fail=0.5, after=False):
    if rng.random() < fail:
        return rand_fail(rng)
    if after and rng.random() < 0.5:
        return "same"
    return beh_ret(rand_value(rng))


def mk_case(prop, route, ctor, nb, na, us, eh, digest, prog, meth=None, ehm=None, usm=None):
    line = "%s route=%s ctor=%s nb=%d na=%d us=%s eh=%s digest=%d prog=%s" % (
        prop, route, ctor, nb, na, ",".join(map(str, us)) or "none", ",".join(map(str, eh)) or "none",
        1 if digest else 0, ";".join("%s:%s" % kv for kv in prog.items()) or "none")
    if meth is not None:
        line += " meth=%s" % meth
    if ehm is not None and eh:
        line += " ehm=%s" % ",".join(map(str, ehm))
    if usm is not None and us:
        line += " usm=%s" % ",".join(map(str, usm))
    return line


ROUTES = ["hit", "wrong", "file", "dir", "forb", "dbg", "default", "nf", "rx", "raw", "dbgn", "defn", "nfn"]
ENDPOINT_ROUTES = ("hit", "default", "rx", "raw", "defn")


def rand_case(prop, rng, fail=0.4):
    pool()
    route = rng.choice(ROUTES)
    ctor = "ok" if rng.random() < 0.9 else rng.choice(["exc~5", "ab~400~0~0", "conn"])
    nb, na = rng.randrange(0, 4), rng.randrange(0, 4)
    us = sorted(rng.sample([400, 401, 404, 405, 418, 500, 503, 204], rng.choice([0, 0, 1, 2, 3])))
    eh = rng.sample([0, 1, 2, 9], rng.choice([0, 0, 1, 2, 3, 4]))
    digest = rng.random() < 0.1
    prog = {}
    for i in range(nb):
        if rng.random() < 0.3:
            prog["b%d" % i] = rand_beh(rng, 0.8)
    prog["e"] = rand_beh(rng, fail)
    for j in range(na):
        if rng.random() < 0.5:
            prog["a%d" % j] = rand_beh(rng, 0.4, after=True)
    for code in us:
        prog["s%d" % code] = rand_beh(rng, 0.3)
    for i in range(len(eh)):
        prog["x%d" % i] = rand_beh(rng, 0.3)
    if rng.random() < 0.35:
        meth = rng.choice(list(METHOD_BITS) + ["BREW"])
        masks = [1, 2, 4, 3, 6, 7, 16, 511, 511]
        ehm = [rng.choice(masks) for _ in eh]
        usm = [rng.choice(masks) for _ in us]
        if route in ("hit", "default", "nf") and ctor != "ab~400~0~0":
            return mk_case(prop, route, ctor, nb, na, us, eh, digest, prog, meth, ehm, usm)
    return mk_case(prop, route, ctor, nb, na, us, eh, digest, prog)
