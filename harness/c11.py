"""C11 - digest-protected endpoints run only for correctly authenticated requests."""
import hashlib
import io
import os
import random
import re

from harness.core import hx, unhx, Violation, excname

LEAN_TARGETS = ["PoorProofs.Props.C11", "PoorProofs.Props.PwFile"]
AUDIT_IMPORTS = ["PoorProofs.Props.C11", "PoorProofs.Props.PwFile"]
LEAN_FILES = ["PoorModel/Digest.lean", "PoorProofs/Lemmas/Digest.lean", "PoorProofs/Props/C11.lean",
              "PoorModel/PwFile.lean", "PoorProofs/Lemmas/PwFile.lean", "PoorProofs/Props/PwFile.lean"]
THEOREMS = ["Poor.Props.C11.gate_run_iff",
            "Poor.Props.C11.C11_no_header",
            "Poor.Props.C11.C11_sound",
            "Poor.Props.C11.C11_reject",
            "Poor.Props.C11.C11_stale_iff",
            "Poor.Props.C11.C11_complete",
            "Poor.Props.C11.C11_uri_suffix_accepted",
            "Poor.Props.C11.expectedResponse_collision",
            "Poor.Props.C11.C11_wrong_secret_collision",
            "Poor.Props.C11.C11_no_error",
            "Poor.Digest.scanAuthF_render", "Poor.Digest.authDict_render", "Poor.Digest.C11_wire",
            "Poor.Props.C11.C11_complete_wire",
            "Poor.PwFile.load_render", "Poor.PwFile.load_render_noeol", "Poor.PwFile.find_load", "Poor.PwFile.parseLine_line"]
TRUSTED_BASE = ["model Poor.Digest hand-written from digest.py:33-190, request.py:27 and 556-568; the hash functions are "
                "parameters of the model (theorems hold for every function; what soundness needs of them - injectivity on "
                "the compared strings - is an explicit hypothesis); the correspondence runs install one injective stand-in "
                "hash on both sides, the oracle uses hashlib through an independent RFC 7616 client",
                "nonce validity is Poor.Token.checkToken (property C16)",
                "model Poor.PwFile of PasswordMap.load/.write/.find (digest.py:200-250): text-mode line iteration with "
                "universal newlines, str.strip with Python's table of white space, str.split(':'); compared with the real "
                "class on random file texts on every run",
                "the regular expression RE_AUTHORIZATION is re-stated as a scanner (pattern text pinned by Gen.Patterns); "
                "\\w is modelled for code points below 256 (WSGI header values are latin-1 strings)"]
ASSUMPTIONS = ["duplicate fields: the last occurrence counts (dict semantics of the tokenizer)",
               "a header whose values are re-quoted (algorithm=\"MD5\", nc=\"00000001\") carries the same credentials",
               "header values are latin-1 strings as PEP 3333 requires"]
RULE = ("4 algorithms x qop {auth, ''} x users/realms/passwords with non-ASCII and spaces x methods x paths with query strings "
        "and percent-escapes x required user name; from a correct header every single-field mutation {drop, empty, one "
        "character, other user's/realm's value, re-quote} of 10 fields with and without recomputing the response; broken "
        "headers; nonces at every offset around the lifetime under a controlled clock; non-trivial = a header is present")
EXHAUSTIVE = {"quick": False, "thorough": False}

ALGS = ["MD5", "MD5-sess", "SHA-256", "SHA-256-sess"]
USERS = [("user", "pw"), ("émile x", "hés lo"), ("bob", "pw"), ("a", "p:w"), ("Ünï", "пароль"),
         # names that contain one another, differ in letter case only, or hold the separator of A1
         ("ops:admin", "pw1"), ("admin", "pw2"), ("ops", "pw3"), ("Bob", "pw4"), ("bobby", "pw5"),
         # names that begin with the characters of the `UTF-8''` prefix of the extended notation
         ("Tom", "pw6"), ("8ball", "pw7"), ("Ulrike F", "pw8"), ("-dash", "pw9")]
REALMS = ["Zone", "Admin Zone", "Zóna"]
FIELDS = ["username", "realm", "nonce", "uri", "algorithm", "response", "opaque", "qop", "nc", "cnonce"]
UNQUOTED = ("algorithm", "qop", "nc")


class Toy:
    """stand-in hash of the correspondence runs (the Lean driver uses the same function)"""

    def __init__(self, data=b""):
        self.data = bytes(data)

    def hexdigest(self):
        return "h" + (self.data.hex() or ".")


def real_hash(alg):
    return hashlib.md5 if alg.startswith("MD5") else hashlib.sha256


def hexd(hfun, text):
    return hfun(text.encode("utf-8")).hexdigest()


def client_fields(hfun, alg, qop, user, realm, password, nonce, method, uri, opaque, cnonce="c0ffee", nc="00000001",
                  stored=None):
    """RFC 7616 section 3.4: the fields of a correct Authorization header"""
    a1 = stored if stored is not None else hexd(hfun, "%s:%s:%s" % (user, realm, password))
    if alg.endswith("-sess"):
        a1 = hexd(hfun, "%s:%s:%s" % (a1, nonce, cnonce))
    a2 = hexd(hfun, "%s:%s" % (method, uri))
    if qop:
        resp = hexd(hfun, ":".join([a1, nonce, nc, cnonce, qop, a2]))
    else:
        resp = hexd(hfun, ":".join([a1, nonce, a2]))
    f = {"username": user, "realm": realm, "nonce": nonce, "uri": uri, "algorithm": alg, "response": resp, "opaque": opaque}
    if qop:
        f.update(qop=qop, nc=nc, cnonce=cnonce)
    elif alg.endswith("-sess"):
        f["cnonce"] = cnonce
    return f


def render(fields, requote=(), scheme="Digest", sep=", "):
    parts = []
    for k, v in fields.items():
        quoted = (k not in UNQUOTED) != (k in requote)
        parts.append('%s="%s"' % (k, v) if quoted else "%s=%s" % (k, v))
    return scheme + " " + sep.join(parts)


def wire(text):
    """header text -> the latin-1 string a WSGI server hands over"""
    return text.encode("utf-8").decode("latin-1")


# ---------------------------------------------------------------------------- applications

_apps = {}
_count = [0]


def get_app(alg, qop, users, realm, requser, secret="sekret", timeout=300, toy=False, table="dict"):
    from poorwsgi import Application, state
    from poorwsgi.digest import check_digest
    key = (alg, qop, tuple(users), realm, requser, secret, timeout, toy, table)
    if key in _apps:
        return _apps[key]
    _count[0] += 1
    app = Application("verif_c11_%d_%d" % (os.getpid(), _count[0]))
    app.secret_key = secret
    app.auth_type = "Digest"
    app.auth_algorithm = alg
    app.auth_qop = qop
    app.auth_timeout = timeout
    if toy:
        app._Application__auth_hash = Toy
    amap = {}
    for r, u, stored in users:
        amap.setdefault(r, {})[u] = stored
    app.auth_map = amap
    if table != "dict":
        # the user table kept in a password file (htdigest layout `user:realm:hash`, one line each) and loaded from it:
        # written by the class itself, or by another tool - the last line with or without its line end, CRLF line ends
        import tempfile
        from poorwsgi.digest import PasswordMap
        path = os.path.join(tempfile.mkdtemp(prefix="verif_c11_"), "users.digest")
        if table == "file-written":
            pm = PasswordMap(path)
            for r, u, stored in users:
                pm.set(r, u, stored)
            pm.write()
        else:
            eol = "\r\n" if table == "file-crlf" else "\n"
            text = eol.join("%s:%s:%s" % (u, r, stored) for r, u, stored in users) + ("" if table == "file-noeol" else eol)
            with open(path, "w", encoding="utf-8", newline="") as fh:
                fh.write(text)
        loaded = PasswordMap(path)
        loaded.load()
        app.auth_map = loaded
        import shutil
        shutil.rmtree(os.path.dirname(path), ignore_errors=True)
    ran = []

    @check_digest(realm, requser)
    def protected(req, *args):
        ran.append(req.user)
        return "secret content"
    app.set_default(protected, state.METHOD_ALL)
    app.set_route("/p/<name>", protected, state.METHOD_ALL)
    app.ran = ran
    _apps[key] = app
    return app


def call(app, method, path, query, hdr, agent, now_ticks=None, toy=False, server="srv", extra=None):
    import poorwsgi.session as S
    env = {"REQUEST_METHOD": method, "PATH_INFO": path.encode("utf-8").decode("latin-1"), "QUERY_STRING": query,
           "SERVER_NAME": server, "SERVER_PORT": "80", "SERVER_PROTOCOL": "HTTP/1.1", "wsgi.url_scheme": "http",
           "wsgi.input": io.BytesIO(b""), "wsgi.errors": io.StringIO()}
    if agent is not None:
        env["HTTP_USER_AGENT"] = agent
    if hdr is not None:
        env["HTTP_AUTHORIZATION"] = hdr
    env.update(extra or {})
    del app.ran[:]
    old = (S.sha256, S.time)
    if toy:
        S.sha256 = Toy
    if now_ticks is not None:
        S.time = lambda: now_ticks / 1e6
    st = []
    try:
        body = b"".join(app(env, lambda s, h: st.append((s, h))))
    finally:
        S.sha256, S.time = old
    status = int(st[0][0][:3])
    hd = {k.lower(): v for k, v in st[0][1]}
    return status, list(app.ran), hd.get("www-authenticate", ""), body


def opaque_of(server="srv"):
    return hashlib.sha256(server.encode()).hexdigest()


def issue_nonce(secret, agent, timeout, now_ticks, toy=False):
    import poorwsgi.session as S
    old = (S.sha256, S.time)
    if toy:
        S.sha256 = Toy
    S.time = lambda: now_ticks / 1e6
    try:
        return S.get_token(secret, agent, timeout=timeout)
    finally:
        S.sha256, S.time = old


# ---------------------------------------------------------------------------- cases

def users_tok(users):
    return ",".join("%s/%s/%s" % (hx(r), hx(u), hx(h)) for r, u, h in users) or "none"


def parse_users(tok):
    return [] if tok == "none" else [tuple(unhx(x).decode() for x in e.split("/")) for e in tok.split(",")]


def gate_case(alg, qop, users, secret, timeout, method, path, query, agent, now, realm, requser, hdr):
    return "C11 gate %s %s %s %s %s %s %s %s %s %s %d %s %s %s" % (
        hx(alg), hx(qop), hx(opaque_of()), users_tok(users), hx(secret), "-" if not timeout else str(timeout), hx(method),
        hx(path), hx(query), hx("%s" % agent), now, hx(realm), hx(requser) if requser is not None else "-",
        hx(hdr) if hdr is not None else "-")


def mutate(rng, f, alg, qop, others):
    """single-field mutations of a correct field set; -> (label, fields, requote)"""
    field = rng.choice(FIELDS)
    kind = rng.choice(["drop", "empty", "char", "swap", "requote", "dup"])
    g = dict(f)
    requote = ()
    if kind == "drop":
        g.pop(field, None)
    elif kind == "empty":
        g[field] = ""
    elif kind == "char":
        v = g.get(field, "x")
        if v:
            i = rng.randrange(len(v))
            # (sometimes a character outside ASCII: whatever the header holds, the answer is 401, never an error)
            g[field] = v[:i] + (rng.choice(["é", "ÿ", "€"]) if rng.random() < 0.25 else ("y" if v[i] != "y" else "z")) + v[i + 1:]
        else:
            g[field] = "y"
    elif kind == "swap":
        g[field] = others.get(field, "other")
    elif kind == "requote":
        requote = (field,)
    return "%s-%s" % (kind, field), g, requote


BROKEN = ["Digest", "Digest ", "digest", "Basic dXNlcjpwdw==", "Bearer abc", "Digest username=\"user", "Digest username=user\"",
          "Digest =", "Digest ,,,", "Digest username=\"\", realm=\"\"", "Digestusername=\"user\"", " Digest username=\"user\"",
          "Digest " + "x=\"y\", " * 400, "Digest username*=UTF-8''%C3%A9mile%20x", "Digest username*=\"UTF-8''user\"",
          "DIGEST username=\"user\"", "Digest\tusername=\"user\"", "Digest username = \"user\"", "Digest username=\"us\"er\"",
          "Digest a=b=c, d=\"e=f\"", "Digest type=\"Basic\"", "Negotiate", "", " ", "Digest username=\"é\"", "Digest ª=1, b²=µ"]


def generate(rng, tier):
    big = tier == "thorough"
    cases = []
    # password files: well-formed tables in the three line-end conventions, with and without the last line end, and random
    # texts over separators, line ends and every kind of white space str.strip knows
    alpha = ["a", "b", "user", "Zone", "0f3", ":", ":", "\n", "\n", "\r\n", "\r", " ", "\t", "\xa0", "\x1c", "\x85", "\u2028",
             "é", "\u3000", "\x0b", "x y"]
    for _ in range(2000 if big else 400):
        if rng.random() < 0.5:
            eol = rng.choice(["\n", "\n", "\r\n", "\r"])
            rows = ["%s:%s:%s" % (rng.choice(["a", "bob", "é x", "A", " lead", "trail ", "a\u2028b", ""]),
                                  rng.choice(["Zone", "Admin Zone", "Zóna", "z"]),
                                  rng.choice(["0f3a", "", "dead beef", "ff\xa0", "0" * 32]))
                    for _ in range(rng.randrange(0, 5))]
            text = eol.join(rows) + rng.choice(["", eol, eol + eol])
        else:
            text = "".join(rng.choice(alpha) for _ in range(rng.randrange(0, 14)))
        cases.append("C11 pw " + hx(text.encode("utf-8")))
    # tokenizer / dictionary
    for h in BROKEN:
        cases.append("C11 scan " + hx(wire(h)))
        cases.append("C11 dict " + hx(wire(h)))
    toks = ["Digest", " ", ",", "=", '"', "username", "realm", "nc", "*", "UTF-8''", "a b", "é", "-", "'", "%41", "x", "1", "\t",
            "type", "username*", "\xaa", "\xb2", "\xd7", ":", "/"]
    for _ in range(3000 if big else 500):
        h = "".join(rng.choice(toks) for _ in range(rng.randrange(0, 14)))
        if any(ord(c) > 255 for c in h):
            continue
        cases.append("C11 scan " + hx(h))
        cases.append("C11 dict " + hx(h))
    # gate with the stand-in hash on both sides
    for _ in range(4000 if big else 700):
        alg, qop = rng.choice(ALGS), rng.choice(["auth", "auth", ""])
        realm = rng.choice(REALMS)
        pool = rng.sample(USERS, rng.randrange(1, 4))
        users = [(realm, u, Toy(("%s:%s:%s" % (u, realm, p)).encode()).hexdigest()) for u, p in pool]
        if rng.random() < 0.2:
            users.append(("Other", "user", Toy(b"user:Other:pw").hexdigest()))
        if rng.random() < 0.05:
            users.append((realm, "nopw", ""))
        user, password = rng.choice(pool)
        requser = rng.choice([None, None, user, "someone", "", user + "x", "x" + user, user + ":" + user, user.upper(), user[:-1]])
        timeout = rng.choice([300, 300, 5, None, 0])
        secret, agent = rng.choice(["sekret", "k"]), rng.choice(["UA", "Mozilla/5.0 (X11)", None])
        method = rng.choice(["GET", "POST", "PUT", "DELETE", "HEAD"])
        path, query, uri = rng.choice([("/p", "", "/p"), ("/p/x", "a=1", "/p/x?a=1"), ("/p/é x", "q=a%20b", "/p/%C3%A9%20x?q=a%20b"),
                                       ("/", "", "/"), ("/p/x", " a=1 ", "/p/x?a=1"), ("/p/x", "a=%zz", "/p/x?a=%zz")])
        now = rng.randrange(10 ** 9, 2 * 10 ** 9) * 1000
        age = rng.choice([0, 1, 2, 299, 300, 301, 599, 600, 601, 900]) * 10 ** 6 if timeout else 0
        nonce = issue_nonce(secret, agent, timeout, now, toy=True)
        kind = rng.random()
        if kind < 0.08:
            hdr = rng.choice([None, "Basic dXNlcjpwdw==", "Digest", "Digest username=\"user\""])
            cases.append(gate_case(alg, qop, users, secret, timeout, method, path, query, agent, now + age, realm, requser,
                                   wire(hdr) if hdr is not None else None))
            continue
        f = client_fields(Toy, alg, qop, user, realm, password, nonce, method, uri, opaque_of())
        requote = ()
        if kind < 0.3:
            pass                                   # correct header
        else:
            other = rng.choice(USERS)
            others = client_fields(Toy, rng.choice(ALGS), "auth", other[0], rng.choice(REALMS), other[1],
                                   issue_nonce("foreign", agent, timeout, now, toy=True), rng.choice(["GET", "POST"]),
                                   "/elsewhere", opaque_of("other"), "deadbeef", "00000002")
            _, f, requote = mutate(rng, f, alg, qop, others)
            if rng.random() < 0.3 and "response" in f:
                # the sender knows the password and recomputes the response for the altered fields
                g = client_fields(Toy, f.get("algorithm", alg), f.get("qop", ""), f.get("username", ""), f.get("realm", ""),
                                  password, f.get("nonce", ""), method, f.get("uri", ""), f.get("opaque", ""),
                                  f.get("cnonce", ""), f.get("nc", ""))
                f["response"] = g["response"]
        if rng.random() < 0.1:
            f["uri"] = "/prefix" + f.get("uri", "")      # mounted application / proxy prefix
        hdr = render(f, requote, rng.choice(["Digest", "Digest", "digest", "DIGEST"]), rng.choice([", ", ",", " , "]))
        cases.append(gate_case(alg, qop, users, secret, timeout, method, path, query, agent, now + age, realm, requser, wire(hdr)))
    for i in range(2500 if big else 500):
        cases.append("C11 e2e %d" % rng.randrange(1 << 30))
    # the rarer scenarios a fixed number of times each, so that no run goes without them
    for sc in ("no-users-in-realm", "not-the-required-user", "suffix-uri", "foreign-nonce", "unknown-user", "nonce-age"):
        for _ in range(40 if big else 12):
            cases.append("C11 e2e %d %s" % (rng.randrange(1 << 30), sc))
    return cases


def to_model(case):
    t = case.split()
    if t[1] == "pw":
        return ["PW load " + t[2]]
    return [] if t[1] == "e2e" else [case]


def observe(case):
    from poorwsgi.request import RE_AUTHORIZATION
    t = case.split()
    try:
        if t[1] == "pw":
            # `pw <file text>`: what PasswordMap.load makes of a password file (the table as find() sees it)
            import tempfile
            from poorwsgi.digest import PasswordMap
            d = tempfile.mkdtemp(prefix="verif_c11_")
            try:
                path = os.path.join(d, "users.digest")
                with open(path, "wb") as fh:
                    fh.write(unhx(t[2]))
                pm = PasswordMap(path)
                try:
                    pm.load()
                except ValueError:
                    return "error"
                rows = sorted("%s:%s:%s" % (hx(r.encode()), hx(u.encode()), hx(dg.encode()))
                              for r, us in pm.items() for u, dg in us.items())
                return ",".join(rows) or "empty"
            finally:
                import shutil
                shutil.rmtree(d, ignore_errors=True)
        if t[1] == "scan":
            h = unhx(t[2]).decode()
            return ",".join("%s=%s" % (hx(k), hx(v)) for k, v in RE_AUTHORIZATION.findall(h.strip())) or "none"
        if t[1] == "dict":
            from poorwsgi.request import Request
            h = unhx(t[2]).decode()
            env = {"REQUEST_METHOD": "GET", "PATH_INFO": "/", "QUERY_STRING": "", "SERVER_NAME": "srv", "SERVER_PORT": "80",
                   "SERVER_PROTOCOL": "HTTP/1.1", "wsgi.url_scheme": "http", "wsgi.input": io.BytesIO(b""),
                   "wsgi.errors": io.StringIO(), "REQUEST_STARTTIME": 0.0, "HTTP_AUTHORIZATION": h}
            d = Request(env, get_app("MD5", "auth", (), "Zone", None)).authorization
            if "�" in (d.get("username") or "") and "�" not in h:
                return "unsupported"
            d["type"] = "Digest" if d.get("type") == "Digest" else "other"     # only this comparison is made with it
            return ",".join("%s=%s" % (hx(k), hx(v)) for k, v in d.items()) or "none"
        if t[1] == "gate":
            alg, qop = unhx(t[2]).decode(), unhx(t[3]).decode()
            users = tuple(parse_users(t[5]))
            secret = unhx(t[6]).decode()
            timeout = None if t[7] == "-" else int(t[7])
            method, path, query = unhx(t[8]).decode(), unhx(t[9]).decode(), unhx(t[10]).decode()
            agent = unhx(t[11]).decode()
            agent = None if agent == "None" else agent
            now = int(t[12])
            realm = unhx(t[13]).decode()
            requser = None if t[14] == "-" else unhx(t[14]).decode()
            hdr = None if t[15] == "-" else unhx(t[15]).decode()
            app = get_app(alg, qop, users, realm, requser, secret, timeout, toy=True)
            status, ran, www, _ = call(app, method, path, query, hdr, agent, now, toy=True)
            if ran:
                return "run " + hx(ran[0])
            if status == 401:
                return "401 " + ("stale" if "stale=true" in www else "fresh")
            return "error" if status == 500 else "status-%d" % status
    except Exception as err:
        return excname(err)
    return "-"


# ---------------------------------------------------------------------------- oracle (real hashes, RFC 7616 client)

def window_valid(T, t0, t1):
    """a nonce issued at t0 verifies at t1 (seconds) - the documented T-aligned rule"""
    return 0 <= int(t1 / T) - int(t0 / T) <= 1


def oracle(case):
    t = case.split()
    if t[1] == "gate":
        # whatever the header holds: the endpoint runs or the answer is 401 with a challenge - never an error
        obs = observe(case)
        if not (obs.startswith("run ") or obs.startswith("401 ")):
            return [Violation("c11:gate-error", case, "neither run nor 401: %s (Authorization %r)"
                              % (obs, None if t[15] == "-" else unhx(t[15]).decode("utf-8", "replace")[:200]))]
        return []
    if t[1] != "e2e":
        return []
    rng = random.Random(int(t[2]))
    alg, qop = rng.choice(ALGS), rng.choice(["auth", "auth", ""])
    hfun = real_hash(alg)
    realm = rng.choice(REALMS)
    pool = rng.sample(USERS, rng.randrange(1, 4))
    users = tuple((realm, u, hexd(hfun, "%s:%s:%s" % (u, realm, p))) for u, p in pool) + \
        (("Other", "intruder", hexd(hfun, "intruder:Other:pw")),)
    user, password = rng.choice(pool)
    requser = rng.choice([None, None, user])
    timeout = rng.choice([300, 5, None])
    secret, agent = "s3cr3t-%d" % rng.randrange(3), rng.choice(["UA", "Mozilla/5.0 (X11; Linux)", None])
    method = rng.choice(["GET", "POST", "PUT", "DELETE", "HEAD", "PATCH", "OPTIONS"])
    path, query, uri = rng.choice([("/p", "", "/p"), ("/p/x", "a=1&b=2", "/p/x?a=1&b=2"), ("/", "", "/"),
                                   ("/p/é x", "q=a%20b%26c", "/p/%C3%A9%20x?q=a%20b%26c"), ("/p/a+b", "x=%41", "/p/a+b?x=%41"),
                                   ("/deep/er/path", "", "/deep/er/path"),
                                   # the decoded path itself holds a percent sign followed by two hex digits
                                   ("/p/disc%50", "", "/p/disc%2550"), ("/p/100%25", "k=%2541", "/p/100%2525?k=%2541")])
    t0 = rng.randrange(10 ** 9, 2 * 10 ** 9) + rng.random()
    app = get_app(alg, qop, users, realm, requser, secret, timeout)
    nonce = issue_nonce(secret, agent, timeout, int(t0 * 1e6))
    extra = None
    if rng.random() < 0.2:
        # the deployment sets the secret key per request (poor_SecretKey in the environ): the nonce the server issues
        # is then the one of its own challenge to this very client, whatever key it is made with
        extra = {"poor_SecretKey": "env-" + secret}
        try:
            _, _, chal, _ = call(app, method, path, query, None, agent, int(t0 * 1e6), extra=extra)
        except Exception as err:
            return [Violation("c11:escape", case, "challenge with poor_SecretKey: the application raised %r" % (err,))]
        m = re.search(r'nonce="([^"]+)"', chal)
        if not m:
            return [Violation("c11:challenge", case, "no nonce in the challenge %r" % (chal[:120],))]
        nonce = m.group(1)
    scenario = rng.choice(["correct", "correct", "mutated", "mutated", "mutated", "nonce-age", "broken", "absent", "wrong-method",
                           "other-user", "suffix-uri", "foreign-nonce", "wrong-password", "unknown-user", "not-the-required-user",
                           "no-users-in-realm"])
    if len(t) > 3:
        scenario = t[3]
    if scenario == "no-users-in-realm":
        # the user table knows nothing of the endpoint's realm (no entry, an empty one, or other realms only)
        users = rng.choice([(), (("Other", "intruder", hexd(hfun, "intruder:Other:pw")),), ((realm + "2", user, hexd(hfun, "x")),)])
        app = get_app(alg, qop, users, realm, requser, secret, timeout)
        if rng.random() < 0.3:
            app.auth_map = dict(app.auth_map, **{realm: {}})
    if scenario == "not-the-required-user" and (requser is None or len(pool) < 2):
        # the endpoint is reserved for one user; another registered user of the same realm presents correct credentials
        pool = rng.sample(USERS, rng.randrange(2, 5)) if rng.random() < 0.5 else \
            [u for u in USERS if u[0] in ("ops:admin", "admin", "ops", "bob", "Bob", "bobby", "a")]
        users = tuple((realm, u, hexd(hfun, "%s:%s:%s" % (u, realm, p))) for u, p in pool) + \
            (("Other", "intruder", hexd(hfun, "intruder:Other:pw")),)
        user, password = rng.choice(pool)
        requser = user
        app = get_app(alg, qop, users, realm, requser, secret, timeout)
    rng2 = random.Random(int(t[2]) ^ 0x5A5A5A)
    table = None
    if rng2.random() < 0.3 and users and all(":" not in u and ":" not in r and u == u.strip() and r == r.strip() and u and r
                                             and "\n" not in u + r and "\r" not in u + r for r, u, _ in users):
        table = rng2.choice(["file-written", "file-eol", "file-noeol", "file-noeol", "file-crlf"])
        if table == "file-noeol" and rng2.random() < 0.7:
            # the user who signs in is the one on the last line
            users = tuple(x for x in users if x[1] != user or x[0] != realm) + tuple(x for x in users if x[1] == user and x[0] == realm)
        try:
            app = get_app(alg, qop, users, realm, requser, secret, timeout, table=table)
        except Exception as err:
            return [Violation("c11:table-file", case, "loading the user table from a password file (%s, %r) raised %r"
                              % (table, [(r, u) for r, u, _ in users], err))]
    age = 0.0
    expect_run, expect_stale, note = True, None, ""
    f = client_fields(hfun, alg, qop, user, realm, password, nonce, method, uri, opaque_of())
    requote = ()
    hdr = None
    if scenario == "mutated":
        other = rng.choice([u for u in USERS])
        others = client_fields(hfun, rng.choice([a for a in ALGS if a != alg]), "auth", "intruder", "Other", "pw",
                               issue_nonce("foreign", agent, timeout, int(t0 * 1e6)), "TRACE", "/elsewhere",
                               opaque_of("other"), "deadbeef", "00000002")
        label, f2, requote = mutate(rng, f, alg, qop, others)
        kind, field = label.split("-", 1)
        note = label
        changed = f2 != f
        ignored = field in ("qop", "nc", "cnonce") and not qop and not (field == "cnonce" and alg.endswith("-sess"))
        f = f2
        if kind == "requote" or kind == "dup":
            expect_run = None            # same credentials in another spelling: run or 401, never 500
        elif not changed or ignored:
            expect_run = True
        else:
            expect_run = False
            if field == "nonce":
                expect_stale = None      # an unknown nonce may be reported as stale
    elif scenario == "nonce-age":
        if timeout:
            age = rng.choice([0, 0.5, timeout - 1, timeout - 0.001, timeout, timeout + 1, 2 * timeout - 1, 2 * timeout,
                              2 * timeout + 1, 5 * timeout, rng.random() * 3 * timeout])
            ok = window_valid(timeout, t0, t0 + age)
            expect_run = True if (age < timeout) else (False if age >= 2 * timeout else ok)
            if not expect_run:
                expect_stale = True
            note = "age %.3f of T=%d" % (age, timeout)
    elif scenario == "broken":
        hdr = rng.choice(BROKEN)
        expect_run, note = False, hdr[:40]
    elif scenario == "absent":
        hdr = ""
        expect_run = False
    elif scenario == "wrong-method":
        m2 = rng.choice([m for m in ["GET", "POST", "PUT", "DELETE"] if m != method])
        f = client_fields(hfun, alg, qop, user, realm, password, nonce, m2, uri, opaque_of())
        expect_run, note = False, "computed for " + m2
    elif scenario == "other-user":
        # valid credentials of a user of another realm
        f = client_fields(hfun, alg, qop, "intruder", "Other", "pw", nonce, method, uri, opaque_of())
        expect_run = False
    elif scenario == "suffix-uri":
        f = client_fields(hfun, alg, qop, user, realm, password, nonce, method, "/other" + uri, opaque_of())
        expect_run, note = False, "credentials computed for /other" + uri
    elif scenario == "foreign-nonce":
        fn = issue_nonce(rng.choice(["foreign", secret]), "another agent", timeout, int(t0 * 1e6))
        if extra and rng.random() < 0.6:
            fn = issue_nonce(secret, agent, timeout, int(t0 * 1e6))      # made with the key this request does not use
        f = client_fields(hfun, alg, qop, user, realm, password, fn, method, uri, opaque_of())
        expect_run, expect_stale = False, None
    elif scenario == "unknown-user":
        # a name that is not registered (in this realm), with a response computed from what a sloppy lookup could
        # put in the place of the stored hash: the text of None / False / 0, nothing, the name itself, another
        # user's hash, the hash the name would have under a guessed password
        ghost = rng.choice(["ghost", "None", "", "mallory é", "intruder", user + "x", user.upper() if user.upper() != user else "zz"])
        if requser is not None:
            ghost = rng.choice([ghost, requser + "2"])
        if ghost in [u for u, _ in pool]:
            ghost = "ghost"
        stored = rng.choice(["None", "", "False", "0", "null", ghost, users[0][2], hexd(hfun, "%s:%s:%s" % (ghost, realm, "")),
                             hexd(hfun, "%s:%s:%s" % (ghost, realm, password))])
        f = client_fields(hfun, alg, qop, ghost, realm, "irrelevant", nonce, method, uri, opaque_of(), stored=stored)
        expect_run, note = False, "user %r, hash taken as %r" % (ghost, stored[:12])
    elif scenario == "no-users-in-realm":
        name = rng.choice([user, requser or "admin", "ghost", ""])
        stored = rng.choice(["None", "", "False", "0", "null", "{}", name, hexd(hfun, "%s:%s:%s" % (name, realm, "")),
                             hexd(hfun, "%s:%s:None" % (name, realm))])
        f = client_fields(hfun, alg, qop, name, realm, "irrelevant", nonce, method, uri, opaque_of(), stored=stored)
        expect_run, note = False, "no user is registered in the realm; name %r, hash taken as %r" % (name, stored[:12])
    elif scenario == "not-the-required-user":
        other, opw = rng.choice([u for u in pool if u[0] != requser])
        f = client_fields(hfun, alg, qop, other, realm, opw, nonce, method, uri, opaque_of())
        expect_run, note = False, "correct credentials of %r, the endpoint requires %r" % (other, requser)
    elif scenario == "wrong-password":
        f = client_fields(hfun, alg, qop, user, realm, password + "x", nonce, method, uri, opaque_of())
        expect_run = False
    if hdr is None and "username" in f and ":" not in f["username"] and rng2.random() < 0.3 \
            and scenario in ("correct", "wrong-password", "not-the-required-user", "other-user", "unknown-user"):
        # RFC 7616 3.4.4: the user name in the extended notation `username*=UTF-8''<percent-encoded>` (not quoted)
        import urllib.parse
        f = dict(f)
        name_ = f.pop("username")
        f = dict([("username*", "UTF-8''" + urllib.parse.quote(name_, safe=""))] + list(f.items()))
        requote = tuple(requote) + ("username*",)
        note += " username* notation"
    if hdr is None:
        hdr = render(f, requote, rng.choice(["Digest", "Digest", "digest"]), rng.choice([", ", ","]))
    if scenario == "absent":
        hdr = None
    try:
        status, ran, www, body = call(app, method, path, query, wire(hdr) if hdr is not None else None, agent,
                                      int((t0 + age) * 1e6), extra=extra)
    except Exception as err:
        return [Violation("c11:escape", case, "%s: the application raised %r" % (scenario, err))]
    bad, key = None, scenario
    desc = ("user table loaded from a password file (%s); " % table if table else "") + \
        "%s/%s qop=%r %s %s?%s user=%r required=%r [%s %s]%s" % (alg, realm, qop, method, path, query, user, requser, scenario, note,
                                                                    " poor_SecretKey set on the request" if extra else "")
    if status == 500:
        bad = "500 Internal Server Error"
    elif expect_run is True:
        if ran != [user]:
            bad = "correct credentials were answered %d (endpoint ran as %r)" % (status, ran)
    elif expect_run is False:
        if ran:
            bad = "the endpoint ran as %r" % (ran,)
            if scenario == "suffix-uri":
                key = "uri-suffix"
        elif status != 401 or not www.startswith("Digest ") or 'realm="%s"' % wire(realm) not in www or "nonce=" not in www:
            bad = "status %d with challenge %r" % (status, www[:80])
        elif expect_stale is True and "stale=true" not in www:
            bad = "only the nonce is out of date but the challenge is not marked stale"
        elif expect_stale is False and "stale=true" in www:
            bad = "challenge marked stale although the nonce is current"
        elif b"secret content" in body:
            bad = "the protected content is in the 401 body"
    else:
        if ran and ran != [user]:
            bad = "endpoint ran as %r" % (ran,)
    if not bad and not ran and expect_stale is None and expect_run is False and scenario in ("mutated", "wrong-method", "wrong-password",
                                                                                             "other-user", "broken", "absent"):
        if "stale=true" in www and not (scenario == "mutated" and note.endswith("nonce")) and scenario != "broken":
            bad = "challenge marked stale although the nonce is current"
    if bad:
        return [Violation("c11:" + key, case, "%s: %s; header %r" % (desc, bad, (hdr or "")[:300]))]
    return []


def classify(case, obs):
    t = case.split()
    if t[1] == "gate":
        return "gate-" + obs.split()[0] + ("-" + obs.split()[1] if obs.startswith("401") else "")
    return t[1]
