"""C09 - the caching body reader returns the body exactly once, in order, and stops."""
import random
import itertools

from harness.core import hx, unhx, Violation, excname

LEAN_TARGETS = ["PoorProofs.Props.C09"]
AUDIT_IMPORTS = ["PoorProofs.Props.C09"]
LEAN_FILES = ["PoorModel/Reader.lean", "PoorProofs/Lemmas/Reader.lean", "PoorProofs/Props/C09.lean"]
THEOREMS = ["Poor.Props.C09.C09_prefix", "Poor.Props.C09.C09_complete",
            "Poor.Props.C09.C09_budget", "Poor.Props.C09.C09_no_interior_crlf",
            "Poor.Props.C09.C09_cut_reason", "Poor.Props.C09.C09_bounded_reads", "Poor.Props.C09.C09_length",
            "Poor.Props.C09.C09"]
TRUSTED_BASE = ["model Poor.Reader hand-written from request.py CachedInput (read, readline, __fill)",
                "underlying stream modelled as a byte list + short-read script; an empty read means end of input"]
ASSUMPTIONS = ["wall-clock behaviour of a blocking underlying read is outside the model",
               "declared length is a non-negative integer (negative: reader returns b'' without reading; checked by oracle only)"]
RULE = ("bodies over {a,b,CR,LF} x declared n in {len-1,len,len+2} x block sizes x call sequences over "
        "{read(1),read(2),read(-1),readline(-1),readline(1),readline(3)} (+random long bodies, CRLF on block edges, "
        "short-read scripts); non-trivial = the body contains CR or LF or the script is non-empty")
EXHAUSTIVE = {"quick": False, "thorough": True}

OPS = ["r:1", "r:2", "r:-1", "l:-1", "l:1", "l:3"]
ALPHA = [b"a", b"b", b"\r", b"\n"]


class Spin(Exception):
    pass


class Under:
    """instrumented wsgi.input with short reads"""

    def __init__(self, data, script):
        self.data = data
        self.pos = 0
        self.script = list(script)
        self.requests = []

    def read(self, k=-1):
        self.requests.append(k)
        if len(self.requests) > 20000:
            raise Spin("underlying stream read %d times" % len(self.requests))
        if k is None or k < 0:
            k = len(self.data) - self.pos
        m = k
        if self.script:
            m = min(k, self.script.pop(0) + 1)
        d = self.data[self.pos:self.pos + m]
        self.pos += len(d)
        return d


def mk(body, n, block, script, ops):
    return "C09 %s %d %d %s %s" % (hx(body), n, block,
                                   ",".join(map(str, script)) if script else "none",
                                   ",".join(ops) if ops else "none")


def bodies(maxlen):
    for k in range(maxlen + 1):
        for t in itertools.product(ALPHA, repeat=k):
            yield b"".join(t)


def generate(rng, tier):
    cases = []
    quick = tier != "thorough"
    # 1. exhaustive small space (sampled in the quick tier)
    maxlen, depth = (3, 3) if quick else (4, 4)
    keep = 0.06 if quick else 0.12
    for body in bodies(maxlen):
        for n in sorted({max(0, len(body) - 1), len(body), len(body) + 2}):
            for block in ((1, 2, 3, 5) if quick else (1, 2, 3, 4, 5, 8)):
                for ops in itertools.product(OPS, repeat=depth):
                    if rng.random() < keep:
                        cases.append(mk(body, n, block, [], list(ops) + ["l:-1", "r:-1"]))
    # 2. readline-only history used by the form parser
    maxlen = 5 if quick else 7
    for body in bodies(maxlen):
        if quick and rng.random() > 0.5:
            continue
        for n in (max(0, len(body) - 1), len(body), len(body) + 2):
            for block in ((1, 2, 3, 8) if quick else range(1, 9)):
                if not quick and len(body) == 7 and rng.random() > 0.4:
                    continue
                cases.append(mk(body, n, block, [], ["l:-1"] * (len(body) + 2)))
    # 3. random long bodies, CRLF on block edges, short reads
    for _ in range(300 if quick else 3000):
        block = rng.choice([2, 3, 4, 7, 16, 64, 255])
        nlines = rng.randrange(1, 8)
        body = b""
        for _ in range(nlines):
            body += bytes(rng.choice(b"ab-\r\n") for _ in range(rng.randrange(0, block + 2)))
            pad = (-len(body) - 1) % block     # put CR on the last byte of a block
            if rng.random() < 0.6:
                body += b"x" * pad
            body += b"\r\n"
        if rng.random() < 0.3:
            body = body[:-rng.randrange(1, 3)]
        n = rng.choice([len(body), len(body), max(0, len(body) - rng.randrange(0, 4)), len(body) + 3])
        script = [rng.randrange(0, block + 1) for _ in range(rng.randrange(0, 12))] if rng.random() < 0.6 else []
        ops = [rng.choice(OPS + ["l:65536", "r:%d" % block, "l:%d" % (block + 1), "l:2", "r:0", "l:0"])
               for _ in range(rng.randrange(1, 30))] + ["l:-1"] * 3
        cases.append(mk(body, n, block, script, ops))
    return cases


def parse(case):
    t = case.split()
    body = unhx(t[1])
    n, block = int(t[2]), int(t[3])
    script = [] if t[4] == "none" else [int(x) for x in t[4].split(",")]
    ops = [] if t[5] == "none" else [(o[0], int(o[2:])) for o in t[5].split(",")]
    return body, n, block, script, ops


_apps = {}


def request_input(und, n, block):
    """the reader a handler gets: `Request.input` of an application with cached_size = block (request.py:426-433,
    678-689: the body is not buffered, the reader is built with the declared length, block size and time-out)"""
    import io
    from poorwsgi import Application
    from poorwsgi.request import Request, CachedInput
    if block not in _apps:
        import os
        app = Application("verif_c09_%d_%d" % (os.getpid(), block))
        app.auto_data = app.auto_form = app.auto_json = False
        app.cached_size = block
        app.read_timeout = 0.02
        _apps[block] = app
    env = {"REQUEST_METHOD": "POST", "PATH_INFO": "/", "QUERY_STRING": "", "SERVER_NAME": "s", "SERVER_PORT": "80",
           "SERVER_PROTOCOL": "HTTP/1.1", "wsgi.url_scheme": "http", "wsgi.input": und, "wsgi.errors": io.StringIO(),
           "CONTENT_LENGTH": str(n), "CONTENT_TYPE": "application/octet-stream", "REQUEST_STARTTIME": 0.0}
    ci = Request(env, _apps[block]).input
    if not isinstance(ci, CachedInput):
        raise AssertionError("Request.input is %r, not the caching reader" % type(ci).__name__)
    return ci


def execute(case, via_request=False):
    from poorwsgi.request import CachedInput
    body, n, block, script, ops = parse(case)
    und = Under(body, script)
    ci = request_input(und, n, block) if via_request else CachedInput(und, n, block, 0.02)
    results = []
    for kind, size in ops:
        before = len(und.requests)
        delivered_before = und.pos
        r = ci.read(size) if kind == "r" else ci.readline(size)
        results.append((kind, size, r, len(und.requests) - before, delivered_before))
    return results, und


def observe(case):
    try:
        results, und = execute(case)
    except BaseException as err:
        return excname(err)
    a = "/".join("%s:%d" % (hx(r), c) for _, _, r, c, _ in results) or "-"
    b = ",".join(map(str, und.requests)) or "-"
    return a + " " + b


def oracle(case, via_request=False):
    body, n, block, script, ops = parse(case)
    avail = body[:n]
    try:
        results, und = execute(case, via_request)
    except BaseException as err:
        return [Violation("c09-raises", case, "reader raised %r (spinning until time-out or crash)" % (err,))]
    bad = None
    got = b""
    delivered = 0
    for kind, size, r, nreads, _ in results:
        rs = block if size < 0 else size
        got += r
        if not avail.startswith(got):
            bad = "returned chunks are not a prefix of the first n bytes (lost/duplicated/reordered)"
            break
        if rs > 0 and r == b"" and got != avail:
            bad = "reported end of input (b'') after %d of %d available bytes" % (len(got), len(avail))
            break
        if len(r) > rs:
            bad = "returned %d bytes for size %d" % (len(r), rs)
            break
        if kind == "l":
            i = r.find(b"\r\n")
            if i >= 0 and i + 2 != len(r):
                bad = "readline result contains a CRLF before its end"
                break
            # cut by the size limit: `rs` bytes, or one less when the byte at the limit is a CR that is left
            # for the next line (a CRLF is never cut in two)
            held_cr = len(r) == rs - 1 and len(r) >= 1 and avail[len(got):len(got) + 1] == b"\r"
            if not r.endswith(b"\r\n") and len(r) != rs and got != avail and not held_cr:
                bad = "line without CRLF was cut neither by the size limit nor by the end of input"
                break
        if nreads > rs + 1:
            bad = "%d underlying reads in one call of size %d" % (nreads, rs)
            break
    if not bad:
        # never asks the underlying stream for bytes beyond the declared length
        pos = 0
        und2 = Under(body, script)
        for k in und.requests:
            if k < 0 or k > n - pos:
                bad = "requested %d bytes from the stream with only %d left of the declared %d" % (k, n - pos, n)
                break
            pos += len(und2.read(k))
    if bad:
        return [Violation("c09:" + bad.split()[0], case, bad)]
    return []


def extra_oracles(rng, tier):
    """declared length < 0 (no Content-Length): nothing may be read at all."""
    from poorwsgi.request import CachedInput
    out = []
    n = 0
    for size in (-1, 0, 1, 5):
        for kind in "rl":
            und = Under(b"next request bytes", [])
            ci = CachedInput(und, -1, 4, 0.02)
            n += 1
            try:
                r = ci.read(size) if kind == "r" else ci.readline(size)
            except BaseException as err:
                out.append(Violation("c09-negative-raises", {"declared": -1, "op": kind, "size": size}, repr(err)))
                continue
            if r or und.pos:
                out.append(Violation("c09-negative-length", {"declared": -1, "op": kind, "size": size},
                                     "read %r from a stream without declared length" % (r,)))
    # the same histories through the reader a handler is given (Request.input), for a sample of the cases
    for case in generate(random.Random(rng.random()), "quick")[::(7 if tier == "quick" else 2)]:
        n += 1
        res = oracle(case, via_request=True)
        if not res:
            # identical behaviour to the directly constructed reader
            a, _ = execute(case)
            b, _ = execute(case, via_request=True)
            if [x[2] for x in a] != [x[2] for x in b]:
                res = [Violation("c09-request-input", case, "Request.input returned %r, CachedInput(stream, n, block) %r"
                                 % ([x[2] for x in b], [x[2] for x in a]))]
        for v in res:
            v.key = "request-input/" + v.key
        out.extend(res)
    return out, {"evaluations": n, "distinct_nontrivial": n}


def classify(case, obs):
    body, n, block, script, ops = parse(case)
    if b"\r" not in body and b"\n" not in body and not script:
        return "trivial-plain"
    tag = "crlf" if b"\r\n" in body else "cr-or-lf"
    if script:
        tag += "+short"
    if n != len(body):
        tag += "+n!=len"
    return tag
