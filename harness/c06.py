"""C06 - Content-Length always equals the bytes actually sent."""
import io
import os

from harness.core import hx, unhx, Violation, excname
from harness import c07

LEAN_TARGETS = ["PoorProofs.Props.C06"]
AUDIT_IMPORTS = ["PoorProofs.Props.C06"]
LEAN_FILES = ["PoorModel/Range.lean", "PoorProofs/Lemmas/Range.lean",
              "PoorProofs/Props/C06.lean", "PoorProofs/Props/C07.lean"]
THEOREMS = ["Poor.Props.C06.C06_write_history", "Poor.Props.C06.C06_emitted",
            "Poor.Props.C06.window_part_bounds", "Poor.Props.C06.C06"]
TRUSTED_BASE = ["model Poor.Range (response.py:251-310, 341-373, 458-522, 557-601)"]
ASSUMPTIONS = ["non-seekable streams have unknown size: no Content-Length is emitted for them",
               "204/304/declined emission is covered by the C05 emission model; here by the oracle on the real app"]
RULE = ("write histories (str/bytes, multi-byte) x representation kinds x any range list incl. invalid ones; "
        "real application answers for built-in pages and no-body statuses; non-trivial = at least one write or range")
EXHAUSTIVE = {"quick": False, "thorough": False}

TEXTS = ["", "a", "žluťoučký", "\U0001F600x", "ab\r\n", "€" * 3]


class Stream(io.RawIOBase):
    """non-seekable, no fileno"""

    def __init__(self, data):
        super().__init__()
        self._b = io.BytesIO(data)

    def readable(self):
        return True

    def seekable(self):
        return False

    def readinto(self, b):
        d = self._b.read(len(b))
        b[:len(d)] = d
        return len(d)


def wtok(rng):
    if rng.random() < 0.5:
        return "s:" + hx(rng.choice(TEXTS) + rng.choice(TEXTS))
    return "b:" + hx(bytes(rng.getrandbits(8) for _ in range(rng.randrange(0, 6))))


def rand_ranges(rng, L):
    n = rng.choice([0, 1, 1, 1, 2, 3])
    out = []
    for _ in range(n):
        a = rng.choice([None, 0, 1, L - 1, L, L + 1, rng.randrange(0, L + 3)])
        b = rng.choice([None, 0, 1, L - 1, L, L + 1, rng.randrange(0, L + 3)])
        if a is not None and a < 0:
            a = 0
        if b is not None and b < 0:
            b = 0
        if a is None and b is None:
            continue
        out.append((a, b))
    return out


def generate(rng, tier):
    n = 4000 if tier == "thorough" else 600
    cases = []
    # all short write histories over a small alphabet, then random ones
    alpha = ["s:" + hx("é"), "b:" + hx(b"\x00\xff"), "s:.", "b:" + hx(b"x")]
    for init in ["s:.", "b:" + hx(b"abc"), "s:" + hx("žš")]:
        cases.append("C06 writes " + init)
        for a in alpha:
            cases.append("C06 writes %s %s" % (init, a))
            for b in alpha:
                cases.append("C06 writes %s %s %s" % (init, a, b))
    for _ in range(n // 3):
        cases.append("C06 writes " + " ".join(wtok(rng) for _ in range(rng.randrange(1, 8))))
    for _ in range(n):
        L = rng.choice([0, 1, 2, 5, 10, rng.randrange(0, 40)])
        body = c07.body_of(L, rng.randrange(0, 50))
        rt = c07.rtok(rand_ranges(rng, L))
        kind = rng.choice(["buf", "fileb", "filer", "filep", "gen", "stream", "pipe"])
        # 'k': the body is looked at (res.data) between construction and sending
        peek = "k" if kind in ("buf", "fileb", "filer", "filep") and rng.random() < 0.35 else ""
        if kind == "buf":
            cases.append("C06 buf%s %s %s" % (peek, hx(body), rt))
        elif kind in ("fileb", "filer"):
            off = rng.randrange(0, 4)
            cases.append("C06 %s%s %s %d %s" % (kind, peek, hx(c07.body_of(off, 1) + body), off, rt))
        elif kind == "filep":
            cases.append("C06 filep%s %s 0 %s" % (peek, hx(body), rt))
        elif kind in ("stream", "pipe"):
            cases.append("C06 %s %s %s" % (kind, hx(body), rt))
        if kind in ("buf", "fileb", "filer", "gen") and rng.random() < 0.15:
            # the status is switched to 204/304 after the response was built (e.g. by an after hook)
            code = rng.choice([204, 304])
            if kind == "buf":
                cases.append("C06 status %d buf %s none" % (code, hx(body)))
            elif kind in ("fileb", "filer"):
                cases.append("C06 status %d %s %s 0 none" % (code, kind, hx(body)))
            else:
                cases.append("C06 status %d gen %d %s none" % (code, L, c07.chunk_tok(body, [L])))
        if kind in ("buf", "fileb", "filer", "filep", "stream", "pipe"):
            pass
        else:
            cuts = sorted(rng.randrange(0, L + 1) for _ in range(rng.randrange(0, 4)))
            parts, prev = [], 0
            for c in cuts + [L]:
                parts.append(c - prev)
                prev = c
            cases.append("C06 gen %d %s %s" % (L, c07.chunk_tok(body, parts), rt))
    return cases


def unpeek(case):
    t = case.split()
    if t[1] in ("bufk", "filebk", "filerk", "filepk"):
        t[1] = t[1][:-1]
        return " ".join(t), True
    return case, False


def to_model(case):
    if case.split()[1] == "status":
        return []            # oracle only: no body bytes for 204/304 whatever the response was built from
    case = unpeek(case)[0]
    t = case.split()
    if t[1] == "writes":
        return ["C06 writes " + " ".join(x[2:] for x in t[2:])]
    if t[1] in ("stream", "pipe"):
        return ["C06 file %s 0 0 0 %s" % (t[2], t[3])]
    return c07.to_model(case)


def build(case):
    from poorwsgi.response import Response, FileObjResponse
    t0 = case.split()
    if t0[1] == "status":
        res, rep, ranges = build("C06 " + " ".join(t0[3:]))
        res.status_code = int(t0[2])
        return res, b"", []
    case, peek = unpeek(case)
    if peek:
        res, rep, ranges = c07.build(case)
        if res.data != rep:        # looking at the body must not change what is sent
            raise AssertionError("res.data is not the representation")
        return res, rep, ranges
    t = case.split()
    if t[1] == "writes":
        def val(tok):
            d = unhx(tok[2:])
            return d.decode("utf-8") if tok[0] == "s" else d
        res = Response(val(t[2]))
        for w in t[3:]:
            res.write(val(w))
        rep = b"".join(unhx(x[2:]) for x in t[2:])
        return res, rep, []
    if t[1] == "stream":
        data = unhx(t[2])
        return FileObjResponse(Stream(data)), data, c07.parse_rtok(t[3])
    if t[1] == "pipe":
        data = unhx(t[2])
        r, w = os.pipe()
        os.write(w, data)
        os.close(w)
        return FileObjResponse(os.fdopen(r, "rb")), data, c07.parse_rtok(t[3])
    return c07.build(case)


def observe_full(case):
    res, rep, ranges = build(case)
    if case.split()[1] != "writes":
        res.make_partial(ranges)
    calls, out = c07.run_response(res)
    return calls, out, rep, ranges, res


def observe(case):
    if case.split()[1] == "status":
        return "-"
    try:
        calls, out, rep, ranges, res = observe_full(case)
    except Exception as err:
        return excname(err)
    if case.split()[1] == "writes":
        cl = [v for k, v in calls[0][1] if k.lower() == "content-length"]
        if (int(cl[0]) if cl else 0) != res.content_length:
            return "CLMISMATCH"
        return "%d %s" % (res.content_length, hx(out))
    return c07.canon(calls, out)


def check_emission(case, calls, out, known_size):
    if len(calls) != 1:
        return "start_response called %d times" % len(calls)
    status, headers = calls[0]
    cl = [v for k, v in headers if k.lower() == "content-length"]
    if len(cl) > 1:
        return "Content-Length emitted twice"
    if cl:
        if not cl[0].isdigit() or not cl[0].isascii():
            return "Content-Length %r is not a non-negative decimal" % cl[0]
        if int(cl[0]) != len(out):
            return "Content-Length %s but %d body bytes sent" % (cl[0], len(out))
    elif out and known_size:
        return "%d body bytes sent without Content-Length" % len(out)
    code = int(status.split()[0])
    if code in (204, 304) and out:
        return "status %d with %d body bytes" % (code, len(out))
    return None


def oracle(case):
    t = case.split()
    if any(r == "_:_" for r in t[-1].split(";")):
        return []
    try:
        calls, out, rep, ranges, res = observe_full(case)
    except Exception as err:
        return [Violation("c06-exception", case, "emitting the response raised %r" % (err,))]
    bad = check_emission(case, calls, out, t[1] not in ("stream", "pipe"))
    if not bad and t[1].endswith("k") and not ranges and out != rep:
        bad = "body sent differs from the representation after res.data was read"
    if not bad and t[1] == "writes" and out != rep:
        bad = "body sent is not the concatenation of the writes"
    if bad:
        return [Violation("c06:" + t[1], case, bad)]
    return []


# ---- real application: built-in pages for any path length, no-body statuses ---------------

def extra_oracles(rng, tier):
    from poorwsgi import Application
    from poorwsgi.response import Response, NoContentResponse, NotModifiedResponse, abort, \
        TextResponse, JSONResponse, RedirectResponse, HTTPException
    from poorwsgi import state
    app = Application("verif_c06_%d_%d" % (os.getpid(), rng.randrange(10 ** 9)))

    @app.route("/ok")
    def ok(req):
        return req.environ["verif.ret"]()

    @app.route("/only-post", method=state.METHOD_POST)
    def only_post(req):
        return "x"

    @app.route("/ranged")
    def ranged(req):
        # a response whose handler has set Content-Length itself, answered under the request's Range header
        from poorwsgi.response import GeneratorResponse
        from poorwsgi.headers import parse_range
        kind = req.environ["verif.kind"]
        hdrs = {"Content-Length": "10", "ETag": '"r"'}
        if kind == "buf":
            res = Response(b"0123456789", headers=hdrs)
        elif kind == "text":
            res = TextResponse("0123456789", headers=hdrs)
        else:
            res = GeneratorResponse(iter([b"01234", b"", b"56789"]), headers=hdrs, content_length=10)
        if "Range" in req.headers:
            units = parse_range(req.headers["Range"])
            if "bytes" in units:
                res.make_partial(units["bytes"])
        return res

    rets = {
        "str": lambda: "žluť" * 3, "bytes": lambda: b"\x00\x01", "none": lambda: None,
        "none201": lambda: (None, "", None, 201), "dict": lambda: {"a": "é"},
        "204": lambda: NoContentResponse(), "304": lambda: NotModifiedResponse(etag='"x"'),
        "text": lambda: TextResponse("š"), "json": lambda: JSONResponse(x=1),
        "redir": lambda: RedirectResponse("/x", message="moved é"),
        "abort304": lambda: abort(304), "abort404": lambda: abort(404), "abort500": lambda: abort(500),
        "abort418": lambda: abort(418), "abort0": lambda: abort(0), "raise": lambda: 1 / 0,
        "resp299": lambda: Response(b"hello", status_code=203),
        "resp204body": lambda: Response(b"must not be sent", status_code=204),
        "resp304body": lambda: Response("nor this", status_code=304, headers={"ETag": '"x"'}),
        "tuple204": lambda: ("body", "text/plain", None, 204),
        "empty": lambda: "", "tuple": lambda: ("ab", "text/plain", {"X-A": "b"}, 202),
    }
    violations = []
    n = 0
    statuses = {}
    paths = ["/ok", "/only-post", "/missing", "/" + "x" * 300, "/ž" * 40, "/<b>&\"'", "/a?b"]
    for path in paths:
        for method in ("GET", "HEAD", "POST", "DELETE"):
            for debug in (False, True):
                for name, fn in (rets.items() if path == "/ok" else [("-", None)]):
                    app.debug = debug
                    env = {"REQUEST_METHOD": method, "PATH_INFO": path.encode("utf-8").decode("latin-1"),
                           "SERVER_NAME": "t", "SERVER_PORT": "80", "SERVER_PROTOCOL": "HTTP/1.1",
                           "wsgi.url_scheme": "http", "wsgi.input": io.BytesIO(b""),
                           "wsgi.errors": io.StringIO(), "verif.ret": fn}
                    calls = []
                    case = {"path": path, "method": method, "debug": debug, "ret": name}
                    n += 1
                    try:
                        out = b"".join(app(env, lambda s, h: calls.append((s, h))))
                    except Exception as err:   # escapes belong to C01; not judged here
                        statuses["escaped:" + type(err).__name__] = statuses.get("escaped:" + type(err).__name__, 0) + 1
                        continue
                    if not calls:
                        if out:
                            violations.append(Violation("c06-declined-body", case, "declined request yielded body bytes"))
                        statuses["declined"] = statuses.get("declined", 0) + 1
                        continue
                    statuses[calls[0][0][:3]] = statuses.get(calls[0][0][:3], 0) + 1
                    bad = check_emission(case, calls, out, True)
                    if bad:
                        violations.append(Violation("c06-app:%s" % name, case, bad))
    for kind in ("buf", "text", "gen"):
        for rng_hdr in (None, "bytes=2-5", "bytes=0-0", "bytes=9-9", "bytes=-3", "bytes=4-", "bytes=0-99", "bytes=10-", "bytes=10-19",
                        "bytes=500-", "bytes=-0", "bytes=7-3"):
            for method in ("GET", "HEAD"):
                env = {"REQUEST_METHOD": method, "PATH_INFO": "/ranged", "SERVER_NAME": "t", "SERVER_PORT": "80",
                       "SERVER_PROTOCOL": "HTTP/1.1", "wsgi.url_scheme": "http", "wsgi.input": io.BytesIO(b""),
                       "wsgi.errors": io.StringIO(), "verif.kind": kind}
                if rng_hdr:
                    env["HTTP_RANGE"] = rng_hdr
                calls = []
                case = {"path": "/ranged", "kind": kind, "Range": rng_hdr, "method": method,
                        "handler": "sets Content-Length: 10 itself"}
                n += 1
                app.debug = False
                try:
                    out = b"".join(app(env, lambda s, h: calls.append((s, h))))
                except Exception as err:
                    statuses["escaped:" + type(err).__name__] = statuses.get("escaped:" + type(err).__name__, 0) + 1
                    continue
                if not calls:
                    continue
                statuses[calls[0][0][:3]] = statuses.get(calls[0][0][:3], 0) + 1
                bad = check_emission(case, calls, out, True)
                if bad:
                    violations.append(Violation("c06-app:preset-length", case, bad))
    return violations, {"evaluations": n, "distinct_nontrivial": n, "app_statuses": statuses}


def classify(case, obs):
    t = case.split()
    if t[1] == "writes":
        return "writes-%d" % (len(t) - 3) if len(t) > 3 else "trivial-writes-0"
    if t[-1] == "none":
        return "trivial-norange-" + t[1]
    return "%s-%s" % (t[1], obs.split()[0])
