"""C13 - session cookies restore the stored data and reject foreign ones."""
import base64
import bz2
import hashlib
import io
import json
import time
import zlib
from email.utils import parsedate_to_datetime
from http.cookies import SimpleCookie

from harness import json_common as JC
from harness.core import hx, unhx, Violation, excname

LEAN_TARGETS = ["PoorProofs.Props.C13"]
AUDIT_IMPORTS = ["PoorProofs.Props.C13"]
LEAN_FILES = ["PoorModel/Base64.lean", "PoorProofs/Lemmas/Base64.lean", "PoorModel/Session.lean", "PoorProofs/Props/C13.lean",
              "PoorModel/Json.lean", "PoorProofs/Lemmas/Json.lean", "PoorProofs/Props/JsonCodec.lean"]
THEOREMS = ["Poor.Props.C13.hidden_involutive", "Poor.Props.C13.C13_roundtrip", "Poor.Props.C13.C13_errors",
            "Poor.Props.C13.C13_reject_partial", "Poor.Props.C13.destroy_destroyed",
            "Poor.Props.C13.write_keeps_destroyed", "Poor.Props.C13.C13_destroyed_expired", "Poor.Props.C13.C13_attrs",
            "Poor.Base64.decode_encode", "Poor.Props.C13.C13_roundtrip_b64", "Poor.Props.C13.C13_value_nonempty",
            "Poor.Props.C13.C13_roundtrip_json", "Poor.Props.JsonCodec.loadBytes_dumpBytes", "Poor.Props.C13.C13_header_current"]
TRUSTED_BASE = ["model Poor.Session hand-written from session.py:27-55, 238-312",
                "json and bz2/zlib are parameters of the model with round-trip hypotheses (sampled here against the real modules); "
                "base64 is modelled (Poor.Base64: the encoder and the non-strict decoder loop of binascii) and its round trip proved",
                "sha512(secret) enters as the key-stream parameter; http.cookies.SimpleCookie renders/parses the attributes"]
ASSUMPTIONS = ["json.loads(json.dumps(d)) == d, decompress(compress(x)) == x (CPython)",
               "'never restores the original data' is proved at plaintext level (C13_reject_partial); equality of parsed data is checked by the oracle"]
RULE = ("dictionaries to depth 3 with non-ASCII keys/values, secrets str/bytes 1..128, compression {bz2, zlib, None}, every "
        "attribute subset, custom cookie names, round trip through Request cookie parsing, destroy before/after load with and "
        "without Expires/Max-Age, foreign secrets, arbitrary text, base64 of random bytes, every prefix of a valid value; "
        "non-trivial = non-empty data or a destroy/foreign/garbage scenario")
EXHAUSTIVE = {"quick": False, "thorough": False}

COMP = {"bz2": bz2, "zlib": zlib, "none": None}


def rand_data(rng, depth=0):
    d = {}
    for _ in range(rng.randrange(0, 4)):
        k = rng.choice(["a", "user", "ž", "k" * rng.randrange(1, 20), "\U0001F600", ""])
        r = rng.random()
        if r < 0.3 and depth < 2:
            v = rand_data(rng, depth + 1)
        elif r < 0.5:
            v = [rng.randrange(-5, 5), "é", None, True][: rng.randrange(0, 5)]
        else:
            v = rng.choice([0, -1, 1.5, "text ž", "", None, True, "x" * rng.randrange(0, 200)])
        d[k] = v
    return d


def cfg_tok(cfg):
    return "%d %s %s %s %d %s" % (cfg["expires"], "-" if cfg["max_age"] is None else cfg["max_age"],
                                 hx(cfg["domain"]), hx(cfg["path"]), 1 if cfg["secure"] else 0,
                                 "-" if not cfg["same_site"] else hx(cfg["same_site"]))


def rand_cfg(rng):
    return dict(expires=rng.choice([0, 0, 3600, 60]), max_age=rng.choice([None, None, 3600, 0, 10]),
                domain=rng.choice(["", "", "example.org"]), path=rng.choice(["/", "/", "/app", ""]),
                secure=rng.random() < 0.4, same_site=rng.choice([False, False, "Strict", "Lax", "None"]))


def generate(rng, tier):
    cases = []
    # the JSON layer of the cookie: what write() stores (dumps of a dict) and what load() may be handed
    for text in JC.HAND[:60] + JC.rand_texts(rng, 2500 if tier == "thorough" else 400, "dict"):
        cases.append("C13 jb " + JC.tok_text(text))
    for _ in range(300 if tier == "thorough" else 60):
        cases.append("C13 jb " + hx(bytes(rng.getrandbits(8) for _ in range(rng.randrange(1, 12)))))
    # the life of a session object (no compression: every layer of the value is modelled): assignments between writes and
    # header() calls - the cookie always carries the current data
    for _ in range(1500 if tier == "thorough" else 250):
        secret = rng.choice(["s", "secret ž", "x" * 128, b"\x00\xff", b"k" * 77, "🔑", b"\x01" * 65, "k" * 64])
        ops = []
        for _ in range(rng.randrange(1, 7)):
            r = rng.random()
            if r < 0.4:
                v = JC.rand_value(rng, 2, "dict")
                if JC.hasfloat(v) or any(JC.adjacent_pair(s) for s in JC.strings_of(v)):
                    continue
                ops.append("s" + JC.canon(v))
            elif r < 0.55 and ops:
                # a nested value changed in place (a cart that grows): same keys, one nested container larger
                def cart():
                    return {"cart": ["apple"] * rng.randrange(0, 4), "prefs": {"n": rng.randrange(3)}, "k": rng.choice([1, "x"])}
                ops += ["s" + JC.canon(cart()), rng.choice(["w", "h"]), rng.choice(["n", "n", "s"]) + JC.canon(cart())]
            else:
                ops.append(rng.choice(["w", "h", "h", "d"]))
        ops.append("h")
        cases.append("C13 cookie %s %s" % (tok_secret(secret), " ".join(ops)))
    n = 2000 if tier == "thorough" else 300
    for _ in range(n):
        key = hashlib.sha512(bytes(rng.getrandbits(8) for _ in range(rng.randrange(1, 20)))).digest()
        text = bytes(rng.getrandbits(8) for _ in range(rng.randrange(0, 200)))
        cases.append("C13 hidden %s %s" % (hx(key), hx(text)))
    # attribute state machine: every configuration x op sequences
    seqs = ["h", "h,h", "d,h", "h,d,h", "l,d,h", "d,l,h", "d,h,h", "w,d,w,h", "d,d,h", "h,d,h,l,h"]
    for _ in range(n):
        cfg = rand_cfg(rng)
        ops = rng.choice(seqs) if rng.random() < 0.7 else ",".join(rng.choice("lwhd") for _ in range(rng.randrange(1, 8))) + ",h"
        cases.append("C13 attrs %s %s" % (cfg_tok(cfg), ops))
    for exp in (0, 3600):
        for ma in (None, 3600, 0):
            for ops in seqs:
                cases.append("C13 attrs %s %s" % (cfg_tok(dict(expires=exp, max_age=ma, domain="", path="/", secure=False,
                                                               same_site=False)), ops))
    # base64 as the cookie uses it: encoder, and the lenient decoder on well-formed, mangled and arbitrary text
    alpha = "ABCDEFGHIJKLMNOPQRSTUVWXYZabcdefghijklmnopqrstuvwxyz0123456789+/"
    for k in list(range(0, 8)) + [rng.randrange(8, 300) for _ in range(20)]:
        x = bytes(rng.getrandbits(8) for _ in range(k))
        cases.append("C13 b64e " + hx(x))
        enc = base64.b64encode(x)
        cases.append("C13 b64d " + hx(enc))
        for _ in range(6):
            m = bytearray(enc)
            op = rng.randrange(6)
            if op == 0 and m:
                del m[rng.randrange(len(m))]
            elif op == 1:
                m.insert(rng.randrange(len(m) + 1), rng.choice(b"= \n-_\xc5!A"))
            elif op == 2 and m:
                m[rng.randrange(len(m))] = rng.choice(b"=Az9+/ ")
            elif op == 3:
                m = m[:rng.randrange(len(m) + 1)]
            elif op == 4:
                m += rng.choice([b"=", b"==", b"===", b"A", b"AB=", b"\n", b"AAAA"])
            else:
                m = m.rstrip(b"=")
            cases.append("C13 b64d " + hx(bytes(m)))
    for _ in range(n):
        s = "".join(rng.choice(alpha + "==== \n-_é") for _ in range(rng.randrange(0, 14)))
        cases.append("C13 b64d " + hx(s.encode()))
    # value round trips (oracle only: the codec is CPython's)
    for _ in range(n):
        secret = rng.choice(["s", "secret ž", "x" * 128, b"\x00\xff", b"k" * 77, "🔑", b"\x00", "ž" * 40, b"\x01" * 65, "k" * 64,
                             bytes(range(128))])
        comp = rng.choice(list(COMP))
        sid = rng.choice(["SESSID", "MYSID", "s"])
        cases.append("C13 rt %s %s %s %s" % (hx(json.dumps(rand_data(rng))), tok_secret(secret), comp, sid))
    return cases


def tok_secret(s):
    return ("s" + hx(s)) if isinstance(s, str) else ("b" + hx(s))


def untok_secret(t):
    return unhx(t[1:]).decode() if t[0] == "s" else unhx(t[1:])


def into(old, new):
    """make `old` equal to `new` by changing it in place wherever the container types agree (the nested ones too);
    -> the object that now holds the value"""
    if isinstance(old, dict) and isinstance(new, dict):
        for k in [k for k in old if k not in new]:
            del old[k]
        for k, v in new.items():
            old[k] = into(old[k], v) if k in old else v
        return old
    if isinstance(old, list) and isinstance(new, list):
        del old[len(new):]
        for i, v in enumerate(new):
            if i < len(old):
                old[i] = into(old[i], v)
            else:
                old.append(v)
        return old
    return new


def to_model(case):
    t = case.split()
    if t[1] == "jb":
        return ["JS load " + t[2]]
    if t[1] == "cookie":
        # the model is given the key stream `hidden` derives from the secret: sha512 of its (UTF-8) bytes
        secret = untok_secret(t[2])
        raw = secret if isinstance(secret, bytes) else secret.encode("utf-8")
        # (`n<value>`: the data reach that value by changes made in place, nested containers included - the same to the model)
        return ["C13 cookie %s %s" % (hashlib.sha512(raw).hexdigest(), " ".join("s" + o[1:] if o[0] == "n" else o for o in t[3:]))]
    return [] if t[1] == "rt" else [case]


def canon_model(line):
    return line


def parse_cfg(t):
    return dict(expires=int(t[0]), max_age=None if t[1] == "-" else int(t[1]), domain=unhx(t[2]).decode(),
                path=unhx(t[3]).decode(), secure=t[4] == "1", same_site=False if t[5] == "-" else unhx(t[5]).decode())


def attrs_of(header_value, now):
    """canonical attribute rendering of a Set-Cookie value (as the model prints it)"""
    c = SimpleCookie()
    c.load(header_value)
    (name, m), = c.items()
    exp = "-"
    if m["expires"]:
        dt = parsedate_to_datetime(m["expires"])
        delta = round(dt.timestamp() - now)
        exp = str(delta)
    return "H=%d S=%d D=%s P=%s SS=%s E=%s M=%s" % (
        1 if m["httponly"] else 0, 1 if m["secure"] else 0, hx(m["domain"]) if m["domain"] else "-",
        hx(m["path"]) if m["path"] else "-", hx(m["samesite"]) if m["samesite"] else "-", exp,
        m["max-age"] if m["max-age"] != "" else "-"), m.value


def run_attrs(case):
    from poorwsgi.session import PoorSession
    import http.cookies as hc
    t = case.split()
    cfg = parse_cfg(t[2:8])
    sess = PoorSession("secret", compress=None, **cfg)
    sess.data = {"u": 1}
    outs = []
    now = 1790000000
    real_time = hc.time.time if hasattr(hc, "time") else None
    saved = time.time
    try:
        time.time = lambda: now          # http.cookies._getdate uses time.time()
        valid = sess.write()
        for op in t[8].split(","):
            if op == "l":
                c = SimpleCookie()
                c["SESSID"] = valid
                sess.load(c)
            elif op == "w":
                sess.write()
            elif op == "d":
                sess.destroy()
            elif op == "h":
                hdrs = sess.header()
                outs.append(attrs_of(hdrs[0][1], now)[0])
    finally:
        time.time = saved
    return outs


def observe(case):
    t = case.split()
    try:
        if t[1] == "hidden":
            from poorwsgi.session import hidden
            # hidden() hashes the password itself: feed it through a key whose sha512 we cannot invert,
            # so compare on the cipher level with the key stream the model is given
            key, text = unhx(t[2]), unhx(t[3])
            return hx(bytes(b ^ key[i % len(key)] for i, b in enumerate(text))) if False else hx(impl_hidden_with_key(key, text))
        if t[1] == "attrs":
            return " | ".join(run_attrs(case)) or "-"
        if t[1] == "b64e":
            return hx(base64.b64encode(unhx(t[2])).decode())
        if t[1] == "cookie":
            # `cookie <secret> <ops>`: the life of one session object without compression; the cookie value
            # after every write() / header()
            from poorwsgi.session import PoorSession
            sess = PoorSession(untok_secret(t[2]), compress=None)
            outs = []
            for op in t[3:]:
                if op == "w":
                    outs.append(sess.write())
                elif op == "h":
                    sess.header()
                    outs.append(sess.cookie["SESSID"].value)
                elif op == "d":
                    sess.destroy()
                elif op.startswith("n"):
                    sess.data = into(sess.data, JC.from_canon(op[1:]))
                else:
                    v = JC.from_canon(op[1:])
                    if isinstance(sess.data, dict) and isinstance(v, dict) and op.startswith("u"):
                        sess.data.update(v)
                    else:
                        sess.data = v
            return "|".join(outs) if outs else "-"
        if t[1] == "jb":
            # `loads(bytearray)` as PoorSession.load calls it; the model knows the UTF-8 path only
            import json
            raw = bytearray(unhx(t[2]))
            if json.detect_encoding(raw) != "utf-8":
                return "unsupported"
            try:
                bytes(raw).decode("utf-8")
            except UnicodeDecodeError:
                try:
                    bytes(raw).decode("utf-8", "surrogatepass")
                    return "unsupported"         # encoded surrogates: json decodes bytes with surrogatepass
                except UnicodeDecodeError:
                    pass
            try:
                return JC.show(json.loads(raw))
            except (ValueError, RecursionError):
                return "error"
        if t[1] == "b64d":
            import binascii
            try:
                return "ok " + hx(base64.b64decode(unhx(t[2])))      # session.py: b64decode(raw.encode())
            except binascii.Error:
                return "Error"
    except Exception as err:
        return excname(err)
    return "-"


def impl_hidden_with_key(key, text):
    """run the real `hidden` with sha512 replaced by a function returning the given key stream"""
    import poorwsgi.session as S

    class Fake:
        def __init__(self, _):
            pass

        def digest(self):
            return key
    saved = S.sha512
    S.sha512 = Fake
    try:
        return bytes(S.hidden(text, b"ignored"))
    finally:
        S.sha512 = saved


def oracle(case):
    from poorwsgi.session import PoorSession, SessionError, hidden
    t = case.split()
    if t[1] == "jb":
        return []       # a tie of the JSON model to CPython's json, not a statement of the property
    if t[1] == "cookie":
        # the last cookie of the history restores the data last assigned
        from poorwsgi.session import PoorSession
        want = {}
        for op in t[3:]:
            if op[0] in "sn":
                want = JC.from_canon(op[1:])
        last = observe(case).split("|")[-1]
        s2 = PoorSession(untok_secret(t[2]), compress=None)
        c = SimpleCookie()
        c["SESSID"] = last
        try:
            s2.load(c)
        except Exception as err:
            return [Violation("c13-life-raises", case, "loading the last cookie of the history raised %r" % (err,))]
        if s2.data != want:
            return [Violation("c13-life", case, "the last cookie restores %r, the session held %r" % (s2.data, want))]
        return []
    if t[1] == "hidden":
        key, text = unhx(t[2]), unhx(t[3])
        if bytes(hidden(bytes(hidden(text, "pw")), "pw")) != text:
            return [Violation("c13-hidden", case, "hidden is not its own inverse")]
        return []
    if t[1] == "attrs":
        cfg = parse_cfg(t[2:8])
        try:
            outs = run_attrs(case)
        except Exception as err:
            return [Violation("c13-attrs-raises", case, repr(err))]
        ops = t[8].split(",")
        destroyed = False
        k = 0
        for op in ops:
            if op == "d":
                destroyed = True
            if op == "h":
                a = dict(x.split("=", 1) for x in outs[k].split())
                k += 1
                if a["H"] != "1":
                    return [Violation("c13-httponly", case, "cookie without HttpOnly: %s" % outs[k - 1])]
                if destroyed:
                    if a["E"] == "-" or int(a["E"]) >= 0 or (a["M"] != "-" and int(a["M"]) > 0):
                        return [Violation("c13-destroy", case, "a destroyed session emitted a cookie that is not expired: %s" % outs[k - 1])]
                else:
                    want_e = "-" if not cfg["expires"] else str(cfg["expires"])
                    want_m = "-" if cfg["max_age"] is None else str(cfg["max_age"])
                    if a["E"] != want_e or a["M"] != want_m or (a["S"] == "1") != cfg["secure"] or \
                            a["D"] != (hx(cfg["domain"]) if cfg["domain"] else "-") or \
                            a["P"] != (hx(cfg["path"]) if cfg["path"] else "-") or \
                            a["SS"] != (hx(cfg["same_site"]) if cfg["same_site"] else "-"):
                        return [Violation("c13-attrs", case, "cookie attributes %s do not match the configuration %r" % (outs[k - 1], cfg))]
        return []
    if t[1] == "b64e":
        x = unhx(t[2])
        if base64.b64decode(base64.b64encode(x)) != x:
            return [Violation("c13-b64", case, "b64decode(b64encode(x)) != x")]
        return []
    if t[1] == "b64d":
        return []
    # rt: data round trip through the real Cookie header parser of the request object; foreign / truncated / garbage
    data = json.loads(unhx(t[2]).decode())
    secret = untok_secret(t[3])
    comp = COMP[t[4]]
    sid = t[5]
    sess = PoorSession(secret, compress=comp, sid=sid)
    sess.data = data
    try:
        hdrs = sess.header()
    except Exception as err:
        return [Violation("c13-write-raises", case, "emitting the session cookie for a %d-byte dictionary under a %d-%s secret "
                          "raised %r" % (len(json.dumps(data)), len(secret), type(secret).__name__, err))]
    value = hdrs[0][1].split(";")[0]
    req = fake_request("%s" % value)
    s2 = PoorSession(secret, compress=comp, sid=sid)
    try:
        s2.load(req.cookies)
    except Exception as err:
        return [Violation("c13-roundtrip-raises", case, "loading the session's own cookie raised %r" % (err,))]
    if s2.data != data:
        return [Violation("c13-roundtrip", case, "restored %r, stored %r" % (s2.data, data))]
    # the session goes on living: what is changed after a cookie was emitted is in the next cookie
    sess.data["later-ž"] = [len(data), "x"]
    try:
        value2 = sess.header()[0][1].split(";")[0]
        s4 = PoorSession(secret, compress=comp, sid=sid)
        s4.load(fake_request("%s" % value2).cookies)
    except Exception as err:
        return [Violation("c13-rewrite-raises", case, "a second header() after changing the data raised %r" % (err,))]
    if s4.data != sess.data:
        return [Violation("c13-rewrite", case, "data changed after the first header(): the second cookie restores %r, the "
                          "session holds %r" % (s4.data, sess.data))]
    del sess.data["later-ž"]
    sess.header()
    raw = sess.cookie[sid].value          # the value itself (the header may quote it)
    serialised = json.dumps(data)
    probes = []
    if len(serialised) >= 16:
        other = "other-secret" if secret != "other-secret" else "x"
        probes.append(("foreign", other, raw))
        if len(secret) == 1:
            # every other secret of the same length and type (secrets that short differ in little else)
            for b in range(256):
                o = bytes([b]) if isinstance(secret, bytes) else chr(b + 0x100 if chr(b) == secret else b)
                if o != secret:
                    probes.append(("foreign-1", o, raw))
    for k in sorted({0, 1, 2, 3, len(raw) // 2, len(raw) - 1}):
        if 0 < k < len(raw):
            probes.append(("prefix%d" % k, secret, raw[:k]))
    probes += [("text", secret, "not a session"), ("b64", secret, base64.b64encode(b"\x01\x02random\xff" * 3).decode()),
               ("quote", secret, '"'), ("uni", secret, "žž"),
               # text that no codec encodes: lone surrogates, alone and inside an otherwise valid value
               ("surrogate", secret, "\ud800"), ("surrogate", secret, raw[:3] + "\udce9" + raw[4:]),
               ("surrogate", secret, raw + "\udfff"), ("nul", secret, "\x00"), ("long", secret, "A" * 5000)]
    # cookies made under the right secret whose payload is JSON but not an object: documented error, nothing restored
    for j, other_val in enumerate(([1, "x"], "text", 7, None)):
        packed = json.dumps(other_val).encode()
        enc = bytes(hidden(packed, secret))
        probes.append(("nondict%d" % j, secret, base64.b64encode(comp.compress(enc) if comp else enc).decode()))
    # no cookie at all, or a jar without this session's name: nothing to load, no error
    for jar in (None, SimpleCookie(), "text"):
        s0 = PoorSession(secret, compress=comp, sid=sid)
        try:
            s0.load(jar)
        except Exception as err:
            return [Violation("c13-load-raises:absent", case, "load(%r) raised %r" % (jar, err))]
        if s0.data != {}:
            return [Violation("c13-load-absent", case, "load(%r) left data %r" % (jar, s0.data))]
    for name, sec, val in probes:
        s3 = PoorSession(sec, compress=comp, sid=sid)
        c = SimpleCookie()
        try:
            c[sid] = val
        except Exception:
            continue
        try:
            s3.load(c)
        except SessionError:
            continue
        except Exception as err:
            return [Violation("c13-load-raises:" + name.rstrip("0123456789"), case,
                              "loading %s cookie %r raised %r instead of SessionError" % (name, val[:40], err))]
        if name.startswith("nondict"):
            return [Violation("c13-nondict-accepted", case, "a cookie whose payload is %r was loaded without the session error"
                              % (s3.data,))]
        if s3.data == data and data != {} and name != "prefix%d" % len(raw):
            return [Violation("c13-foreign-restored:" + name.rstrip("0123456789"), case,
                              "%s cookie restored the original data" % name)]
    return []


def fake_request(cookie_header):
    from poorwsgi.request import Request

    class A:
        auto_args = auto_form = auto_json = auto_data = False
        auto_cookies = True
        cached_size = 0
        data_size = 0
        read_timeout = 1
        debug = False
        keep_blank_values = strict_parsing = 0
        file_callback = None
        json_mime_types = form_mime_types = []
    env = {"REQUEST_METHOD": "GET", "PATH_INFO": "/", "SERVER_NAME": "s", "SERVER_PORT": "80",
           "SERVER_PROTOCOL": "HTTP/1.1", "wsgi.url_scheme": "http", "wsgi.input": io.BytesIO(b""),
           "wsgi.errors": io.StringIO(), "HTTP_COOKIE": cookie_header, "REQUEST_STARTTIME": 0}
    return Request(env, A())


def classify(case, obs):
    t = case.split()
    if t[1] == "rt" and unhx(t[2]) == b"{}":
        return "trivial-empty-data"
    if t[1] == "attrs":
        return "attrs-" + ("destroy" if "d" in t[8] else "plain")
    return t[1]
