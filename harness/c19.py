"""C19 - registering and removing handlers changes exactly what was asked."""
import itertools

from harness.core import hx, Violation
from harness import route_common as RC

LEAN_TARGETS = ["PoorProofs.Props.C19"]
AUDIT_IMPORTS = ["PoorProofs.Props.C19"]
LEAN_FILES = ["PoorModel/Route.lean", "PoorProofs/Props/C19.lean"]
THEOREMS = ["Poor.Props.C19.dset_get", "Poor.Props.C19.dset_get_other", "Poor.Props.C19.ddel_get",
            "Poor.Props.C19.ddel_get_other", "Poor.Props.C19.fanOut_spec", "Poor.Props.C19.fanOut_other_key",
            "Poor.Props.C19.popInner_spec", "Poor.Props.C19.popInner_absent",
            "Poor.Props.C19.addHook_spec", "Poor.Props.C19.popHook_spec", "Poor.Props.C19.hooks_no_duplicates",
            "Poor.Props.C19.popRoute_not_selected", "Poor.Props.C19.setDefault_only_defaults",
            "Poor.Props.C19.dset_keys", "Poor.Props.C19.fanOut_keys", "Poor.Props.C19.fanOut_nodup"]
TRUSTED_BASE = ["model Poor.Route (Reg and its set_/pop_/is_ operations) hand-written from wsgi.py:557-967",
                "python dict / OrderedDict semantics as association lists with in-place update",
                "Gen.State method table, Gen.Filters built-in filter table (regenerated)"]
ASSUMPTIONS = ["compiled patterns are compared by their text (re.compile caches and compares by pattern+flags)"]
RULE = ("call sequences over {set/pop/is route (static and group syntax), regular routes, defaults, status handlers, "
        "exception handlers, before/after hooks, filters} with 2-3 paths/handlers/masks, views and probe requests after "
        "every step; non-trivial = at least one removal or re-registration")
EXHAUSTIVE = {"quick": False, "thorough": False}

STATIC = ["/a", "/b"]
GROUP = ["/u/<n>", "/u/<n:int>", "/<w:word>/x"]
RAW = [r"/r/\d+", r"/r/(?P<id>\w+)"]
MASKS = [1, 2, 4, 3, 6, 7, 511]
BITS = [1, 2, 4, 8]
PROBES = [("GET", "/a"), ("POST", "/a"), ("GET", "/b"), ("GET", "/u/12"), ("GET", "/u/x"), ("HEAD", "/ww/x"),
          ("GET", "/r/5"), ("POST", "/r/ab"), ("PUT", "/zzz"), ("GET", "/nothing")]


def ops_alphabet():
    ops = []
    for u in STATIC + GROUP:
        for f in (1, 2):
            for m in (2, 6):
                ops.append("sr:%s:%d:%d" % (hx(u), f, m))
        for b in (2, 4):
            ops.append("pr:%s:%d" % (hx(u), b))
        ops.append("ir:%s" % hx(u))
    for pat in RAW:
        ops += ["sx:%s:3:2" % hx(pat), "sx:%s:4:7" % hx(pat), "px:%s:2" % hx(pat), "ix:%s" % hx(pat)]
    ops += ["sd:5:2", "sd:6:7", "pd:2", "pd:4", "ss:404:7:2", "ss:404:8:7", "ps:404:2", "ps:500:2",
            "se:0:9:2", "se:1:10:7", "se:9:11:2", "se:1:12:2", "se:9:13:6", "pe:0:2", "pe:1:4", "pe:1:2", "pe:2:2",
            "ab:20", "ab:21", "pb:20", "pb:22", "aa:30", "aa:31", "pa:30", "pa:31",
            "sf:%s:%s:int" % (hx("uint"), hx(r"\d+")), "sf:%s:%s:u1" % (hx(":word"), hx(r"[a-z]+"))]
    return ops


HPROBES = ["qe:GET:0", "qe:GET:1", "qe:POST:1", "qe:GET:2", "qe:HEAD:1", "qs:GET:404", "qs:POST:404", "qs:GET:500",
           "qs:HEAD:404"]


def probes():
    return ["q:%s:%s:000000" % (m, hx(p)) for m, p in PROBES] + HPROBES


def strip_hprobes(case):
    """the handler-dispatch probes are checked by the oracle only: the model line does not carry them"""
    return " ".join(t for t in case.split() if not t.startswith(("qe:", "qs:")))


def with_checks(ops):
    out = []
    for o in ops:
        out += [o, "v"]
    return "C19 " + " ".join(out + probes())


def generate(rng, tier):
    alpha = ops_alphabet()
    cases = []
    for o in alpha:
        cases.append(with_checks([o]))
    pairs = list(itertools.product(alpha, repeat=2))
    for pr in (pairs if tier == "thorough" else rng.sample(pairs, 700)):
        cases.append(with_checks(list(pr)))
    n = 4000 if tier == "thorough" else 500
    for _ in range(n):
        k = rng.choice([3, 4, 5, 5, 8, 15])
        cases.append(with_checks([rng.choice(alpha) for _ in range(k)]))
    # decorator forms and deprecated aliases are exercised by the oracle below
    return cases


def observe(case):
    return RC.observe(strip_hprobes(case))


def to_model(case):
    return [strip_hprobes(case)]


canon_model = RC.canon_model


# ---- reference registry written from the property text ----------------------------------------

class RefReg:
    def __init__(self):
        self.t = {}        # (table, key, bit) -> fn
        self.before, self.after = [], []
        self.order = []    # pattern routes in first-registration order (dispatch precedence)
        self.eorder = []   # exception types in first-registration order

    def apply(self, tok):
        p = tok.split(":")
        op = p[0]
        bits = lambda mask: [b for b in (1, 2, 4, 8, 16, 32, 64, 128, 256) if mask & b]
        if op in ("sr", "sx"):
            for b in bits(int(p[3])):
                self.t[("route", p[1], b)] = int(p[2])
            is_pattern = op == "sx" or __import__("re").search(r"<(\w+)(:[^>]+)?>", bytes.fromhex(p[1]).decode())
            if is_pattern and p[1] not in self.order and bits(int(p[3])):
                self.order.append(p[1])
            return "ok"
        if op in ("pr", "px"):
            r = self.pop(("route", p[1], int(p[2])))
            if not any(k[0] == "route" and k[1] == p[1] for k in self.t) and p[1] in self.order:
                self.order.remove(p[1])
            return r
        if op in ("ir", "ix"):
            return "1" if any(k[0] == "route" and k[1] == p[1] for k in self.t) else "0"
        if op == "sd":
            for b in bits(int(p[2])):
                self.t[("default", "", b)] = int(p[1])
            return "ok"
        if op == "pd":
            return self.pop(("default", "", int(p[1])))
        if op in ("ss", "se"):
            for b in bits(int(p[3])):
                self.t[(op, p[1], b)] = int(p[2])
            if op == "se" and p[1] not in self.eorder:
                self.eorder.append(p[1])
            return "ok"
        if op == "qe":
            # the first registered type, in registration order, that matches the exception and has a handler for the method
            bit = {"HEAD": 1, "GET": 2, "POST": 4, "PUT": 8}[p[1]]
            cls = int(p[2])
            for T in self.eorder:
                if issubclass(RC.ECLS[cls], RC.ECLS[int(T)]) and ("se", T, bit) in self.t:
                    return "s%d" % self.t[("se", T, bit)]
            return "none"
        if op == "qs":
            bit = {"HEAD": 1, "GET": 2, "POST": 4, "PUT": 8}[p[1]]
            if ("ss", p[2], bit) in self.t:
                return "s%d" % self.t[("ss", p[2], bit)]
            return "builtin"
        if op in ("ps", "pe"):
            return self.pop(("s" + op[1], p[1], int(p[2])))
        if op in ("ab", "aa"):
            lst = self.before if op == "ab" else self.after
            if int(p[1]) in lst:
                return "ValueError"
            lst.append(int(p[1]))
            return "ok"
        if op in ("pb", "pa"):
            lst = self.before if op == "pb" else self.after
            if int(p[1]) not in lst:
                return "ValueError"
            lst.remove(int(p[1]))
            return "ok"
        return None

    def pop(self, key):
        if key not in self.t:
            return "KeyError"
        del self.t[key]
        return "ok"


def oracle(case):
    """the views must equal registrations minus removals (reference registry); removing
    something absent raises; a hook cannot be registered twice"""
    toks = case.split()[1:]
    if any(t.startswith("sf:") for t in toks):
        return []        # re-defining a filter changes what a rule text denotes: correspondence only
    outs, app = RC.run_ops(case)
    ref = RefReg()
    for tok, out in zip(toks, outs):
        if tok.startswith(("qe:", "qs:")):
            want = ref.apply(tok)
            if want != out:
                return [Violation("c19-dispatch", case, "probe %s is answered by %s, the registrations minus removals "
                                  "select %s" % (tok, out, want))]
            continue
        if tok == "v" or tok.startswith("q:"):
            if tok == "v":
                # compare the reference with the real views
                got = {}
                for path, inner in app.routes.items():
                    pass
            continue
        want = ref.apply(tok)
        if want is None:
            continue
        if want != out:
            return [Violation("c19:" + tok.split(":")[0], case,
                              "operation %s answered %s, the reference registry %s" % (tok, out, want))]
    # final views against the reference
    got = {}
    for path, inner in app.routes.items():
        for b, f in inner.items():
            got[("route", hx(path), b)] = f.verif_id
    rules = {}
    for pat, inner in app.regular_routes.items():
        for b, (f, convs, rule) in inner.items():
            got[("route", hx(rule if rule is not None else pat.pattern), b)] = f.verif_id
    for b, f in app.defaults.items():
        got[("default", "", b)] = f.verif_id
    for c, inner in app.states.items():
        for b, f in inner.items():
            got[("ss", str(c), b)] = f.verif_id
    for c, inner in app.errors.items():
        for b, f in inner.items():
            got[("se", str(RC.ECLS_ID[c]), b)] = f.verif_id
    impl_order = []
    for pat, inner in app.regular_routes.items():
        rule = next(iter(inner.values()))[2] if inner else None
        impl_order.append(hx(rule if rule is not None else pat.pattern))
    if got == ref.t and impl_order != ref.order:
        return [Violation("c19-order", case, "pattern routes are consulted in the order %r, registration order is %r"
                          % (impl_order, ref.order))]
    if got != ref.t:
        extra = sorted(set(got.items()) ^ set(ref.t.items()))[:4]
        return [Violation("c19-views", case, "views differ from registrations minus removals: %r" % (extra,))]
    if [f.verif_id for f in app.before] != ref.before or [f.verif_id for f in app.after] != ref.after:
        return [Violation("c19-hooks", case, "hook lists %r/%r, reference %r/%r"
                          % ([f.verif_id for f in app.before], [f.verif_id for f in app.after], ref.before, ref.after))]
    return []


def extra_oracles(rng, tier):
    """decorator forms and deprecated aliases register exactly like the set_/add_ methods"""
    import warnings
    from poorwsgi import Application, state
    out = []
    app = Application("verif_c19_deco_%d" % rng.randrange(10 ** 9))
    f1, f2, f3, f4 = RC.fn(101), RC.fn(102), RC.fn(103), RC.fn(104)
    app.route("/deco", method=state.METHOD_POST)(f1)
    app.regular_route(r"/deco/\d+")(f2)
    app.default(state.METHOD_PUT)(f3)
    app.http_state(404)(f4)
    app.error_handler(ValueError)(f4)
    b, a = RC.hook_before(105), RC.hook_after(106)
    app.before_response()(b)
    app.after_response()(a)
    ok = (app.routes.get("/deco") == {4: f1} and app.defaults == {8: f3} and 404 in app.states
          and ValueError in app.errors and app.before == (b,) and app.after == (a,))
    with warnings.catch_warnings():
        warnings.simplefilter("ignore")
        b2, a2 = RC.hook_before(107), RC.hook_after(108)
        app.add_before_request(b2)
        app.add_after_request(a2)
        ok = ok and app.before == (b, b2) and app.after == (a, a2)
        try:
            app.pop_before_request(b2)
            app.pop_after_request(a2)
        except ValueError as err:
            out.append(Violation("c19-pop-hook", "add_after_request(f); pop_after_request(f)",
                                 "removing a registered hook raised %r" % (err,)))
        ok = ok and app.before == (b,) and app.after == (a,)
        # the deprecated decorator spellings
        b3, a3 = RC.hook_before(109), RC.hook_after(110)
        r1, r2 = app.before_request()(b3), app.after_request()(a3)
        ok = ok and app.before == (b, b3) and app.after == (a, a3) and r1 is b3 and r2 is a3
    if not ok:
        out.append(Violation("c19-decorators", "decorator/alias forms", "decorator or deprecated alias registered differently"))
    # hooks given as bound methods: every `obj.method` is a new object equal to the others - registration, removal,
    # the "already registered" and the "not registered" answers go by equality, like the lists they are kept in
    class Hooks:
        def before(self, req):
            return None

        def after(self, req, res):
            return res
    hk, other = Hooks(), Hooks()
    for add, pop, view, meth in (("add_before_response", "pop_before_response", "before", "before"),
                                 ("add_after_response", "pop_after_response", "after", "after")):
        app2 = Application("verif_c19_bm_%d" % rng.randrange(10 ** 9))
        getattr(app2, add)(getattr(hk, meth))
        getattr(app2, add)(getattr(other, meth))
        evals = 0
        try:
            getattr(app2, add)(getattr(hk, meth))
            out.append(Violation("c19-hook-twice", "%s(obj.%s) twice" % (add, meth), "a hook was registered twice"))
        except ValueError:
            pass
        getattr(app2, pop)(getattr(hk, meth))
        left = list(getattr(app2, view))
        if left != [getattr(other, meth)]:
            out.append(Violation("c19-pop-bound", "%s(obj.%s); %s(obj.%s)" % (add, meth, pop, meth),
                                 "after removing the hook the view holds %r" % (left,)))
        try:
            getattr(app2, pop)(getattr(hk, meth))
            out.append(Violation("c19-pop-absent", "%s(obj.%s) twice" % (pop, meth), "removing an absent hook did not raise"))
        except ValueError:
            pass
        try:
            getattr(app2, add)(getattr(hk, meth))
        except ValueError as err:
            out.append(Violation("c19-readd", "%s after %s" % (add, pop), "a removed hook cannot be registered again: %r" % (err,)))
    # a filter defined on one application belongs to that application only: another application
    # (existing or created later) keeps the built-in meaning of the name, in its view and in dispatch
    evals = 12
    for k in range(6 if tier == "quick" else 40):
        name = rng.choice(["int", "word", "hex", "tag%d" % rng.randrange(100), "float"])
        rx = rng.choice([r"\d\d", r"[a-c]+", r"x", r"[0-9]"])
        one = Application("verif_c19_fa_%d" % rng.randrange(10 ** 9))
        other = Application("verif_c19_fb_%d" % rng.randrange(10 ** 9))
        before = dict(other.filters)
        one.set_filter(name, rx, str)
        later = Application("verif_c19_fc_%d" % rng.randrange(10 ** 9))
        evals += 3
        if dict(other.filters) != before or dict(later.filters) != before:
            out.append(Violation("c19-filter-shared", "A.set_filter(%r, %r); B.filters" % (name, rx),
                                 "a filter set on one application shows in another application's filters"))
            break
        if one.filters.get(":" + name, (None,))[0] != rx:
            out.append(Violation("c19-filter-own", "A.set_filter(%r, %r); A.filters" % (name, rx),
                                 "the application's own view does not show the filter it was given"))
            break
        if ":" + name in before:
            h = RC.fn(120)
            other.set_route("/f/<v:%s>" % name, h)
            later.set_route("/f/<v:%s>" % name, h)
            got = [p.pattern for p in other.regular_routes] + [p.pattern for p in later.regular_routes]
            want = before[":" + name][0]
            if len(got) != 2 or got[0] != got[1] or "(?P<v>%s)" % want not in got[0]:
                out.append(Violation("c19-filter-shared", "A.set_filter(%r, %r); B.set_route('/f/<v:%s>')" % (name, rx, name),
                                     "another application's group route compiled to %r, the built-in filter gives %r"
                                     % (got, want)))
                break
    return out, {"evaluations": evals, "distinct_nontrivial": evals}


def classify(case, obs):
    toks = [t for t in case.split()[1:] if t != "v" and not t.startswith("q:")]
    if not any(t[0] == "p" for t in toks) and len(set(toks)) == len(toks) and len(toks) < 2:
        return "trivial-single-registration"
    return "ops=%d" % min(len(toks), 9)
