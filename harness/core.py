"""Shared machinery of every check: build, audit, correspondence, oracle, verdict, evidence.

Verdict logic (DESIGN.md section 2.4):

* the property oracle finds a failing input not listed in known_findings.txt
    -> VIOLATION property=<id> replay=<path>, exit 1
* only listed findings                      -> KNOWN-FINDING lines, exit 0
* a proof obligation / the correspondence no longer checks and the search
  finds no failing input                    -> VIOLATION ... no-failing-input-found, exit 1
* tool failure / time-out                   -> exit 2
"""
import fcntl
import hashlib
import importlib
import json
import os
import random
import re
import subprocess
import sys
import time
import traceback

ROOT = os.path.dirname(os.path.dirname(os.path.abspath(__file__)))
REPO = os.environ.get("VERIF_REPO", "/repo")
LEAN = os.path.join(ROOT, "lean")
DRIVER = os.path.join(LEAN, ".lake", "build", "bin", "driver")
ALLOWED_AXIOMS = {"propext", "Classical.choice", "Quot.sound"}
FORBIDDEN = re.compile(
    r"sorry|\badmit\b|^axiom |native_decide|bv_decide|implemented_by|unsafe |maxHeartbeats 0",
    re.M)

if REPO not in sys.path:
    sys.path.insert(0, REPO)

import logging  # noqa: E402
import warnings  # noqa: E402
logging.disable(logging.CRITICAL)      # poorwsgi logs every handled error
warnings.simplefilter("ignore")


# --------------------------------------------------------------------------
# helpers used by the per-property modules

def hx(b) -> str:
    """bytes/str -> protocol token (hex; '-' is None, '.' is empty)."""
    if b is None:
        return "-"
    if isinstance(b, str):
        b = b.encode("utf-8", "surrogatepass")
    return b.hex() if b else "."


def unhx(tok: str):
    if tok == "-":
        return None
    if tok == ".":
        return b""
    return bytes.fromhex(tok)


def num(n) -> str:
    return "-" if n is None else str(n)


def excname(err: BaseException) -> str:
    return "EXC:" + type(err).__name__


class Violation:
    """A concrete failing input found by the property oracle on the implementation."""

    def __init__(self, key, case, detail, expected=None, observed=None):
        self.key = key          # finding class key (matched against known_findings.txt)
        self.case = case        # protocol line / json-able description that replays it
        self.detail = detail
        self.expected = expected
        self.observed = observed

    def to_json(self):
        return {"key": self.key, "case": self.case, "detail": self.detail,
                "expected": self.expected, "observed": self.observed}


# --------------------------------------------------------------------------
# build / audit

def _locked(fn):
    def wrapper(*a, **kw):
        os.makedirs(os.path.join(LEAN, ".lake"), exist_ok=True)
        with open(os.path.join(LEAN, ".lake", ".verif.lock"), "w") as lock:
            fcntl.flock(lock, fcntl.LOCK_EX)
            try:
                return fn(*a, **kw)
            finally:
                fcntl.flock(lock, fcntl.LOCK_UN)
    return wrapper


@_locked
def gen_deps(targets):
    """names of the generated modules (PoorModel.Gen.X -> 'X') in the import closure of the Lean modules `targets`"""
    import re as _re
    seen, todo, out = set(), list(targets), set()
    while todo:
        m = todo.pop()
        if m in seen:
            continue
        seen.add(m)
        if m.startswith("PoorModel.Gen."):
            out.add(m.split(".")[-1])
            continue
        path = os.path.join(LEAN, *m.split(".")) + ".lean"
        try:
            src = open(path).read()
        except OSError:
            continue
        for x in _re.findall(r"^import\s+(\S+)", src, _re.M):
            if x.startswith(("PoorModel", "PoorProofs")):
                todo.append(x)
    return out


def regenerate():
    """Run the translator: /repo/poorwsgi/*.py -> lean/PoorModel/Gen/*.lean."""
    from translator import gen
    return gen.regenerate(REPO, os.path.join(LEAN, "PoorModel", "Gen"))


@_locked
def lake_build(targets, timeout=3000):
    """Build targets; return (ok, log)."""
    cmd = ["lake", "build"] + list(targets)
    try:
        p = subprocess.run(cmd, cwd=LEAN, capture_output=True, text=True,
                           timeout=timeout)
    except subprocess.TimeoutExpired:
        return None, "lake build timed out"
    return p.returncode == 0, p.stdout + p.stderr


def failing_items(log):
    """Names of modules / declarations mentioned in lake error output."""
    items = []
    for m in re.finditer(r"^error: (\S+?):(\d+):(\d+): (.*)$", log, re.M):
        items.append("%s:%s %s" % (os.path.basename(m.group(1)), m.group(2),
                                   m.group(4)[:160]))
    for m in re.finditer(r"^✖ \[\d+/\d+\] Building (\S+)", log, re.M):
        items.append("module " + m.group(1))
    return items


@_locked
def axiom_audit(theorems, imports):
    """#print axioms for every property theorem; returns (ok, {thm: [axioms]}, raw)."""
    src = "".join("import %s\n" % i for i in imports)
    src += "".join("#print axioms %s\n" % t for t in theorems)
    path = os.path.join(LEAN, ".lake", "audit_%d.lean" % os.getpid())
    with open(path, "w") as f:
        f.write(src)
    try:
        p = subprocess.run(["lake", "env", "lean", path], cwd=LEAN,
                           capture_output=True, text=True, timeout=900)
    finally:
        os.unlink(path)
    out = p.stdout + p.stderr
    result = {}
    # "'Name' depends on axioms: [a, b]" or "'Name' does not depend on any axioms"
    for m in re.finditer(r"'([^']+)' depends on axioms: \[([^\]]*)\]", out, re.S):
        result[m.group(1)] = [a.strip() for a in m.group(2).split(",") if a.strip()]
    for m in re.finditer(r"'([^']+)' does not depend on any axioms", out):
        result[m.group(1)] = []
    ok = p.returncode == 0
    for t in theorems:
        if t not in result:
            ok = False
        elif not set(result[t]) <= ALLOWED_AXIOMS:
            ok = False
    return ok, result, out


def grep_forbidden(files):
    """sorry/admit/axiom/native_decide ... outside comments."""
    hits = []
    for path in files:
        try:
            text = open(path).read()
        except OSError:
            continue
        text = re.sub(r"/-.*?-/", lambda m: "\n" * m.group(0).count("\n"), text, flags=re.S)
        for i, line in enumerate(text.split("\n"), 1):
            line = line.split("--", 1)[0]
            if FORBIDDEN.search(line):
                hits.append("%s:%d: %s" % (os.path.relpath(path, ROOT), i, line.strip()[:100]))
    return hits


@_locked
def leanchecker(modules, timeout=3000):
    try:
        p = subprocess.run(["lake", "env", "leanchecker"] + list(modules), cwd=LEAN,
                           capture_output=True, text=True, timeout=timeout)
    except subprocess.TimeoutExpired:
        return None, "leanchecker timed out"
    return p.returncode == 0, (p.stdout + p.stderr)[-2000:]


def run_driver(lines, timeout=900):
    """Pipe protocol lines through the compiled Lean driver."""
    data = "".join(l + "\n" for l in lines)
    p = subprocess.run([DRIVER], input=data, capture_output=True, text=True,
                       timeout=timeout)
    if p.returncode != 0:
        raise RuntimeError("driver failed: " + p.stderr[-500:])
    out = p.stdout.split("\n")
    if out and out[-1] == "":
        out.pop()
    return out


# --------------------------------------------------------------------------
# known findings

def load_known(prop):
    """known_findings.txt: 'known: property=Cxx key=<key> <text>' / 'fixed: ...'."""
    known = {}
    path = os.path.join(ROOT, "known_findings.txt")
    if os.path.exists(path):
        for line in open(path):
            line = line.strip()
            m = re.match(r"known: property=(\S+) key=(\S+) (.*)$", line)
            if m and m.group(1) == prop:
                known[m.group(2)] = m.group(3)
    return known


# --------------------------------------------------------------------------
# the check itself

def corpus_lines(prop):
    d = os.path.join(ROOT, "corpus", prop)
    out = []
    if os.path.isdir(d):
        for name in sorted(os.listdir(d)):
            for line in open(os.path.join(d, name)):
                line = line.rstrip("\n")
                if line and not line.startswith("#"):
                    out.append(line)
    return out


def write_replay(prop, payload):
    os.makedirs(os.path.join(ROOT, "replays"), exist_ok=True)
    blob = json.dumps(payload, sort_keys=True, indent=1, default=str)
    name = "%s-%s.json" % (prop, hashlib.sha1(blob.encode()).hexdigest()[:12])
    path = os.path.join(ROOT, "replays", name)
    with open(path, "w") as f:
        f.write(blob)
    return os.path.relpath(path, ROOT)


def write_evidence(prop, ev):
    os.makedirs(os.path.join(ROOT, "evidence"), exist_ok=True)
    with open(os.path.join(ROOT, "evidence", prop + ".json"), "w") as f:
        json.dump(ev, f, indent=1, sort_keys=True, default=str)
        f.write("\n")


def run_check(prop, tier="quick", seed=0, replay=None):
    t0 = time.time()
    mod = importlib.import_module("harness." + prop.lower())
    rng = random.Random("%s/%s/%d" % (prop, tier, seed))
    known = load_known(prop)
    notes = []

    if replay:
        payload = json.load(open(replay))
        bad = 0
        for v in payload.get("violations", []):
            res = mod.oracle(v["case"])
            print("replay %s -> %s" % (v["case"], [r.detail for r in res] or "ok"))
            bad += bool(res)
        return 1 if bad else 0

    # 1. translator + build + audit -----------------------------------------
    broken = []          # proof obligations / correspondence that no longer check
    try:
        gen_info = regenerate()
    except Exception as err:  # translator failed closed
        gen_info = {"error": repr(err)}
        broken.append("translator: " + repr(err))
    else:
        # a generator that failed closed concerns the properties whose theorems are stated over its file (the import
        # closure of their Lean targets); the others build against the file's last content
        deps = gen_deps(getattr(mod, "LEAN_TARGETS", [])) | set(getattr(mod, "GEN_DEPS", []))
        for fname, meta in sorted(gen_info.items()):
            if isinstance(meta, dict) and "error" in meta:
                if fname[:-5] in deps:
                    broken.append("translator (%s): %s" % (fname, meta["error"]))
                else:
                    notes.append("translator (%s) failed closed; not used by this property: %s" % (fname, meta["error"]))
    targets = list(getattr(mod, "LEAN_TARGETS", [])) + ["driver"]
    ok, log = lake_build(targets)
    if ok is None:
        print("TOOL-FAILURE: " + log)
        return 2
    theorems = list(getattr(mod, "THEOREMS", []))
    obligations = len(theorems)
    discharged = 0
    axioms = {}
    driver_ok = True
    if not ok:
        items = failing_items(log)
        broken.append("lake build failed: " + "; ".join(items[:8]))
        notes.append(log[-3000:])
        # try the driver alone so that the correspondence can still run
        ok2, log2 = lake_build(["driver"])
        driver_ok = bool(ok2)
    else:
        aok, axioms, raw = axiom_audit(theorems, getattr(mod, "AUDIT_IMPORTS", []))
        discharged = sum(1 for t in theorems
                         if t in axioms and set(axioms[t]) <= ALLOWED_AXIOMS)
        if not aok:
            broken.append("axiom audit failed: " + raw[-600:])
        hits = grep_forbidden(mod_lean_files(mod))
        if hits:
            broken.append("forbidden constructs: " + "; ".join(hits[:5]))
            discharged = 0
    if tier == "thorough" and ok:
        lok, llog = leanchecker(getattr(mod, "LEANCHECK_MODULES", []) or
                                [t for t in targets if t != "driver"])
        if lok is None:
            print("TOOL-FAILURE: " + llog)
            return 2
        if not lok:
            broken.append("leanchecker rejected: " + llog[-600:])

    # 2./3. correspondence + oracle -------------------------------------------
    from harness import anchorcov
    anchorcov.start()        # which lines of the anchored functions do the cases reach?
    cases = corpus_lines(prop) + list(mod.generate(rng, tier))
    stats = {}
    impl_out = []
    violations = []
    nontrivial = set()
    conformance_failures = []
    for case in cases:
        try:
            obs = mod.observe(case)
        except BaseException as err:      # harness must never die on a case
            obs = "HARNESS-" + excname(err)
        impl_out.append(obs)
        try:
            for v in mod.oracle(case):
                violations.append(v)
        except BaseException as err:
            notes.append("oracle crashed on %s: %s" % (case, traceback.format_exc()[-400:]))
            broken.append("oracle crashed: %r" % (err,))
        if hasattr(mod, "conformance"):
            try:
                nc = mod.conformance(case, obs)
            except BaseException as err:
                nc = "conformance check crashed: %r" % (err,)
            if nc:
                conformance_failures.append({"case": case, "why": nc})
        tag = mod.classify(case, obs) if hasattr(mod, "classify") else obs[:16]
        if tag is not None:
            stats[tag] = stats.get(tag, 0) + 1
            if not str(tag).startswith("trivial"):
                nontrivial.add(case)
    extra = mod.extra_oracles(rng, tier) if hasattr(mod, "extra_oracles") else ([], {})
    violations.extend(extra[0])
    extra_stats = extra[1]

    if conformance_failures:
        broken.append("translator/template conformance: %d cases (first: %s)"
                      % (len(conformance_failures), json.dumps(conformance_failures[0])[:400]))
    disagreements = []
    model_lines = []
    if driver_ok and cases:
        try:
            per_case = [(mod.to_model(c) if hasattr(mod, "to_model") else [c]) for c in cases]
            model_lines = [l for ls in per_case for l in ls]
            model_out = run_driver(model_lines) if model_lines else []
            if len(model_out) != len(model_lines):
                broken.append("driver produced %d lines for %d protocol lines"
                              % (len(model_out), len(model_lines)))
            else:
                it = iter(model_out)
                paired = []
                for c, a, ls in zip(cases, impl_out, per_case):
                    outs = [next(it) for _ in ls]
                    if outs:           # cases without a model line are oracle/conformance only
                        m = " ".join(outs)
                        if hasattr(mod, "canon_model"):
                            m = mod.canon_model(m)
                        paired.append((c, a, m))
                for c, a, b in paired:
                    if "unsupported" in b or a == "unsupported":
                        stats["model-unsupported"] = stats.get("model-unsupported", 0) + 1
                        continue
                    if a != b:
                        disagreements.append({"case": c, "impl": a, "model": b})
        except subprocess.TimeoutExpired:
            print("TOOL-FAILURE: the model driver timed out")
            return 2
        except Exception as err:
            broken.append("driver run failed: %r" % (err,))
    elif not driver_ok:
        broken.append("driver does not build: correspondence not run")
    if disagreements:
        broken.append("correspondence: %d of %d cases differ (first: %s)"
                      % (len(disagreements), len(cases), json.dumps(disagreements[0])))
        # enlarged failing-input search around the disagreeing cases
        if hasattr(mod, "search_around"):
            violations.extend(mod.search_around([d["case"] for d in disagreements[:50]], rng))

    # 4. verdict -------------------------------------------------------------
    new = [v for v in violations if v.key not in known]
    old = [v for v in violations if v.key in known]
    rc = 0
    for key in sorted({v.key for v in old}):
        print("KNOWN-FINDING: property=%s %s [%s]" % (prop, known[key], key))
    if new:
        # shortest first; a failing input that does not reproduce on its own (a check says so in the detail) goes last
        new.sort(key=lambda v: ("not from this case alone" in str(v.detail), len(json.dumps(v.case))))
        path = write_replay(prop, {"property": prop, "seed": seed, "tier": tier,
                                   "violations": [v.to_json() for v in new[:20]],
                                   "broken": broken})
        print("VIOLATION property=%s replay=%s" % (prop, path))
        print("  first: %s" % json.dumps(new[0].to_json())[:600])
        rc = 1
    elif broken:
        path = write_replay(prop, {"property": prop, "seed": seed, "tier": tier,
                                   "violations": [],
                                   "no_longer_checks": broken,
                                   "disagreements": disagreements[:20],
                                   "notes": notes[:3]})
        print("VIOLATION property=%s replay=%s no-failing-input-found" % (prop, path))
        for b in broken[:5]:
            print("  broken: %s" % b[:500])
        rc = 1

    # 5. evidence --------------------------------------------------------------
    anchorcov.stop()
    anchor_cov = anchorcov.report(prop)
    samples = cases[:3] + cases[len(cases) // 2: len(cases) // 2 + 2]
    ev = {
        "property_id": prop,
        "tier": tier,
        "seed": seed,
        "level": "proof",
        "coverage": {
            "obligations": max(obligations, 1),
            "discharged": discharged,
            "checker_cmd": "cd lean && lake build %s && lake env lean <audit: #print axioms>%s"
                           % (" ".join(targets), " && lake env leanchecker" if tier == "thorough" else ""),
            "trusted_base": list(getattr(mod, "TRUSTED_BASE", [])) + [
                "Lean 4.33 kernel; axioms allowed: propext, Classical.choice, Quot.sound",
                "translator/gen.py (data/templates) and harness correspondence (logic)",
                "CPython 3.12 standard library where poorwsgi delegates to it"],
            "theorems": theorems,
            "axioms": axioms,
            "evaluations": len(cases) + int(extra_stats.get("evaluations", 0)),
            "distinct_nontrivial": len(nontrivial) + int(extra_stats.get("distinct_nontrivial", 0)),
            "rule": getattr(mod, "RULE", ""),
            "samples": samples or ["(no generated cases)"],
            "correspondence_cases": len(cases),
            "correspondence_disagreements": len(disagreements),
            "oracle_violations_new": len(new),
            "oracle_violations_known": len(old),
            "distribution": dict(sorted(stats.items(), key=lambda kv: -kv[1])[:40]),
            "extra": extra_stats,
            "generated": gen_info,
            "anchored_code_lines_reached": anchor_cov,
            "broken": broken,
            "exhaustive": bool(getattr(mod, "EXHAUSTIVE", {}).get(tier, False)),
        },
        "assumptions": list(getattr(mod, "ASSUMPTIONS", [])),
        "wall_s": round(time.time() - t0, 2),
        "violations": len(new) + (1 if (broken and not new) else 0),
    }
    write_evidence(prop, ev)
    print("%s %s: %d obligations (%d discharged), %d cases, %d disagreements, "
          "%d new / %d known violations, %.1fs"
          % (prop, tier, obligations, discharged, len(cases), len(disagreements),
             len(new), len(old), time.time() - t0))
    return rc


def mod_lean_files(mod):
    files = []
    for rel in getattr(mod, "LEAN_FILES", []):
        files.append(os.path.join(LEAN, rel))
    return files
