"""Line coverage of the code the property is anchored in, while the check's cases run.

The anchors of properties.jsonl are line ranges of the pinned snapshot; tools/mkanchors.py mapped them to
the enclosing functions (harness/anchor_functions.json).  Here the lines of those functions *in the current
tree* that the cases executed are recorded with sys.monitoring (each location reports once, then is disabled),
and the lines never reached are listed in the evidence: a branch of the anchored code that no case enters is a
blind spot of the generator, whatever the theorems say about the model."""
import json
import os
import sys

HERE = os.path.dirname(os.path.abspath(__file__))
PKG = "/repo/poorwsgi/"
_hits = {}
_on = [False]


def start():
    mon = getattr(sys, "monitoring", None)
    if mon is None or _on[0]:
        return
    try:
        mon.use_tool_id(mon.COVERAGE_ID, "verif-anchorcov")
    except ValueError:
        return

    def on_line(code, line):
        fn = code.co_filename
        if fn.startswith(PKG):
            _hits.setdefault(fn, set()).add(line)
        return mon.DISABLE
    mon.register_callback(mon.COVERAGE_ID, mon.events.LINE, on_line)
    mon.set_events(mon.COVERAGE_ID, mon.events.LINE)
    _on[0] = True


def stop():
    mon = getattr(sys, "monitoring", None)
    if mon is None or not _on[0]:
        return
    mon.set_events(mon.COVERAGE_ID, 0)
    mon.register_callback(mon.COVERAGE_ID, mon.events.LINE, None)
    mon.free_tool_id(mon.COVERAGE_ID)
    _on[0] = False


def _codes(code, out):
    for c in code.co_consts:
        if hasattr(c, "co_code"):
            out.append(c)
            _codes(c, out)
    return out


def _lines(code):
    """executable lines of a function body, nested functions included, `def` lines excluded"""
    out = set()
    for c in [code] + _codes(code, []):
        ls = {ln for _, _, ln in c.co_lines() if ln}
        ls.discard(c.co_firstlineno)
        out |= ls
    return out


def report(pid):
    try:
        table = json.load(open(os.path.join(HERE, "anchor_functions.json")))["functions"].get(pid, [])
    except OSError:
        return {}
    out, per_file = {}, {}
    for item in table:
        rel, qual = item.split(":")
        path = "/repo/" + rel
        if path not in per_file:
            try:
                src = open(path, encoding="utf-8").read()
                top = compile(src, path, "exec")
                per_file[path] = {c.co_qualname.replace(".<locals>", ""): c for c in _codes(top, [])}
            except (OSError, SyntaxError):
                per_file[path] = {}
        code = per_file[path].get(qual)
        if code is None:
            out[item] = {"missing": True}      # renamed or removed since the snapshot
            continue
        lines = _lines(code)
        hit = lines & _hits.get(path, set())
        out[item] = {"lines": len(lines), "hit": len(hit), "missed": sorted(lines - hit)}
    dump = os.environ.get("VERIF_COVDUMP")
    if dump:       # diagnostic: every line of the package the cases reached (tools/package_report.py)
        with open(dump, "w") as fh:
            json.dump({k: sorted(v) for k, v in _hits.items()}, fh)
    total = sum(v.get("lines", 0) for v in out.values())
    got = sum(v.get("hit", 0) for v in out.values())
    return {"functions": out, "lines": total, "hit": got}
