"""C18 - header values the library renders parse back to the same value."""
import calendar
import itertools
import time

from harness.core import hx, unhx, Violation, excname

LEAN_TARGETS = ["PoorProofs.Props.C18"]
AUDIT_IMPORTS = ["PoorProofs.Props.C18"]
LEAN_FILES = ["PoorModel/HeaderValue.lean", "PoorModel/Date.lean", "PoorProofs/Lemmas/HeaderValue.lean",
              "PoorProofs/Lemmas/Date.lean", "PoorProofs/Props/C18.lean"]
THEOREMS = ["Poor.HeaderValue.unescape_escQ", "Poor.HeaderValue.splitSeg_quoted", "Poor.Props.C18.parseOne_render",
            "Poor.Props.C18.C18_params", "Poor.Props.C18.C18_ranges", "Poor.Props.C18.C18_nego", "Poor.Props.C18.C18_nego_list",
            "Poor.Props.C18.C18_total", "Poor.Props.C18.pattern_pinned", "Poor.Date.ord_roundtrip",
            "Poor.Date.ord2ymd_valid", "Poor.Date.ord2ymd_year", "Poor.Date.parse_render", "Poor.Props.C18.C18_dates",
            "Poor.Props.C18.C18_dates_injective", "Poor.Props.C18.C18_dates_width", "Poor.Date.ymd_roundtrip",
            "Poor.Props.C18.C18_calendar_bijection", "Poor.Props.C18.C18_dates_parse_sound"]
TRUSTED_BASE = ["model Poor.HeaderValue hand-written from headers.py:27-144 and wsgiref.headers._formatparam",
                "RE_BYTES_RANGE scanner: pattern text pinned by Gen.Patterns (obligation pattern_pinned)",
                "q-values: float(str(x)) == x for CPython floats (repr round trip) - canonicalised by the harness",
                "HTTP dates: model Poor.Date = CPython's _ord2ymd/_ymd2ord plus strftime in the C locale and strptime on the "
                "canonical shape only (other shapes are answered `unsupported`); tied to datetime/time_to_http/http_to_time "
                "by correspondence on timestamps, ordinals and mutated date strings"]
ASSUMPTIONS = ["parameter names are lower-case ASCII tokens (parse_header lower-cases names)",
               "str.strip() whitespace set as listed in Poor.HeaderValue.isSpace"]
RULE = ("parameter dictionaries up to 4 entries over {letters, space, ';', '\"', '\\\\', '=', ',', non-ASCII}; negotiation "
        "lists up to 6 items with q at 1-3 decimals or absent; range sets of up to 5 items with integers up to 2^63; "
        "timestamps 1970..9999; arbitrary Unicode strings for totality; non-trivial = contains a separator, quote, "
        "backslash or non-ASCII character")
EXHAUSTIVE = {"quick": False, "thorough": False}

ALPHA = ["a", "B", " ", ";", '"', "\\", "=", ",", "é", "ž", "\U0001F600", "q", "-", "0", "\t", "\n"]
KEYS = ["filename", "field", "charset", "x", "max-age", "boundary", "k1"]


def rand_text(rng, n, alpha=ALPHA):
    return "".join(rng.choice(alpha) for _ in range(n))


def pairs_tok(ps):
    return ",".join("%s=%s" % (hx(k), hx(v)) for k, v in ps) or "none"


def generate(rng, tier):
    cases = []
    # parameterised values: exhaustive short values, then random dictionaries
    for n in range(1, 4 if tier == "thorough" else 3):
        for t in itertools.product(["a", " ", ";", '"', "\\", "=", ",", "é"], repeat=n):
            cases.append("C18 params %s %s" % (hx("form-data"), pairs_tok([("filename", "".join(t)), ("x", "b")])))
    for _ in range(3000 if tier == "thorough" else 500):
        keys = rng.sample(KEYS, rng.randrange(0, 5))
        ps = [(k, rand_text(rng, rng.randrange(1, 8))) for k in keys]
        main = rng.choice(["text/html", "form-data", "attachment", "application/x-y+z", "a", ""])
        if not main and not ps:
            continue
        cases.append("C18 params %s %s" % (hx(main), pairs_tok(ps)))
    # totality / parser correspondence on arbitrary strings
    junk = ["", ";", ";;;", '"', '"a;b', 'a="b\\', "a=b;c", "x; a=1; A=2; a=3", "  t/p ; q = \" v \" ", ";=;=", "=",
            "a;" * 3000, '"' * 7, "a; b=\"c;d\"; e=f", "\\", "a; k=\"\\\"", "a; é=1", "a;b=\"x\"y\";c=1"]
    for j in junk:
        cases.append("C18 hdr " + hx(j))
    for _ in range(2000 if tier == "thorough" else 400):
        cases.append("C18 hdr " + hx(rand_text(rng, rng.randrange(0, 14))))
    # negotiation
    for _ in range(1500 if tier == "thorough" else 300):
        items = []
        for _ in range(rng.randrange(1, 7)):
            v = rng.choice(["gzip", "text/html", "*", "text/html;level=1", "en-US", "identity", "a b"])
            q = rng.choice([None, None, 0, 1, 0.5, 0.25, 0.125, 0.8, 1.0, 0.001, 0.999])
            items.append((v, q))
        cases.append("C18 nego " + hx(render_nego(items)))
    # rendering itself (the quality enters the model as the text str() gives)
    for _ in range(600 if tier == "thorough" else 120):
        items = []
        for _ in range(rng.randrange(1, 7)):
            v = rng.choice(["gzip", "text/html", "*", "text/html;level=1", "en-US", "identity", "a b", "", "é"])
            q = rng.choice([None, None, 0, 1, 0.5, 0.25, 0.125, 0.8, 1.0, 0.001, 0.999, 1e-07, 10])
            items.append("%s;%s" % (hx(v), "-" if q is None else hx(str(q))))
        cases.append("C18 negor " + ",".join(items))
    for j in ["", ",", ";q=", "a;q=", "a;q=x", "a;q=0.5;q=0.1", "a;q=0.5;b", " a ; q=1", "a;q= 0.5", "a;Q=0.5", "a;q=1e-1",
              "a;q=inf", "a;q=nan", ",,a,,", "a;q=0.5, b;q=٣", "a;q=1_0", "a;q=0x1"]:
        cases.append("C18 nego " + hx(j))
    for _ in range(600 if tier == "thorough" else 150):
        cases.append("C18 nego " + hx(rand_text(rng, rng.randrange(0, 12), ["a", ",", ";", "q", "=", "0", ".", "5", " ", "é"])))
    # ranges
    big = [0, 1, 9, 10, 499, 2 ** 31, 2 ** 63, 2 ** 63 - 1, 10 ** 30]
    for _ in range(1500 if tier == "thorough" else 300):
        rs = []
        for _ in range(rng.randrange(1, 6)):
            kind = rng.random()
            a, b = rng.choice(big), rng.choice(big)
            rs.append((a, b) if kind < 0.5 else ((a, None) if kind < 0.75 else (None, b)))
        cases.append("C18 range " + hx(render_ranges(rs, rng.choice(["bytes", "bytes", "lines", "b"]))))
    for j in ["", "bytes", "bytes=", "=", "bytes=-", "bytes=a-b", "bytes=1-2=3", "bytes=1-2,3-4,", "bytes=,,1-2",
              "bytes=1--2", "bytes=" + "9" * 4301 + "-", "bytes=0-" + "1" * 4300, "bytes=１-２", "bytes= 1 - 2", "x=1-\n2"]:
        cases.append("C18 range " + hx(j))
    for _ in range(600 if tier == "thorough" else 150):
        cases.append("C18 range " + hx(rand_text(rng, rng.randrange(0, 12), ["b", "=", "-", ",", "1", "0", "9", " ", "x"])))
    # dates: rendering and parsing against the model, calendar arithmetic against datetime.date
    stamps = [0, 1, 59, 86399, 86400, 951782400, 951868800, 1582934400, 2 ** 31 - 1, 2 ** 31, 4102444800, 253402300799,
              1790726400, 68169600, 68255999, 68256000, 11644473600, 32503679999, 32503680000, 253370764800]
    # around every century change and the leap days of 2000, 2100, 2400
    for y in (1999, 2000, 2099, 2100, 2399, 2400, 9999):
        for mo, d in ((2, 28), (3, 1), (12, 31), (1, 1)):
            stamps.append(calendar.timegm((y, mo, d, 23, 59, 59)))
            if y < 9999 or (mo, d) != (12, 31):
                stamps.append(calendar.timegm((y, mo, d, 23, 59, 59)) + 1)
    stamps += [rng.randrange(0, 253402300800) for _ in range(600 if tier == "thorough" else 120)]
    for ts in stamps:
        cases.append("C18 date %d" % ts)
    for ts in rng.sample(stamps, 40) + stamps[:12]:
        text = time.strftime("%a, %d %b %Y %H:%M:%S GMT", time.gmtime(ts)) if ts < 2 ** 33 else None
        if text is None:
            import datetime
            text = datetime.datetime.fromtimestamp(ts, datetime.timezone.utc).strftime("%a, %d %b %Y %H:%M:%S GMT")
        cases.append("C18 dparse " + hx(text))
        muts = [text.replace(text[:3], rng.choice(["Mon", "Sun", "Wed"])),           # any day name: not cross-checked
                text[:5] + "31" + text[7:], text[:5] + "30 Feb" + text[11:], text[:5] + "29 Feb 2100" + text[16:],
                text[:5] + "29 Feb 2400" + text[16:], text[:5] + "00" + text[7:], text[:5] + "32" + text[7:],
                text[:17] + "24" + text[19:], text[:20] + "60" + text[22:], text[:23] + "60" + text[25:],
                text[:23] + "61" + text[25:], text[:12] + "0000" + text[16:], text[:12] + "1969" + text[16:],
                text[:12] + "1970" + text[16:], text.lower(), text.replace(" GMT", ""), text.replace(" GMT", " UTC"),
                text.replace(", ", ","), text + " ", " " + text, text.replace(":", "."), text[:8] + "Foo" + text[11:],
                "Xyz" + text[3:], text.replace("0", "\u0660", 1), text[:5] + text[6:], ""]
        for m in rng.sample(muts, 8):
            cases.append("C18 dparse " + hx(m))
    for o in [1, 2, 365, 366, 367, 1461, 1462, 36524, 36525, 36526, 146096, 146097, 146098, 719162, 719163, 719164,
              730119, 730120, 3652059] + [rng.randrange(1, 3652060) for _ in range(300 if tier == "thorough" else 60)]:
        cases.append("C18 civil %d" % o)
    return cases


def render_nego(items):
    from poorwsgi.headers import render_negotiation
    return render_negotiation([(v,) if q is None else (v, q) for v, q in items])


def render_ranges(rs, unit="bytes"):
    return unit + "=" + ",".join("%s-%s" % ("" if a is None else a, "" if b is None else b) for a, b in rs)


def to_model(case):
    t = case.split()
    if t[1] == "params":
        return ["C18 render %s %s" % (t[2], t[3])]
    return [case]


def parse_pairs(tok):
    return [] if tok == "none" else [tuple(unhx(x).decode() for x in kv.split("=")) for kv in tok.split(",")]


def render_impl(main, ps):
    from poorwsgi.headers import Headers
    h = Headers()
    h.add_header("X-Test", main if main else None, **{k.replace("-", "_"): v for k, v in ps})
    return Headers.utf8(h["X-Test"])


def observe(case):
    from poorwsgi import headers as H
    t = case.split()
    try:
        if t[1] == "params":
            return hx(render_impl(unhx(t[2]).decode(), parse_pairs(t[3])))
        if t[1] == "date":
            return hx(H.time_to_http(int(t[2])))
        if t[1] == "dparse":
            try:
                return "ok %d" % H.http_to_time(unhx(t[2]).decode())
            except ValueError:
                return "ValueError"
        if t[1] == "civil":
            import datetime
            d = datetime.date.fromordinal(int(t[2]))
            return "%d %d %d %d" % (d.year, d.month, d.day, d.toordinal())
        if t[1] == "hdr":
            main, pd = H.parse_header(unhx(t[2]).decode())
            if any(not k.isascii() for k in pd):
                return "unsupported"
            return hx(main) + "|" + pairs_tok(list(pd.items()))
        if t[1] == "negor":
            items = []
            for it in t[2].split(","):
                v, q = it.split(";")
                v = unhx(v).decode()
                items.append((v,) if q == "-" else (v, eval(unhx(q).decode(), {"__builtins__": {}})))
            return hx(H.render_negotiation(items))
        if t[1] == "nego":
            return ",".join("%s;%s" % (hx(v), hx(repr(q))) for v, q in H.parse_negotiation(unhx(t[2]).decode()))
        if t[1] == "range":
            if any(c.isdecimal() and not c.isascii() for c in unhx(t[2]).decode()):
                return "unsupported"       # \d and int() accept non-ASCII decimal digits; the model is ASCII-only
            r = H.parse_range(unhx(t[2]).decode())
            if not r:
                return "none"
            (unit, rs), = r.items()
            return hx(unit) + "|" + (";".join("%s:%s" % ("_" if a is None else a, "_" if b is None else b) for a, b in rs) or "none")
    except Exception as err:
        return excname(err)
    return "-"


def canon_model(line):
    """q-values: the model hands over the text float() is applied to"""
    if not line or ";" not in line or "|" in line:
        return line
    out = []
    for item in line.split(","):
        v, _, q = item.partition(";")
        if q == "-":
            out.append("%s;%s" % (v, hx(repr(1.0))))
            continue
        try:
            val = float(unhx(q).decode())
        except ValueError:
            val = 1.0
        out.append("%s;%s" % (v, hx(repr(val))))
    return ",".join(out)


def oracle(case):
    from poorwsgi import headers as H
    t = case.split()
    try:
        if t[1] == "params":
            main, ps = unhx(t[2]).decode(), parse_pairs(t[3])
            line = render_impl(main, ps)
            got_main, got = H.parse_header(line)
            if main and (got_main != main or got != dict(ps)):
                return [Violation("c18-params", case, "rendered %r parses to %r %r, original %r %r"
                                  % (line, got_main, got, main, dict(ps)))]
            return []
        if t[1] == "hdr":
            text = unhx(t[2]).decode()
            m1, d1 = H.parse_header(text)
            first = (m1, dict(d1))
            d1.clear()
            m2, d2 = H.parse_header(text)
            if (m2, d2) != first:
                return [Violation("c18-hdr-state", case, "parsing %r again after the caller changed the first result "
                                  "gives %r, first %r" % (text[:60], (m2, d2), first))]
            return []
        if t[1] == "negor":
            items = []
            for it in t[2].split(","):
                v, q = it.split(";")
                v = unhx(v).decode()
                items.append((v,) if q == "-" else (v, eval(unhx(q).decode(), {"__builtins__": {}})))
            if any("," in i[0] or ";q=" in i[0] or i[0].strip() != i[0] for i in items):
                return []
            text = H.render_negotiation(items)
            got = H.parse_negotiation(text)
            want = [(i[0], float(i[1]) if len(i) > 1 else 1.0) for i in items]
            if got != want:
                return [Violation("c18-nego-roundtrip", case, "rendered %r parses to %r, the list was %r" % (text, got, want))]
            return []
        if t[1] == "nego":
            text = unhx(t[2]).decode()
            got = H.parse_negotiation(text)
            # the result belongs to the caller: sorting or emptying it must not change what a later parse returns
            import copy
            first = copy.deepcopy(got)
            if isinstance(got, list):
                got.sort(key=lambda x: repr(x), reverse=True)
                del got[1:]
            again = H.parse_negotiation(text)
            if repr(again) != repr(first):
                return [Violation("c18-nego-state", case, "parsing %r again after the caller changed the first result "
                                  "gives %r, first %r" % (text[:60], again, first))]
            return []
        if t[1] == "range":
            text = unhx(t[2]).decode()
            got = H.parse_range(text)
            import copy
            first = copy.deepcopy(got)
            for v in (got.values() if isinstance(got, dict) else []):
                if isinstance(v, list):
                    del v[:]
            if isinstance(got, dict):
                got.clear()
            got = H.parse_range(text)
            if got != first:
                return [Violation("c18-range-state", case, "parsing %r again after the caller changed the first result "
                                  "gives %r, first %r" % (text[:60], got, first))]
            import re
            m = re.fullmatch(r"([a-z]+)=((\d*-\d*)(,(\d*-\d*))*)", text)
            if m and all(x != "-" for x in m.group(2).split(",")) and all(len(d) <= 4300 for d in re.findall(r"\d+", text)):
                want = [(int(a) if a else None, int(b) if b else None)
                        for a, b in (x.split("-") for x in m.group(2).split(","))]
                if got != {m.group(1): want}:
                    return [Violation("c18-range", case, "well-formed range set %r parsed to %r" % (text[:80], got))]
            return []
        if t[1] == "date":
            ts = int(t[2])
            text = H.time_to_http(ts)
            back = H.http_to_time(text)
            if back != ts:
                return [Violation("c18-date", case, "time_to_http(%d) = %r parses back to %r" % (ts, text, back))]
            # an instant with a fraction belongs to the second it lies in (one-second resolution), also just before the next
            if ts < 2 ** 31:
                for frac in (0.25, 0.5, 0.9999995, 0.99999999):
                    f = ts + frac
                    if int(f) != ts:
                        continue
                    ft = H.time_to_http(f)
                    if ft != text:
                        return [Violation("c18-date-float", case, "time_to_http(%r) = %r, the second %d is %r" % (f, ft, ts, text))]
            return []
    except Exception as err:
        return [Violation("c18-raises:" + t[1], case, "raised %r (parsers must accept any string)" % (err,))]
    return []


def extra_oracles(rng, tier):
    """negotiation round trip on the implementation"""
    from poorwsgi import headers as H
    out, n = [], 0
    for _ in range(2000 if tier == "thorough" else 300):
        items = []
        for _ in range(rng.randrange(1, 7)):
            v = rng.choice(["gzip", "text/html", "*", "text/html;level=1", "en-US", "identity"])
            q = rng.choice([None, 0.0, 1.0, 0.5, 0.25, 0.125, 0.8, 0.001, 0.999, round(rng.random(), rng.randrange(1, 4))])
            items.append((v, q))
        text = render_nego(items)
        got = H.parse_negotiation(text)
        want = [(v, 1.0 if q is None else q) for v, q in items]
        n += 1
        if got != want:
            out.append(Violation("c18-nego", {"items": items}, "rendered %r parses to %r" % (text, got)))
    # HTTP dates are GMT whatever zone the process runs in: the round trips under other local zones (POSIX TZ strings,
    # no zone database needed), around the epoch, a leap day, a daylight-saving gap, 2038 and the last second of 9999
    import os
    import time
    old_tz = os.environ.get("TZ")
    try:
        for tz in ("UTC", "CET-1CEST,M3.5.0,M10.5.0/3", "EST5EDT,M3.2.0,M11.1.0", "<+0530>-5:30", "<-12>12"):
            os.environ["TZ"] = tz
            time.tzset()
            for ts in (0, 1, 86399, 951782400, 1711846800 + 1800, 1729992600, 2 ** 31 + 5, 4102444800, 253402300799):
                n += 1
                try:
                    text = H.time_to_http(ts)
                    back = H.http_to_time(text)
                    again = H.datetime_to_http(H.http_to_datetime(text))
                except Exception as err:
                    out.append(Violation("c18-date-zone", {"tz": tz, "ts": ts}, "raised %r under TZ=%s" % (err, tz)))
                    continue
                if back != ts or again != text:
                    out.append(Violation("c18-date-zone", {"tz": tz, "ts": ts},
                                         "under TZ=%s: time_to_http(%d) = %r parses back to %r and is rendered again as %r"
                                         % (tz, ts, text, back, again)))
    finally:
        if old_tz is None:
            os.environ.pop("TZ", None)
        else:
            os.environ["TZ"] = old_tz
        time.tzset()
    return out, {"evaluations": n, "distinct_nontrivial": n}


def classify(case, obs):
    t = case.split()
    if t[1] == "params":
        vals = "".join(v for _, v in parse_pairs(t[3]))
        if vals.isalnum() and vals.isascii():
            return "trivial-alnum-params"
    return t[1]
