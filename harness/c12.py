"""C12 - static serving never leaves the document root."""
import io
import itertools
import os
import re
import shutil
import sys
import tempfile

from harness.core import hx, unhx, Violation, excname

LEAN_TARGETS = ["PoorProofs.Props.C12"]
AUDIT_IMPORTS = ["PoorProofs.Props.C12"]
LEAN_FILES = ["PoorModel/Static.lean", "PoorProofs/Props/C12.lean"]
THEOREMS = ["Poor.Props.C12.splitSlash_no_slash", "Poor.Props.C12.stepComp_clean", "Poor.Props.C12.C12_confined",
            "Poor.Props.C12.C12_listing", "Poor.Props.C12.C12_gate"]
TRUSTED_BASE = ["model Poor.Static: posixpath.normpath (compared with CPython's on every run) and the consulted path "
                "root + normpath('/' + path.lstrip('/')) hand-written from wsgi.py:1085-1116",
                "the file-system decision (file / listing / 403, GET/HEAD gate) is Poor.Route.select over predicate inputs",
                "lexical confinement only: symlinks, permissions and the OS path resolution are outside the model"]
ASSUMPTIONS = ["os.path.exists/isfile/isdir/access and open() behave as POSIX specifies for the lexical path"]
RULE = ("sandbox tree (root, root..x, root_private, parent secrets, nested, hidden, backup, unreadable) x paths of up to 5 "
        "segments over {'', '.', '..', names, sibling suffixes, %2e%2e, NUL, non-ASCII} joined by / or // with and without "
        "leading slash x methods x indexing on/off x root spellings x attribute/environ override; every open() recorded by an "
        "audit hook; non-trivial = the path contains a dot segment, no leading slash, or a sibling suffix")
EXHAUSTIVE = {"quick": False, "thorough": True}

_sb = {}
_opened = []
_hooked = [False]


def audit(event, args):
    if event == "open" and _sb and isinstance(args[0], str) and args[0].startswith(_sb["base"]):
        _opened.append(args[0])


def sandbox():
    if _sb:
        return _sb
    base = os.path.realpath(tempfile.mkdtemp(prefix="verif_c12_"))
    root = os.path.join(base, "site")
    files = {
        "site/index.txt": "TOKEN-inside-index", "site/sub/deep/f.txt": "TOKEN-inside-deep", "site/sub/a.txt": "TOKEN-inside-a",
        "site/.hidden": "TOKEN-hidden", "site/backup.txt~": "TOKEN-backup", "site/sub/.dot/x": "TOKEN-dotdir",
        "site..x/s.txt": "SECRET-sibling-dotdotx", "site_private/s.txt": "SECRET-sibling-private",
        "secret.txt": "SECRET-parent", "site/..x/inside.txt": "TOKEN-inside-dotdotx-dir", "site/é/ž.txt": "TOKEN-inside-utf8",
        "site/unreadable.txt": "TOKEN-unreadable", "site/data.zzq": "TOKEN-unknown-type", "site/sub/noext": "TOKEN-no-extension",
        "site/big.bin": "TOKEN-big-" + "x" * 5000, "site/sub/huge.txt": "TOKEN-huge-" + "y" * 1200000,
        # directories that are themselves hidden or backups, and visible names with a tilde elsewhere
        "site/old~/f.txt": "TOKEN-backup-dir", "site/sub/draft~/x.txt": "TOKEN-backup-subdir", "site/.git/config": "TOKEN-dot-dir",
        # a second document root with the same names: one file of other content, one that is a directory there, one missing
        "site2/index.txt": "TOKEN-second-root-index", "site2/sub/a.txt/inner.txt": "TOKEN-second-root-inner",
        "site/~tilde.txt": "TOKEN-tilde-first", "site/sub/mid~dle.txt": "TOKEN-tilde-middle", "site/..data/v": "TOKEN-dotdot-dir",
    }
    for rel, content in files.items():
        p = os.path.join(base, rel)
        os.makedirs(os.path.dirname(p), exist_ok=True)
        with open(p, "w") as f:
            f.write(content)
    os.chmod(os.path.join(root, "unreadable.txt"), 0)
    os.makedirs(os.path.join(root, "empty"))
    # a spelling of the root that only the operating system resolves correctly: <base>/lnk/.. with lnk -> site/sub
    os.symlink(os.path.join(root, "sub"), os.path.join(base, "lnk"))
    # entries that are neither regular files nor directories: a link to a device, and a socket
    os.symlink("/dev/null", os.path.join(root, "null.dev"))
    os.symlink("/dev/null", os.path.join(root, "sub", "null2.dev"))     # (never an endless device: a check must end)
    # an entry that is neither a regular file nor a directory (never opened: a socket cannot be)
    import socket
    sk = socket.socket(socket.AF_UNIX)
    try:
        sk.bind(os.path.join(root, "sock"))
    finally:
        sk.close()
    _sb.update(base=base, root=root, files={os.path.join(base, k): v for k, v in files.items()})
    if not _hooked[0]:
        sys.addaudithook(audit)
        _hooked[0] = True
    return _sb


def cleanup():
    if _sb:
        try:
            os.chmod(os.path.join(_sb["root"], "unreadable.txt"), 0o600)
        except OSError:
            pass
        shutil.rmtree(_sb["base"], ignore_errors=True)


SEGS = ["", ".", "..", "sub", "deep", "a.txt", "f.txt", "index.txt", "..x", "_private", "s.txt", "%2e%2e", "a\x00b", "é",
        "ž.txt", "secret.txt", ".hidden", "backup.txt~", "unreadable.txt", "empty", "site", "site..x", "site_private",
        "sock", "data.zzq", "noext", "big.bin", "huge.txt", "old~", "draft~", ".git", "~tilde.txt", "mid~dle.txt", "..data",
        "null.dev", "null2.dev", "sock", "null.dev"]
METHODS = ["GET", "HEAD", "POST", "DELETE", "PUT", "OPTIONS"]


def mk(path, method, index, rootkind, via):
    return "C12 req %s %s %d %s %s" % (hx(path), method, 1 if index else 0, rootkind, via)


def generate(rng, tier):
    cases = []
    for p in ["", "/", "a", "a/b", "/a/b/", "//a", "///a", "a//b", "./a", "a/.", "a/..", "/..", "../a", "a/../../b", "/a/../..",
              ".", "..", "//", "///", "/./", "a/./b/../c", "....", "/.../", "é/../ž", "..a", "a..", "/a/b/../../../c"]:
        cases.append("C12 norm " + hx(p))
    n = 4000 if tier == "thorough" else 700
    for _ in range(n):
        k = rng.randrange(0, 6)
        segs = [rng.choice(SEGS) for _ in range(k)]
        p = rng.choice(["/", "//", "", "/"]).join([""] if False else segs)
        p = rng.choice(["", "/", "/", "//", "///"]) + rng.choice(["/", "//"]).join(segs)
        cases.append("C12 norm " + hx(p.replace("\x00", "0")))
        cases.append("C12 rfile %s %s" % (hx(rng.choice(["/srv/site", "/srv/site/", "rel/root", ""])), hx(p)))
    # requests against the sandbox
    sandbox()
    combos = []
    small = ["", ".", "..", "sub", "a.txt", "..x", "_private", "s.txt", "index.txt", "secret.txt", "%2e%2e", "é"]
    for k in range(0, 4 if tier == "thorough" else 3):
        for segs in itertools.product(small, repeat=k):
            combos.append(list(segs))
    for segs in (combos if tier == "thorough" else rng.sample(combos, min(len(combos), 150))):
        for lead in ("/", ""):
            path = lead + "/".join(segs)
            cases.append(mk(path, "GET", rng.random() < 0.5, "abs", "attr"))
    for _ in range(n):
        k = rng.randrange(0, 6)
        path = rng.choice(["", "/", "/", "//"]) + rng.choice(["/", "//"]).join(rng.choice(SEGS) for _ in range(k))
        cases.append(mk(path, rng.choice(METHODS), rng.random() < 0.5, rng.choice(["abs", "abs", "slash", "rel", "link"]),
                        rng.choice(["attr", "attr", "env"])))
    # the document root changed between two requests for the same path (by the attribute or per request): the second answer
    # comes from the second root, whatever the first request found
    for path in ("/index.txt", "/sub/a.txt", "/sub/deep/f.txt", "index.txt"):
        for method in ("GET", "HEAD"):
            for via in ("attr", "env"):
                cases.append(mk(path, method, True, "abs", via))
                cases.append(mk(path, method, True, "two", via))
                cases.append(mk(path, method, False, "abs", "attr"))
    return cases


def to_model(case):
    t = case.split()
    if t[1] in ("norm", "rfile"):
        return [case]
    return []


_app = None


def app():
    global _app
    if _app is None:
        from poorwsgi import Application
        _app = Application("verif_c12_%d" % os.getpid())
    return _app


def do_request(case):
    t = case.split()
    path, method, index, rootkind, via = unhx(t[2]).decode(), t[3], t[4] == "1", t[5], t[6]
    sb = sandbox()
    root = {"abs": sb["root"], "slash": sb["root"] + "/", "rel": os.path.relpath(sb["root"]),
            "link": os.path.join(sb["base"], "lnk", ".."), "two": os.path.join(sb["base"], "site2")}[rootkind]
    a = app()
    env = {"REQUEST_METHOD": method, "PATH_INFO": path.encode("utf-8", "surrogatepass").decode("latin-1"),
           "QUERY_STRING": "", "SERVER_NAME": "srv", "SERVER_PORT": "80", "SERVER_PROTOCOL": "HTTP/1.1",
           "wsgi.url_scheme": "http", "wsgi.input": io.BytesIO(b""), "wsgi.errors": io.StringIO()}
    if rootkind == "two":
        # (self-contained: the same path was asked for under the first root just before)
        a.document_root, a.document_index = sb["root"], index
        try:
            b"".join(a(dict(env, **{"wsgi.input": io.BytesIO(b""), "wsgi.errors": io.StringIO()}), lambda s_, h_: None))
        except BaseException:
            pass
    if via == "env":
        a.document_root = "/nonexistent-root"
        a.document_index = not index
        env["poor_DocumentRoot"] = root
        env["poor_DocumentIndex"] = "On" if index else "Off"
    else:
        a.document_root = root
        a.document_index = index
    del _opened[:]
    calls = []
    try:
        body = b"".join(a(env, lambda s, h: calls.append((s, h))))
    except BaseException as err:
        return None, repr(err), list(_opened), root
    return calls, body, list(_opened), root


def observe(case):
    t = case.split()
    try:
        if t[1] == "norm":
            return hx(os.path.normpath(unhx(t[2]).decode()))
        if t[1] == "rfile":
            root, path = unhx(t[2]).decode(), unhx(t[3]).decode()
            return hx(consulted(root, path))
    except Exception as err:
        return excname(err)
    return "-"


def consulted(root, path):
    """the first path the dispatcher tests with os.path.exists for this request"""
    from poorwsgi import Application
    import os.path as osp
    seen = []
    real = osp.exists

    def spy(p):
        seen.append(p)
        return False
    a = app()
    a.document_root = root if root else "/"
    env = {"REQUEST_METHOD": "GET", "PATH_INFO": path.encode("utf-8").decode("latin-1"), "QUERY_STRING": "",
           "SERVER_NAME": "srv", "SERVER_PORT": "80", "SERVER_PROTOCOL": "HTTP/1.1", "wsgi.url_scheme": "http",
           "wsgi.input": io.BytesIO(b""), "wsgi.errors": io.StringIO()}
    osp.exists = spy
    try:
        b"".join(a(env, lambda s, h: None))
    finally:
        osp.exists = real
    got = seen[0] if seen else "?"
    if not root:
        got = got[1:] if got.startswith("/") else got
    return got


def oracle(case):
    t = case.split()
    if t[1] != "req":
        return []
    path, method, index = unhx(t[2]).decode(), t[3], t[4] == "1"
    sb = sandbox()
    calls, body, opened, root = do_request(case)
    if calls is None:
        return []          # escapes are C01's business
    rootreal = os.path.realpath(root)       # the root this request was served under (every spelling resolves to a tree)
    bad = None
    for o in opened:
        ro = os.path.realpath(o)
        if not (ro == rootreal or ro.startswith(rootreal + os.sep)):
            bad = "file outside the document root was opened: %s" % os.path.relpath(ro, sb["base"])
            break
    text = body.decode("utf-8", "replace") if isinstance(body, bytes) else ""
    status = calls[0][0][:3] if calls else "none"
    if not bad:
        # only regular files are ever opened and served: not a device, a socket or a pipe that sits in the root
        for o in opened:
            if os.path.exists(o) and not os.path.isfile(o) and not os.path.isdir(o):
                bad = "an object that is not a regular file was opened: %s" % os.path.relpath(o, sb["base"])
        norm0 = os.path.normpath("/" + path.lstrip("/")) if "\x00" not in path else None
        target = rootreal + norm0 if norm0 else None
        if not bad and target and os.path.exists(target) and not os.path.isfile(target) and not os.path.isdir(target) \
                and status == "200":
            bad = "200 for %s, which is neither a regular file nor a directory" % os.path.relpath(target, sb["base"])
    if not bad and "SECRET-" in text:
        bad = "content of a file outside the document root was returned"
    if not bad and "TOKEN-" in text and "<title>" not in text:
        # a file body: must be a readable regular file inside the root, byte exact, GET/HEAD only
        match = [p for p, c in sb["files"].items() if c == text]
        hd = {k.lower(): v for k, v in calls[0][1]}
        if method not in ("GET", "HEAD"):
            bad = "file content returned for method %s" % method
        elif not match or not os.path.realpath(match[0]).startswith(rootreal + os.sep):
            bad = "returned content is not that of a file inside the root"
        elif hd.get("content-length") != str(len(body)):
            bad = "Content-Length %r for a %d byte file" % (hd.get("content-length"), len(body))
        elif not os.access(match[0], os.R_OK):       # (never true when the checks run as root)
            bad = "an unreadable file was served"
    if not bad and status == "200" and "<title>Index of" in text:
        if not index:
            bad = "directory listing although indexing is off"
        else:
            # which directory? resolve lexically like the property says
            norm = os.path.normpath("/" + path.lstrip("/"))
            d = rootreal + norm
            names = set(re.findall(r'<a href="[^"]*">([^<]*)</a>', text))
            names = {n.rstrip("/") for n in names}
            want = {n for n in os.listdir(d) if not (n[0] == "." and n[1:2] != ".") and not n.endswith("~")
                    and os.access(os.path.join(d, n), os.R_OK)}
            import html
            names = {html.unescape(n) for n in names}
            if os.path.realpath(d) != rootreal:
                want.add("..")
            if names != want:
                bad = "listing shows %r, the directory's visible entries are %r" % (sorted(names), sorted(want))
    if bad:
        return [Violation("c12:" + bad.split()[0], case, bad)]
    return []


def classify(case, obs):
    t = case.split()
    if t[1] != "req":
        return t[1]
    path = unhx(t[2]).decode()
    if path.startswith("/") and ".." not in path and "_private" not in path and "//" not in path:
        return "trivial-plain-path"
    return "req-" + ("noslash" if not path.startswith("/") else "dots")
