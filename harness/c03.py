"""C03 - before/after hooks run once, in order, around every dispatched request."""
import itertools

from harness.core import Violation
from harness import wsgi_common as W

LEAN_TARGETS = ["PoorProofs.Props.C03"]
AUDIT_IMPORTS = ["PoorProofs.Props.C03"]
LEAN_FILES = ["PoorModel/Wsgi.lean", "PoorProofs/Lemmas/Wsgi.lean", "PoorProofs/Props/C03.lean"]
THEOREMS = ["Poor.Props.C03.runBefore_all", "Poor.Props.C03.runBefore_stop", "Poor.Props.C03.dispatch_order",
            "Poor.Props.C03.dispatch_stopped", "Poor.Props.C03.runAfter_same", "Poor.Props.C03.runAfter_replace",
            "Poor.Props.C03.runAfter_fail", "Poor.Props.C03.runAfter_garbage",
            "Poor.Props.C03.after_on_every_response"]
TRUSTED_BASE = ["model Poor.Wsgi: all 11 handler_from_before call sites are the single `runBefore` step at the head of "
                "`dispatch` (tied to wsgi.py by the self-recorded hook traces of the correspondence run)"]
ASSUMPTIONS = ["hooks are identified by their registration index"]
RULE = ("0-3 before x 0-3 after hooks with behaviours {pass, abort status, abort response, raise, replace, return None} x "
        "endpoint behaviours x 8 request kinds x user status/exception handlers present/absent; "
        "non-trivial = at least one hook is registered")
EXHAUSTIVE = {"quick": False, "thorough": True}


def generate(rng, tier):
    W.pool()
    repl = W.register(W.f_resp(lambda: __import__("poorwsgi.response", fromlist=["x"]).Response(b"replaced", status_code=202)))
    resp = W.pool()["resps"][2]
    before_b = ["ret~N", "ab~403~0~0", "abr~" + resp.tok[1:], "exc~2", "ret~S78"]
    W.register(W.f_str("x"))
    after_b = ["same", "ab~503~0~0", "abr~" + resp.tok[1:], "exc~2", W.beh_ret(repl), "ret~N", "ret~S78", "ret~X"]
    end_b = ["ret~S78", "ab~404~0~0", "abr~" + resp.tok[1:], "exc~0", "ret~N", "ret~X"]
    cases = []
    maxh = 3 if tier == "thorough" else 2
    for route in W.ROUTES:
        for nb in range(0, maxh + 1):
            for na in range(0, maxh + 1):
                bcombos = list(itertools.product(before_b, repeat=nb))
                acombos = list(itertools.product(after_b, repeat=na))
                for bs in bcombos:
                    for as_ in acombos:
                        if tier != "thorough" and rng.random() > 0.12:
                            continue
                        if tier == "thorough" and nb + na > 4 and rng.random() > 0.08:
                            continue
                        e = rng.choice(end_b)
                        handlers = rng.random() < 0.4
                        prog = {"e": e}
                        for i, b in enumerate(bs):
                            prog["b%d" % i] = b
                        for j, a in enumerate(as_):
                            prog["a%d" % j] = a
                        us, eh = ([403, 404, 500], [2]) if handlers else ([], [])
                        for c in us:
                            prog["s%d" % c] = "ret~S78"
                        if eh:
                            prog["x0"] = "ret~S78"
                        cases.append(W.mk_case("C03", route, "ok", nb, na, us, eh, False, prog))
    for ctor in ("exc~5", "ab~400~0~0", "conn"):
        cases.append(W.mk_case("C03", "hit", ctor, 2, 2, [], [], False, {}))
    # built-in exception classes (the ones `except` clauses of the framework itself name) raised by a before hook, the
    # endpoint or an after hook, on every request kind, with and without a catch-all exception handler
    for route in W.ROUTES:
        for cls in sorted(W.BUILTIN_EXC):
            for role in ("b0", "b1", "e", "a0"):
                if role == "e" and route not in W.ENDPOINT_ROUTES:
                    continue
                if tier != "thorough" and rng.random() > 0.5:
                    continue
                eh = [9] if rng.random() < 0.5 else []
                prog = {role: "exc~%d" % cls}
                if eh:
                    prog["x0"] = "ret~S78"
                cases.append(W.mk_case("C03", route, "ok", 2, 2, [], eh, False, prog))
    # what the first after hook is handed when the response came out of a chain of handlers: the endpoint (or an
    # earlier after hook) raises, the exception handler aborts with a status, the status handler returns a plain
    # value - every shape an endpoint may return
    p = W.pool()
    shapes = [W.beh_ret(f) for f in (W.f_str("handled"), W.f_bytes(b"hb"), W.f_json({"h": 1}), W.F_NONE,
                                     p["tuples"][1], p["tuples"][12], p["resps"][2])]
    for f in (W.f_str("handled"), W.f_bytes(b"hb"), W.f_json({"h": 1})):
        W.register(f)
    for shape in shapes:
        for code in (404, 418, 500):
            for na in (1, 2):
                for route in ("hit", "rx"):
                    cases.append(W.mk_case("C03", route, "ok", 1, na, [code], [0], False,
                                           {"e": "exc~0", "x0": "ab~%d~0~0" % code, "s%d" % code: shape}))
                    cases.append(W.mk_case("C03", route, "ok", 0, na, [code], [], False,
                                           {"e": "ab~%d~0~0" % code, "s%d" % code: shape}))
                cases.append(W.mk_case("C03", "hit", "ok", 0, na + 1, [code], [0], False,
                                       {"e": "ret~S78", "a0": "exc~0", "x0": "ab~%d~0~0" % code, "s%d" % code: shape}))
    return cases


def observe(case):
    return W.observe(case)


to_model = W.to_model


def fails_after(tok):
    return not (tok == "same" or tok.startswith("ret~R") or tok in ("ret~N", "ret~S78") or tok.startswith("ret~S"))


def oracle(case):
    """trace-shape oracle, from the property text"""
    c = W.parse_case(case)
    trace, outcome, seen = W.run_case(case)
    if outcome[0] == "escaped":
        return []          # C01's business
    bad = None
    bev = [t for t in trace if t.startswith("b")]
    aev = [t for t in trace if t.startswith("a")]
    raw = [t for t in trace if t.startswith("raw")]
    if c["ctor"] != "ok":
        if bev or "e" in trace:
            bad = "hooks/endpoint ran although request construction failed"
    else:
        # before hooks: the prefix up to and including the first that does not pass
        stop = None
        for i in range(c["nb"]):
            b = c["prog"].get("b%d" % i, "ret~N")
            if not b.startswith("ret~"):
                stop = i
                break
        want_b = ["b%d" % i for i in range(c["nb"] if stop is None else stop + 1)]
        if bev != want_b:
            bad = "before hooks ran as %s, required %s" % (bev, want_b)
        elif "e" in trace:
            if stop is not None:
                bad = "endpoint ran although before hook %d stopped the request" % stop
            elif c["route"] not in W.ENDPOINT_ROUTES:
                bad = "an endpoint ran for request kind %s" % c["route"]
            elif trace.count("e") != 1:
                bad = "endpoint ran %d times" % trace.count("e")
            elif bev and trace.index("e") < trace.index(bev[-1]):
                bad = "endpoint ran before the before hooks finished"
        elif stop is None and c["route"] in W.ENDPOINT_ROUTES:
            bad = "endpoint did not run although every before hook passed"
        if not bad and c["route"] in W.ENDPOINT_ROUTES and seen and not all(s[1] for s in seen):
            bad = "a before hook could not see the chosen endpoint on the request"
        # ... under the documented rule (Request.uri_rule: the route's rule, '/*' for the default, directory and file
        # handler, '/debug-info' for the debug page)
        want_rule = {"hit": "/hit", "rx": "/rx/<n:int>", "raw": "/raw/(?P<w>\\w+)", "dbg": "/debug-info", "dbgn": "/debug-info",
                     "default": "/*", "defn": "/*", "file": "/*", "dir": "/*"}.get(c["route"])
        if not bad and want_rule and seen and any(s[0] != want_rule for s in seen):
            bad = "a before hook saw the rule %r on the request, the chosen endpoint's rule is %r" % (
                [s[0] for s in seen], want_rule)
        # ... and what the path gave to the chosen endpoint, by name (the hook may authorise on it)
        want_args = {"rx": {"n": 12}, "raw": {"w": "ab"}}.get(c["route"])
        if not bad and want_args is not None and seen and any(s[2] != want_args for s in seen):
            bad = "a before hook saw the path arguments %r on the request, the chosen endpoint is given %r" % (
                [s[2] for s in seen], want_args)
    if not bad and outcome[0] != "silent" or (not bad and aev):
        silent_pre = outcome[0] == "silent" and not aev
        if not silent_pre:
            stop = None
            for j in range(c["na"]):
                if fails_after(c["prog"].get("a%d" % j, "same")):
                    stop = j
                    break
            want_a = ["a%d" % j for j in range(c["na"] if stop is None else stop + 1)]
            if aev != want_a:
                bad = "after hooks ran as %s, required %s" % (aev, want_a)
            elif aev:
                first_a = trace.index(aev[0])
                if any(t[0] in "be" for t in trace[first_a:]):
                    bad = "a before hook or the endpoint ran after an after hook"
            if not bad and outcome[0] == "answered":
                status = int(outcome[1][0][0][:3])
                if stop is None and c["na"]:
                    last = c["prog"].get("a%d" % (c["na"] - 1), "same")
                    if last.startswith("ret~R"):
                        want = int(last.split(",")[1])
                        if status != want:
                            bad = "client received %d, the last after hook returned %d" % (status, want)
                    # ... also when what it returned is falsy: None is the empty 204 answer, text is a 200 page
                    body = b"".join(outcome[2])
                    if last == "ret~N" and (status != 204 or body):
                        bad = "client received %d with %d body bytes, the last after hook returned None (204, no body)" % (
                            status, len(body))
                    if last == "ret~S78" and (status != 200 or body != b"x"):
                        bad = "client received %d %r, the last after hook returned the text 'x'" % (status, body[:20])
                if stop is not None and not c["us"] and not c["eh"]:
                    a = c["prog"]["a%d" % stop]
                    if (a.startswith("exc~") or a == "ret~X") and status != 500:
                        bad = "after hook %d failed but the client received %d instead of an error response" % (stop, status)
    if not bad and raw:
        bad = "after hook %s was handed a raw return value instead of a response object" % raw[0][3:]
    if bad:
        return [Violation("c03:" + bad.split()[0], case, bad)]
    return []


def classify(case, obs):
    c = W.parse_case(case)
    if c["nb"] + c["na"] == 0:
        return "trivial-no-hooks"
    return "%s-b%d-a%d" % (c["route"], c["nb"], c["na"])
