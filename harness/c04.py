"""C04 - aborts and exceptions become the documented HTTP answers."""
import itertools

from harness.core import Violation
from harness import wsgi_common as W

LEAN_TARGETS = ["PoorProofs.Props.C04"]
AUDIT_IMPORTS = ["PoorProofs.Props.C04"]
LEAN_FILES = ["PoorModel/Response.lean", "PoorModel/Wsgi.lean", "PoorProofs/Lemmas/Wsgi.lean",
              "PoorProofs/Props/C04.lean"]
THEOREMS = ["Poor.Props.C04.abort_user_handler", "Poor.Props.C04.abort_builtin_page",
            "Poor.Props.C04.abort_not_implemented", "Poor.Props.C04.abort_with_response",
            "Poor.Props.C04.abort_special", "Poor.Props.C04.first_matching_handler",
            "Poor.Props.C04.exception_user_handler", "Poor.Props.C04.exception_unhandled",
            "Poor.Props.C04.status_handler_failure", "Poor.Props.C04.status_handler_garbage",
            "Poor.Props.C04.exception_handler_failure", "Poor.Props.C04.C04_after_independent",
            "Poor.Props.C04.status_handler_aborts", "Poor.Props.C04.status_handler_aborts_special"]
TRUSTED_BASE = ["model Poor.Wsgi (state_from_table, error_from_table, the except clauses of __request__)",
                "exception classes are modelled by ids with isinstance as a fixed relation (base, derived, unrelated, Exception)"]
ASSUMPTIONS = ["abort(0) declines and abort(200) yields an empty 204: the two special codes of HTTPException.make_response"]
RULE = ("abort codes {0,200,204,304,400,401,403,404,405,416,418,500,501,503} x user status handlers present/absent x "
        "exception classes {base,derived,unrelated} x exception handlers in every order x handler return shapes x nested "
        "failures to depth 3 x 0/1/3 after hooks x 9 methods; non-trivial = a handler is consulted")
EXHAUSTIVE = {"quick": False, "thorough": True}

METHODS = ["HEAD", "GET", "POST", "PUT", "DELETE", "TRACE", "OPTIONS", "CONNECT", "PATCH"]


def generate(rng, tier):
    W.pool()
    p = W.pool()
    cases = []
    shapes = [W.f_str("handled"), W.f_bytes(b"hb"), W.f_json({"h": 1}), W.F_NONE, W.F_OBJ,
              p["tuples"][1], p["tuples"][12], p["resps"][2], p["resps"][14]]
    for f in shapes:
        W.register(f)
    # aborts
    for code in W.ABORT_CODES:
        for us in ([], [code], [code, 500], [500]):
            for na in (0, 1, 3):
                for shape in (shapes if tier == "thorough" else shapes[:5]):
                    prog = {"e": "ab~%d~0~0" % code}
                    for c in us:
                        prog["s%d" % c] = W.beh_ret(shape)
                    cases.append(W.mk_case("C04", "hit", "ok", 0, na, us, [], False, prog))
        cases.append(W.mk_case("C04", "hit", "ok", 1, 1, [], [], False, {"b0": "ab~%d~0~0" % code}))
        cases.append(W.mk_case("C04", "hit", "ok", 0, 0, [], [], False, {"e": "ab~%d~1~0" % code}))
        for kwv in (2, 3):       # abort(code, error=<tuple> / <text with % signs>)
            cases.append(W.mk_case("C04", "hit", "ok", 0, 0, [], [], False, {"e": "ab~%d~%d~0" % (code, kwv)}))
            cases.append(W.mk_case("C04", "hit", "ok", 0, 1, [code], [], False,
                                   {"e": "ab~%d~%d~0" % (code, kwv), "s%d" % code: "ret~S68616e646c6564"}))
    for f in p["resps"]:
        cases.append(W.mk_case("C04", "hit", "ok", 0, 2, [], [], False, {"e": "abr~" + f.tok[1:]}))
    # exceptions x handler orders
    for cls in (0, 1, 2, 5):
        for k in range(0, 4):
            for eh in itertools.permutations([0, 1, 2, 9], k):
                for na in ((0, 2) if tier == "thorough" else (0,)):
                    prog = {"e": "exc~%d" % cls}
                    for i in range(len(eh)):
                        prog["x%d" % i] = W.beh_ret(shapes[i % len(shapes)])
                    cases.append(W.mk_case("C04", "hit", "ok", 0, na, [], list(eh), False, prog))
    # handlers registered for some methods only: lookups are per (type, method) / (status, method)
    for meth in ("GET", "POST", "DELETE", "BREW"):
        for eh, ehm in (([0, 1], [4, 2]), ([0, 1], [2, 4]), ([9, 1, 0], [4, 16, 2]), ([1, 0], [16, 511]), ([2, 9], [511, 4])):
            for cls in (0, 1, 2):
                prog = {"e": "exc~%d" % cls}
                for i in range(len(eh)):
                    prog["x%d" % i] = W.beh_ret(shapes[i])
                cases.append(W.mk_case("C04", "hit", "ok", 0, 0, [], eh, False, prog, meth, ehm, None))
        for us, usm in (([404], [4]), ([404, 500], [2, 4]), ([418], [16]), ([404], [511])):
            for code in (404, 418):
                prog = {"e": "ab~%d~0~0" % code}
                for c in us:
                    prog["s%d" % c] = W.beh_ret(shapes[0])
                cases.append(W.mk_case("C04", "hit", "ok", 0, 0, us, [], False, prog, meth, None, usm))
    # an exception handler that aborts with a status: the status handler's value is interpreted like an endpoint value
    for code in (404, 418, 500):
        for shape in shapes:
            for na in (0, 1, 2):
                cases.append(W.mk_case("C04", "hit", "ok", 0, na, [code], [0], False,
                                       {"e": "exc~0", "x0": "ab~%d~0~0" % code, "s%d" % code: W.beh_ret(shape)}))
    # an exception handler that aborts: the built-in page of that status, with what the abort carries (the realm of a 401
    # on an application with Digest authentication, the error text) - as from an endpoint
    for code in (400, 401, 403, 404, 405, 501, 418):
        for digest in (False, True):
            for route in ("hit", "rx"):
                for kw in ("0~0", "2~0", "3~0"):
                    cases.append(W.mk_case("C04", route, "ok", 0, 1, [], [0], digest, {"e": "exc~0", "x0": "ab~%d~%s" % (code, kw)}))
                    cases.append(W.mk_case("C04", route, "ok", 0, 1, [], [], digest, {"e": "ab~%d~%s" % (code, kw)}))
    # nested failures to depth 3: endpoint fails -> its handler fails -> the 500 handler fails
    fails = ["exc~0", "exc~2", "ab~404~0~0", "ab~418~0~0", "ret~X", "sysexit", "conn", "base", "ab~0~0~0", "ab~500~0~0"]
    for f1 in fails:
        for f2 in fails:
            for f3 in (fails if tier == "thorough" else fails[:5]):
                cases.append(W.mk_case("C04", "hit", "ok", 0, 1, [404, 418, 500], [0], False,
                                       {"e": f1, "x0": f2, "s404": f2, "s418": f2, "s500": f3}))
    # built-in exception classes (the ones the framework's own `except` clauses name) from endpoints and handlers
    W.register(W.f_str("x"))            # S78
    for cls in sorted(W.BUILTIN_EXC):
        for route in W.ENDPOINT_ROUTES:
            for eh in ([], [9], [0, 9]):
                prog = {"e": "exc~%d" % cls}
                for i in range(len(eh)):
                    prog["x%d" % i] = "ret~S78"
                cases.append(W.mk_case("C04", route, "ok", 0, 1, [], eh, False, prog))
        cases.append(W.mk_case("C04", "hit", "ok", 0, 1, [404], [0], False, {"e": "exc~0", "x0": "exc~%d" % cls}))
        cases.append(W.mk_case("C04", "nf", "ok", 0, 1, [404], [], False, {"s404": "exc~%d" % cls}))
    n = 6000 if tier == "thorough" else 600
    for _ in range(n):
        cases.append(W.rand_case("C04", rng, 0.8))
    return cases


def observe(case):
    return W.observe(case)


to_model = W.to_model


def first_handler(cls, eh, ehm=None, bit=2):
    """index (among the handlers registered for the method) of the first one whose type matches"""
    k = 0
    for i, h in enumerate(eh):
        if ehm is not None and not (ehm[i] & bit):
            continue
        if h == 9 or h == cls or (cls == 1 and h == 0):
            return k, i
        k += 1
    return None


def status_of(tok):
    """status a successfully coerced `ret~` value must produce (None: unknown/any)"""
    if not tok.startswith("ret~"):
        return None
    v = tok[4:]
    if v[0] in "SBJ":
        return 200
    if v == "N":
        return 204
    if v[0] == "R":
        # a Declined response is the silent return, as for an endpoint
        return "silent" if v[1] == "d" else int(v.split(",")[1])
    return None


def oracle(case):
    """reference resolver for the simple scenarios, written from the property text"""
    c = W.parse_case(case)
    if c["ctor"] != "ok" or c["route"] not in W.ENDPOINT_ROUTES or c["nb"] != 0:
        return []
    e = c["prog"].get("e", "ret~N")
    afters = [c["prog"].get("a%d" % j, "same") for j in range(c["na"])]
    if any(a != "same" for a in afters):
        return []
    trace, outcome, _ = W.run_case(case)
    if outcome[0] == "escaped":
        return [Violation("c04-escaped", case, "unhandled exception %r instead of a 500 page" % (outcome[1],))]
    status = "silent" if outcome[0] == "silent" else int(outcome[1][0][0][:3])
    body = b"" if outcome[0] == "silent" else W.canon_body(b"".join(outcome[2])) or b"".join(outcome[2])
    bad = None
    if e.startswith("ab~"):
        _, code, kw, nr = e.split("~")
        code = int(code)
        if code == 0:
            if outcome[0] != "silent":
                bad = "abort(0) must decline the request"
        elif code == 200 and kw == "0" and 200 not in c["us"]:
            # the success status has no page: the empty success answer, every time it is asked for
            if status not in (200, 204) or body:
                bad = "abort(200) answered %s with %d body bytes instead of an empty success answer" % (status, len(body))
        elif code == 200 or kw == "1" or (code == 401 and c["digest"]):
            pass
        elif kw in ("2", "3") and code not in W.ERROR_KW_PAGES and code not in c["us"] and code in (304, 500):
            pass        # a page without an `error` parameter: the unexpected keyword is a failure of its own
        elif code in c["us"] and (c["usm"][c["us"].index(code)] & W.method_bit(c["meth"])):
            h = c["prog"].get("s%d" % code, "ret~N")
            if "s%d" % code not in trace:
                bad = "status handler for %d did not run" % code
            elif status_of(h) is not None and status != status_of(h):
                bad = "status handler's value was not interpreted like an endpoint value (status %s)" % status
        elif code in (304, 400, 401, 403, 404, 405, 500, 501):
            if status != code:
                bad = "abort(%d) answered %s instead of the built-in page" % (code, status)
        elif status != 501 or body != b"page:501":
            bad = "abort(%d) without handler answered %s instead of the 501 page" % (code, status)
    elif e.startswith("abr~"):
        want = int(e.split(",")[1])
        if e[4] == "d":
            if outcome[0] != "silent":
                bad = "abort(Declined()) must decline"
        elif status != want:
            bad = "abort(response) answered %s instead of the response's %d" % (status, want)
    elif e.startswith("exc~"):
        cls = int(e[4:])
        fh = first_handler(cls, c["eh"], c["ehm"], W.method_bit(c["meth"]))
        ran = [t for t in trace if t.startswith("x")]
        if fh is None:
            if ran:
                bad = "an exception handler ran although none matches type and method"
            elif 500 not in c["us"] and (status != 500 or body != b"page:500"):
                bad = "unhandled exception answered %s instead of 500" % status
        else:
            k, i = fh
            if ran[:1] != ["x%d" % k]:
                bad = "exception handler %s ran, required the first one matching type and method (#%d)" % (ran, i)
            else:
                h = c["prog"].get("x%d" % i, "ret~N")
                if status_of(h) is not None and status != status_of(h):
                    bad = "exception handler's value was not interpreted like an endpoint value (status %s)" % status
                elif h.startswith("ab~") and h.endswith("~0~0"):
                    code = int(h.split("~")[1])
                    if code not in c["us"] and code in (400, 401, 403, 404, 405, 501) and status != code:
                        # (the abort carries what the built-in page needs, e.g. the realm of a 401)
                        bad = "the exception handler aborted with %d: answered %s instead of the built-in page" % (code, status)
                    if code in c["us"] and (c["usm"][c["us"].index(code)] & W.method_bit(c["meth"])):
                        sh = c["prog"].get("s%d" % code, "ret~N")
                        if "s%d" % code not in trace:
                            bad = "status handler for %d did not run after the exception handler aborted with it" % code
                        elif status_of(sh) is not None and status != status_of(sh):
                            bad = ("the exception handler aborted with %d: the status handler's value was not "
                                   "interpreted like an endpoint value (status %s)" % (code, status))
    if bad:
        return [Violation("c04:" + e.split("~")[0], case, bad)]
    return []


def extra_oracles(rng, tier):
    """all 9 methods: the table lookups must be per method; + after-hook independence on the implementation"""
    out = []
    n = 0
    W.pool()
    W.register(W.f_str("h"))
    for method in METHODS:
        for code in (404, 418, 503):
            case = W.mk_case("C04", "hit", "ok", 0, 0, [code], [0], False,
                             {"e": "ab~%d~0~0" % code, "s%d" % code: "ret~S68"})
            trace, outcome, _ = W.run_case(case, method)
            n += 1
            if outcome[0] != "answered" or not outcome[1][0][0].startswith("200") or "s%d" % code not in trace:
                out.append(Violation("c04-method", {"case": case, "method": method},
                                     "status handler registered for all methods was not used for %s" % method))
    for _ in range(300 if tier == "thorough" else 60):
        base = W.rand_case("C04", rng, 0.9)
        c = W.parse_case(base)
        if c["ctor"] == "conn":
            continue
        prog = {k: v for k, v in c["prog"].items() if not k.startswith("a")}
        obs = []
        for na in (0, 1, 3):
            case = W.mk_case("C04", c["route"], c["ctor"], c["nb"], na, c["us"], c["eh"], c["digest"], prog)
            trace, outcome = W.run_case(case)[:2]
            o = W.canon([t for t in trace if not t.startswith("a")], outcome)
            obs.append(o)
        n += 1
        if len(set(obs)) != 1:
            out.append(Violation("c04-after-dependent", base, "the answer changes with the number of pass-through after hooks: %r" % obs))
    return out, {"evaluations": n, "distinct_nontrivial": n}


def classify(case, obs):
    c = W.parse_case(case)
    e = c["prog"].get("e", "")
    if e.startswith("ret~"):
        return "trivial-normal-return"
    return "%s-%s" % (e.split("~")[0], obs.split()[1][:8] if len(obs.split()) > 1 else obs[:8])
