"""JSON codec cases shared by C05 (dumps, through the real JSONResponse), C10 (parse_json_request) and C13 (the session's
loads on bytes): a canonical one-token rendering of values, generators for values and for (mostly almost valid) texts."""
import json

from harness.core import hx


def canon(v):
    if v is None:
        return "n"
    if v is True:
        return "t"
    if v is False:
        return "f"
    if isinstance(v, int):
        return "i%d" % v
    if isinstance(v, float):
        return "F"
    if isinstance(v, str):
        return "s" + ".".join(str(ord(c)) for c in v)
    if isinstance(v, (list, tuple)):
        return "[" + ",".join(canon(x) for x in v) + "]"
    if isinstance(v, dict):
        return "{" + ",".join(canon(k) + ":" + canon(x) for k, x in v.items()) + "}"
    raise TypeError(type(v).__name__)


def from_canon(tok):
    """inverse of canon (floats excluded)"""
    pos = [0]

    def cps():
        i = pos[0]
        j = i
        while j < len(tok) and (tok[j].isdigit() or tok[j] == "."):
            j += 1
        pos[0] = j
        return "".join(chr(int(x)) for x in tok[i:j].split(".")) if j > i else ""

    def val():
        c = tok[pos[0]]
        pos[0] += 1
        if c == "n":
            return None
        if c == "t":
            return True
        if c == "f":
            return False
        if c == "i":
            i = pos[0]
            j = i
            while j < len(tok) and (tok[j].isdigit() or tok[j] == "-"):
                j += 1
            pos[0] = j
            return int(tok[i:j])
        if c == "s":
            return cps()
        if c == "[":
            out = []
            if tok[pos[0]] == "]":
                pos[0] += 1
                return out
            while True:
                out.append(val())
                d = tok[pos[0]]
                pos[0] += 1
                if d == "]":
                    return out
        if c == "{":
            out = {}
            if tok[pos[0]] == "}":
                pos[0] += 1
                return out
            while True:
                pos[0] += 1          # the 's' of the key
                k = cps()
                pos[0] += 1          # ':'
                out[k] = val()
                d = tok[pos[0]]
                pos[0] += 1
                if d == "}":
                    return out
        raise ValueError(tok)
    return val()


def hasfloat(v):
    if isinstance(v, float):
        return True
    if isinstance(v, (list, tuple)):
        return any(hasfloat(x) for x in v)
    if isinstance(v, dict):
        return any(hasfloat(x) for x in v.values())
    return False


def show(v):
    return "float" if hasfloat(v) else canon(v)


CH = ["a", "Z", " ", '"', "\\", "/", "\n", "\r", "\t", "\b", "\f", "\x00", "\x1f", "\x7f", "\x80", "é", "ž", "€", "퟿", "",
      "￿", "\U00010000", "\U0001F600", "\U0010FFFF", "\ud800", "\udbff", "\udc00", "\udfff", "u", "0"]


def rand_str(rng):
    return "".join(rng.choice(CH) for _ in range(rng.choice([0, 1, 1, 2, 3, 6])))


def adjacent_pair(s):
    return any(0xD800 <= ord(a) <= 0xDBFF and 0xDC00 <= ord(b) <= 0xDFFF for a, b in zip(s, s[1:]))


def strings_of(v):
    if isinstance(v, str):
        yield v
    elif isinstance(v, (list, tuple)):
        for x in v:
            yield from strings_of(x)
    elif isinstance(v, dict):
        for k, x in v.items():
            yield k
            yield from strings_of(x)


def rand_value(rng, depth, top=None):
    r = rng.random()
    if top == "dict":
        r = 0.9
    elif top == "list":
        r = 0.6
    if depth <= 0 or r < 0.45:
        k = rng.randrange(7)
        if k == 0:
            return None
        if k == 1:
            return rng.random() < 0.5
        if k == 2:
            return rng.choice([0, 1, -1, 7, 10, -10, 123456789, 2 ** 63, -2 ** 64, 10 ** 30, rng.randrange(-1000, 1000)])
        return rand_str(rng)
    if r < 0.72:
        return [rand_value(rng, depth - 1) for _ in range(rng.choice([0, 1, 2, 3]))]
    return {rand_str(rng): rand_value(rng, depth - 1) for _ in range(rng.choice([0, 1, 2, 3]))}


HAND = ['', ' ', '1', '-', '-0', '01', '1.5', '1.', '1.e5', '1e5', '1E+5', '1e+', '1e', '1e-', '-1.0e-3x', '[1,]', '[,1]', '[1 2]',
        '{"a":1,}', '{"a" 1}', '{a:1}', '{"a":1,"a":2,"b":3}', '{"b":1,"a":2,"b":3}', 'nul', 'null', 'nulll', 'true', 'tru', 'falsee',
        'NaN', 'Infinity', '-Infinity', '-Infinit', 'Na', '[NaN,1]', '[NaN,]', '"\\ud800\\udc00"', '"\\udc00\\ud800"',
        '"\\ud800\\u0041"', '"\\ud800\\uZZZZ"', '"\\ud800\\u00"', '"\\ud800\\udc0"', '"\\ud800\\', '"\\ud800\\u', '"\\ud800\\udc00',
        '"\\ud800x"', '"\\ud800\\ud800\\udc00"', '"\\u00e9"', '"\\u00E9"', '"\\u00g9"', '"\\u123"', '"\\u1234', '"\\x41"', '"\\/"',
        '"\\a"', '"a\nb"', '"a\tb"', '"\x7f"', '"\\"', '"', '"abc', ' \t\n\r[ 1 , 2 ] \n', '[1]x', '[1] x', '﻿[1]', '[﻿1]',
        '\x0b1', '1\x0b', '\xa01', '[[[[[[1]]]]]]', '[[[[[[1]]]]]', '{"a":{"b":{"c":[{}]}}}', '{}', '[]', '[ ]', '{ }',
        '{"a":[1,2,{"b":null}],"c":"\\u0000"}', '1' * 4300, '1' * 4301, '-' + '1' * 4300, '-' + '1' * 4301, '[' + '1' * 4301 + ']',
        '1' * 4301 + '.5', '1' * 5000 + 'e1', '--1', '+1', '.5', '0x10', '1_000', '١', '"١"', '{"":1}', '{"a":1 , "b" : 2 }',
        '{ "a" : 1 }', '{"a":1}}', '[1,2', '{"a":', '{"a"', '{', '[', '[[', '"\\ud83d\\ude00"', '"\\uD83D\\uDE00"', '"\\ud83d \\ude00"',
        '-I', '-Infinity1', 'Infinityx', 'NaNa', '[-]', '-a', '0e', '0e1', '0.0', '-0.0', '00', '-00', '0 ', ' 0', '0\n', '1e1e1', '1.2.3',
        '1.5e', '1.5E-7', '"é"', '"\U0001F600"', '{"é": "ž"}', '["a", "b"]', '[1,\n2]', '{"a":\t1}', '"\\u00e9\\u00E9\\n\\r\\t\\b\\f\\/\\\\\\""']


def rand_texts(rng, n, top=None):
    out = []
    for _ in range(n):
        t = json.dumps(rand_value(rng, 3, top), ensure_ascii=rng.random() < 0.7)
        r = rng.random()
        if r < 0.45 and t:
            i = rng.randrange(len(t))
            k = rng.randrange(4)
            if k == 0:
                t = t[:i] + t[i + 1:]
            elif k == 1:
                t = t[:i] + rng.choice(['"', '\\', ',', ':', ' ', '[', ']', '{', '}', 'u', '1', '.', 'e', '-', '\n', '\x01']) + t[i:]
            elif k == 2:
                t = t[:i]
            else:
                t = t[:i] + rng.choice(['"', '\\', ',', ']', '}', 'x', 'D', 'g']) + t[i + 1:]
        elif r < 0.7:
            t = t.replace(", ", rng.choice([",", " ,\n", ",\t"])).replace(": ", rng.choice([":", " : "]))
        try:
            t.encode("utf-8")
        except UnicodeEncodeError:
            continue
        out.append(t)
    return out


def tok_text(t):
    return hx(t.encode("utf-8"))
