"""C16 - auth tokens are valid for at least one and at most two timeout periods."""
from fractions import Fraction

from harness.core import hx, unhx, Violation, excname

LEAN_TARGETS = ["PoorProofs.Props.C16"]
AUDIT_IMPORTS = ["PoorProofs.Props.C16"]
LEAN_FILES = ["PoorModel/Token.lean", "PoorProofs/Props/C16.lean"]
THEOREMS = ["Poor.Props.C16.valid_iff", "Poor.Props.C16.valid_of_lt", "Poor.Props.C16.invalid_of_ge",
            "Poor.Props.C16.check_same", "Poor.Props.C16.C16_windows", "Poor.Props.C16.C16_none",
            "Poor.Props.C16.C16_separation", "Poor.Props.C16.C16_separation_full_false",
            "Poor.Props.C16.C16_partial"]
TRUSTED_BASE = ["model Poor.Token hand-written from session.py:58-94",
                "hash = uninterpreted function; injectivity is a hypothesis of the theorems, never an axiom",
                "time in exact microsecond ticks; float rounding of time()/timeout is runtime behaviour"]
ASSUMPTIONS = ["sha256 does not collide on the sampled texts",
               "clock injected by rebinding poorwsgi.session.time"]
RULE = ("T in {1,2,3,5,7,60,300} x (t0,t1) on a grid of step T/4 over [0,4T] shifted by {0,+-1us}, epochs near "
        "2^31 and today; all ordered pairs of a secret/client pool; T in {None,0}; "
        "non-trivial = t0 != t1 or foreign secret/client")
EXHAUSTIVE = {"quick": True, "thorough": True}
TPS = 1000000

POOL = ["", "k", "k1", "None", "sekret", "ž", "a b", "0", "13", "c", "0c", "Mozilla/5.0 (X11)",
        # strings that differ only in white space at their edges, or in letter case
        " ", " k", "k ", "k\n", "\tk", "\u00a0k", "K", "sekret ", "Sekret",
        # strings that differ only in characters outside Latin-1 (and one pair inside it)
        "š", "heslo-ž", "heslo-š", "ключ-Иван", "ключ-Пётр", "😀", "😁", "é", "è",
        # characters that mean something to %-formatting, str.format and templates
        "100%", "a%%b", "key%s", "%d", "%(x)s", "{0}", "{}", "$x"]


def mk(T, t0, t1, s0, c0, s1, c1):
    return "C16 verify %s %d %d %s %s %s %s" % ("-" if T is None else T, t0, t1, hx(s0), hx(c0), hx(s1), hx(c1))


def generate(rng, tier):
    cases = []
    bases = [0, (2 ** 31 - 1000) * TPS, 1790726400 * TPS]
    for T in (1, 2, 3, 5, 7, 60, 300):
        P = T * TPS
        grid = []
        for i in range(0, 17):
            for sh in (0, 1, -1):
                grid.append(i * P // 4 + sh)
        for base in (bases if tier == "thorough" else bases[:1] + [rng.choice(bases[1:])]):
            b = base - base % P + (0 if base == 0 else P * 3)
            for a in grid:
                for c in grid:
                    t0, t1 = b + a, b + c
                    if t0 < 0 or t1 < t0:
                        continue
                    if tier != "thorough" and rng.random() > 0.35:
                        continue
                    cases.append(mk(T, t0, t1, "k", "c", "k", "c"))
    # cross check: all ordered pairs
    for s0 in POOL:
        for s1 in POOL:
            for (c0, c1) in (("c", "c"), (s1, s0), ("", "")):
                for T in (None, 0, 100):
                    cases.append(mk(T, 100 * TPS, 1100 * TPS if T else 5 * TPS, s0, c0, s1, c1))
                    cases.append(mk(T, 100 * TPS, 100 * TPS, c0, s0, c1, s1))
    for T in (None, 0):
        for t0, t1 in ((0, 0), (5 * TPS, 10 ** 9 * TPS), (1790726400 * TPS, 1790726400 * TPS + 1)):
            cases.append(mk(T, t0, t1, "k", "c", "k", "c"))
    return cases


def parse(case):
    t = case.split()
    T = None if t[2] == "-" else int(t[2])
    return T, int(t[3]), int(t[4]), [unhx(x).decode() for x in t[5:9]]


class Clock:
    def __init__(self):
        self.now = 0.0

    def __call__(self):
        return self.now


_clock = Clock()


def run_impl(case):
    import poorwsgi.session as sess
    T, t0, t1, (s0, c0, s1, c1) = parse(case)
    sess.time = _clock
    _clock.now = t0 / TPS
    tok = sess.get_token(s0, c0, timeout=T)
    _clock.now = t1 / TPS
    return bool(sess.check_token(tok, s1, c1, timeout=T))


def observe(case):
    try:
        return "1" if run_impl(case) else "0"
    except Exception as err:
        return excname(err)


def oracle(case):
    T, t0, t1, (s0, c0, s1, c1) = parse(case)
    try:
        got = run_impl(case)
    except Exception as err:
        key = "token-timeout-zero-raises" if T == 0 else "token-raises"
        return [Violation(key, case, "get_token/check_token raised %r" % (err,))]
    same = (s0, c0) == (s1, c1)
    if not same:
        if got:
            # which defect class: delimiter-free concatenation, or something new?
            texts0 = {"%s%s%s" % (s0, e, c0) for e in expiries(T, t0, issue=True)}
            texts1 = {"%s%s%s" % (s1, e, c1) for e in expiries(T, t1, issue=False)}
            key = "token-concat-ambiguity" if texts0 & texts1 else "token-foreign-accept"
            return [Violation(key, case, "token issued for (%r,%r) verifies under (%r,%r)" % (s0, c0, s1, c1))]
        return []
    if not T:
        want = True
    else:
        w0 = Fraction(t0, TPS) // T
        w1 = Fraction(t1, TPS) // T
        want = w1 <= w0 + 1
        d = Fraction(t1 - t0, TPS)
        assert not (d < T and not want) and not (d >= 2 * T and want)
    if got != want:
        return [Violation("token-window", case, "issued at %s, checked at %s, T=%s: verify=%s, required %s"
                          % (t0 / TPS, t1 / TPS, T, got, want))]
    return []


def extra_oracles(rng, tier):
    """the call sites (results.py unauthorized, digest.py check_digest): the nonce of a real 401 challenge, used
    with correct credentials at a later instant, is accepted exactly within the documented windows - for the
    timeout and client string the application passes on"""
    import re
    from harness import c11
    out, n, hit = [], 0, {"accepted": 0, "stale": 0}
    users = []
    alg, qop, realm, user, pw = "SHA-256", "auth", "Zone", "bob", "pw"
    stored = c11.hexd(c11.real_hash(alg), "%s:%s:%s" % (user, realm, pw))
    users = [(realm, user, stored)]
    for T in (1, 2, 7, 300, None):
        app = c11.get_app(alg, qop, users, realm, None, secret="c16-secret", timeout=T)
        step = (T or 4) * TPS // 4
        for base in (0, 3 * (T or 1) * TPS, 1700000000 * TPS):
            for i in range(0, 9 if tier == "quick" else 13):
                for d in (-1, 0, 1):
                    t0 = base + (0 if T is None else 0)
                    t1 = base + i * step + d
                    if t1 < t0:
                        continue
                    for agent0, agent1 in (("UA/1", "UA/1"), ("UA/1", "UA/2"), (None, None)):
                        n += 1
                        status, ran, www, _ = c11.call(app, "GET", "/p/x", "", None, agent0, now_ticks=t0)
                        m = re.search(r'nonce="([0-9a-f]+)"', www)
                        if status != 401 or not m:
                            out.append(Violation("c16-e2e:challenge", "T=%s t0=%d" % (T, t0),
                                                 "no Digest challenge with a nonce: %d %r" % (status, www[:80])))
                            continue
                        f = c11.client_fields(c11.real_hash(alg), alg, qop, user, realm, pw, m.group(1), "GET", "/p/x",
                                              c11.opaque_of())
                        status, ran, www, _ = c11.call(app, "GET", "/p/x", "", c11.render(f), agent1, now_ticks=t1)
                        if not T:
                            want = agent0 == agent1
                        else:
                            want = agent0 == agent1 and (Fraction(t1, TPS) // T) <= (Fraction(t0, TPS) // T) + 1
                        got = status == 200 and ran == [user]
                        hit["accepted" if got else "stale"] += 1
                        if got != want:
                            out.append(Violation(
                                "c16-e2e:window", "T=%s issued %s checked %s agents %r/%r" % (T, t0 / TPS, t1 / TPS, agent0, agent1),
                                "nonce of the 401 challenge issued at %s, credentials sent at %s (auth_timeout %s, "
                                "client %r -> %r): %s, required %s" % (t0 / TPS, t1 / TPS, T, agent0, agent1,
                                                                      "accepted" if got else "refused (%d)" % status,
                                                                      "accepted" if want else "refused")))
    # secrets and clients that are not text (numbers, booleans, bytes): what counts is the text they are written as -
    # values written differently never verify each other's tokens, in whatever order they were used before
    from poorwsgi.session import get_token, check_token
    import poorwsgi.session as S
    odd = [1, True, 1.0, 0, False, 0.0, None, "1", "True", "None", b"k", bytearray(b"k"), 10, "10",
           # a bytes secret and its text twin; random key bytes that are not UTF-8 and differ in one of them
           "k", "b'k'", b"\xff\x01key", b"\xfe\x01key", "\ufffd\x01key"]
    old_time = S.time
    S.time = lambda: 1000.0
    try:
        for T in (None, 0, 300):
            for a in odd:
                for b in odd:
                    n += 1
                    try:
                        tok = get_token(a, "agent", timeout=T)
                        ok1 = check_token(tok, b, "agent", timeout=T)
                        tok2 = get_token("s", a, timeout=T)
                        ok2 = check_token(tok2, "s", b, timeout=T)
                    except Exception as err:
                        out.append(Violation("token-raises", "secret/client %r then %r, T=%s" % (a, b, T),
                                             "get_token/check_token raised %r" % (err,)))
                        continue
                    same = "%s" % (a,) == "%s" % (b,)
                    if (ok1, ok2) != (same, same):
                        out.append(Violation("c16-nontext", "secret/client %r then %r, T=%s" % (a, b, T),
                                             "tokens of %r verified under %r: %r (as secret, as client), written the same: %s"
                                             % (a, b, (ok1, ok2), same)))
    finally:
        S.time = old_time
    # anything handed in as a token: refused without an error (a nonce comes straight from the Authorization header)
    S.time = lambda: 1000.0
    try:
        good = get_token("k", "c", timeout=300)
        for T in (None, 0, 300):
            for tok in ("", "zz", "é", "\udcff", good + "é", "é" + good[1:], good.upper(), " " + good, good + " ", good[:-1],
                        "0" * 64, "\x00", "g" * 64, good.encode().decode("latin-1")):
                n += 1
                try:
                    got = check_token(tok, "k", "c", timeout=T)
                except Exception as err:
                    out.append(Violation("token-raises", "check_token(%r, T=%s)" % (tok[:20], T), "raised %r" % (err,)))
                    continue
                if got and not (T == 300 and tok == good):
                    out.append(Violation("c16-malformed-accepted", "check_token(%r, T=%s)" % (tok[:20], T), "a token that was never issued verifies"))
    finally:
        S.time = old_time
    # timeouts that are not whole seconds: the same window rule (instants on a grid of T/4, all exactly representable)
    from fractions import Fraction as Fr
    clock = [0.0]
    S.time = lambda: clock[0]
    try:
        for T in (0.5, 1.5, 2.5, 7.5):
            for base in (0.0, 3 * T, 1024 * T):
                for i in range(0, 13):
                    for j in range(i, 13):
                        t0, t1 = base + i * T / 4, base + j * T / 4
                        n += 1
                        try:
                            clock[0] = t0
                            tok = get_token("k", "c", timeout=T)
                            clock[0] = t1
                            got = check_token(tok, "k", "c", timeout=T)
                        except Exception as err:
                            out.append(Violation("token-raises", "T=%s t0=%s t1=%s" % (T, t0, t1), "raised %r" % (err,)))
                            continue
                        w0, w1 = Fr(t0) / Fr(T), Fr(t1) / Fr(T)
                        want = 0 <= (w1.numerator // w1.denominator) - (w0.numerator // w0.denominator) <= 1
                        if got != want:
                            out.append(Violation("c16-float-timeout", "T=%s t0=%s t1=%s" % (T, t0, t1),
                                                 "token issued at %s checked at %s with T=%s: %s, the windows say %s"
                                                 % (t0, t1, T, got, want)))
    finally:
        S.time = old_time
    return out, {"evaluations": n, "distinct_nontrivial": n, "e2e_outcomes": hit}


def expiries(T, t, issue):
    if not T:
        return [""]
    now = int(Fraction(t, TPS) // T) * T
    return [now + 2 * T] if issue else [now + T, now + 2 * T]


def classify(case, obs):
    T, t0, t1, (s0, c0, s1, c1) = parse(case)
    if (s0, c0) != (s1, c1):
        return "foreign-" + obs
    if t0 == t1:
        return "trivial-same-instant"
    return "T=%s-%s" % (T, obs)
