"""C10 - query, form and JSON data reach handlers exactly as sent."""
import io
import json
import os
import urllib.parse

from harness import json_common as JC
from harness.core import hx, unhx, Violation, excname

LEAN_TARGETS = ["PoorProofs.Props.C10"]
AUDIT_IMPORTS = ["PoorProofs.Props.C10"]
LEAN_FILES = ["PoorModel/Query.lean", "PoorProofs/Lemmas/Query.lean", "PoorProofs/Props/C10.lean", "PoorModel/Json.lean",
              "PoorProofs/Lemmas/Json.lean", "PoorProofs/Lemmas/JsonAny.lean", "PoorProofs/Props/JsonCodec.lean",
              "PoorModel/ReadAll.lean", "PoorProofs/Lemmas/ReadAll.lean"]
THEOREMS = ["Poor.Query.unquote_Enc", "Poor.Query.quotePlus_Enc", "Poor.Props.C10.C10_json_value",
            "Poor.Props.C10.C10_json_any_spelling", "Poor.Json.loads_txt", "Poor.Json.Txt_dump", "Poor.Json.scanStr_enc",
            "Poor.Props.JsonCodec.loadBytes_dumpBytes",
            "Poor.Props.C10.C10_roundtrip_any_encoding",
            "Poor.Props.C10.C10_roundtrip",
            "Poor.Props.C10.C10_query_args",
            "Poor.Props.C10.C10_group",
            "Poor.Props.C10.C10_args",
            "Poor.Props.C10.C10_form",
            "Poor.Props.C10.C10_args_form_agree",
            "Poor.Props.C10.C10_blank",
            "Poor.Props.C10.C10_json_accessors",
            "Poor.Props.C10.C10_reads_prefix", "Poor.Props.C10.C10_reads_conserve",
            "Poor.ReadAll.readLength_spec", "Poor.Props.C10.C10_body_in_pieces", "Poor.Props.C10.C10_body_cut_short",
            "Poor.Props.C10.C10_json_in_pieces",
            "Poor.Props.C10.C10_taken_le",
            "Poor.Props.C10.C10_taken_prefix",
            "Poor.Props.C10.C10_no_body_no_read",
            "Poor.Props.C10.C10_data",
            "Poor.Props.C10.C10_plan_json",
            "Poor.Props.C10.C10_headers",
            "Poor.Props.C10.C10_headers_case"]
TRUSTED_BASE = ["model Poor.Query: urllib.parse.unquote/parse_qsl/parse_qs/quote_plus/urlencode re-stated from CPython 3.12 "
                "(compared with the real functions on every run); U+FFFD substitution for escapes that are not UTF-8 is not "
                "modelled (those inputs are reported as model-unsupported)",
                "json.loads is an external function: the model starts from the value it returns",
                "Args / FieldStorage(read_urlencoded) / JsonDict / JsonList accessors and the body plan of Request.__init__ "
                "hand-written from request.py:384-480, 719-735, 783-794 and fieldstorage.py:35-108, 233-395, 549-562",
                "model Poor.ReadAll of fieldstorage.read_length (the loop that takes a body arriving in pieces), hand-written "
                "and compared with the real function on scripted inputs on every run; that the three call sites (auto_data "
                "buffer, Request.read, read_urlencoded) use it is observed by the stream oracle, not modelled",
                "multipart bodies are read line by line: their byte budget is the reader contract of C09 and the parser of C08; "
                "the oracle here measures it on an instrumented stream"]
ASSUMPTIONS = ["valid JSON = accepted by CPython's json.loads (which also accepts NaN/Infinity)",
               "keys and values are sequences of Unicode scalar values (a lone surrogate cannot be percent-encoded at all)",
               "environ keys of headers are ASCII"]
RULE = ("pair lists of length 0-8 over keys/values from {ASCII, space, '&', '=', '+', '%', '#', ';', non-ASCII, empty}, encoded "
        "with upper/lower-case %XX, optional encoding of safe characters and '+' or %20 for space; raw query strings and bodies "
        "from a separator alphabet; JSON values of depth <= 3 with empty containers and non-ASCII text in utf-8/utf-16/latin-1; "
        "methods with and without body; configured and other content types; auto_* switches, keep_blank_values, strict_parsing, "
        "data_size/cached_size around the body size; an instrumented wsgi.input with trailing bytes; "
        "non-trivial = repeated key, blank value, escape, non-ASCII, nested JSON or a non-default switch")
EXHAUSTIVE = {"quick": False, "thorough": False}

ALPHA = ["a", "b", "B", " ", "&", "=", "+", "%", "#", ";", "é", "ž", "\U0001F600", "", "1", "%41", "%zz", "\u00a0", "/", "?"]
RAW = ["a", "b", "=", "&", "+", "%", "%4", "%41", "%C3%A9", "%c3", "%E2%82%AC", " ", ";", "é", "", "%", "%%", "%2", "%g0", "%0G"]
TRAIL = b"GET /next HTTP/1.1\r\nHost: x\r\n\r\n"


def pairs_tok(ps):
    return ",".join("%s=%s" % (hx(k), hx(v)) for k, v in ps) or "none"


def parse_pairs(tok):
    return [] if tok == "none" else [tuple(unhx(x).decode() for x in kv.split("=")) for kv in tok.split(",")]


def rand_text(rng, n, alpha=ALPHA):
    return "".join(rng.choice(alpha) for _ in range(n))


def rand_pairs(rng, maxlen=8):
    keys = [rand_text(rng, rng.randrange(0, 4)) for _ in range(3)] + ["k", "a b"]
    return [(rng.choice(keys), rng.choice(["", "", rand_text(rng, rng.randrange(1, 5)), "v"])) for _ in range(rng.randrange(0, maxlen + 1))]


def enc_component(rng, s, style):
    """a percent-encoding of s other than the canonical one (style 0 = urllib's own)"""
    if style == 0:
        return urllib.parse.quote_plus(s)
    out = []
    for ch in s:
        if ch == " " and rng.random() < 0.5:
            out.append("+")
            continue
        safe = ch.isascii() and (ch.isalnum() or ch in "_.-~")
        if safe and rng.random() < 0.8:
            out.append(ch)
            continue
        if ch.isascii() and ch in "!*'(),:@/?$;" and rng.random() < 0.5:
            out.append(ch)        # sub-delimiters a client may leave alone
            continue
        for b in ch.encode("utf-8"):
            out.append(("%%%02x" if rng.random() < 0.5 else "%%%02X") % b)
    return "".join(out)


def encode_pairs(rng, ps, style):
    # a blank value may be written as a bare key, without '=' (what a form or a hand-written link does)
    return "&".join(enc_component(rng, k, style) + ("" if v == "" and k != "" and rng.random() < 0.5 else
                                                    "=" + enc_component(rng, v, style)) for k, v in ps)


# ---------------------------------------------------------------------------- JSON value code

def j_code(v):
    if v is None:
        return "n"
    if v is True:
        return "t"
    if v is False:
        return "f"
    if isinstance(v, (int, float)):
        return "#" + hx(repr(v))
    if isinstance(v, str):
        return "s" + hx(v)
    if isinstance(v, (list, tuple)):
        return ",".join(["a%d" % len(v)] + [j_code(x) for x in v])
    if isinstance(v, dict):
        return ",".join(["o%d" % len(v)] + ["%s,%s" % (hx(k), j_code(x)) for k, x in v.items()])
    raise TypeError(type(v))


def rand_json(rng, depth):
    r = rng.random()
    if depth == 0 or r < 0.35:
        return rng.choice([None, True, False, 0, 1, -7, 2 ** 70, 1.5, -0.25, "", "x", "é", "žluť\U0001F600", "a b", "null"])
    if r < 0.65:
        return [rand_json(rng, depth - 1) for _ in range(rng.randrange(0, 4))]
    return {rng.choice(["a", "b", "", "é", "k"]): rand_json(rng, depth - 1) for _ in range(rng.randrange(0, 4))}


# ---------------------------------------------------------------------------- the real thing

class Spy(io.RawIOBase):
    """wsgi.input that records how far it was read"""

    def __init__(self, data, piece=None):
        super().__init__()
        self.b = io.BytesIO(data)
        self.calls = []
        self.piece = piece      # at most so many bytes per read call (what has arrived so far), None: everything asked for

    def read(self, n=-1):
        if self.piece is not None and (n is None or n < 0 or n > self.piece):
            n = self.piece
        r = self.b.read(n)
        self.calls.append(("read", n, len(r)))
        return r

    def readline(self, n=-1):
        r = self.b.readline(n)
        self.calls.append(("readline", n, len(r)))
        return r

    def readable(self):
        return True

    @property
    def pos(self):
        return self.b.tell()


_apps = {}
DEFAULTS = dict(auto_args=True, auto_form=True, auto_json=True, auto_data=True, keep_blank_values=0, strict_parsing=0,
                data_size=65365, cached_size=65365)


def get_app(**cfg):
    from poorwsgi import Application, state
    full = dict(DEFAULTS)
    full.update(cfg)
    key = tuple(sorted(full.items()))
    if key in _apps:
        return _apps[key]
    app = Application("verif_c10_%d_%d" % (os.getpid(), len(_apps)))
    for k, v in full.items():
        setattr(app, k, v)

    def handler(req):
        req.environ["verif.run"].append(req)
        fn = req.environ.get("verif.fn")
        if fn:
            req.environ["verif.out"].append(fn(req))
        return "ok"
    app.set_route("/x", handler, state.METHOD_ALL)
    _apps[key] = app
    return app


def environ(method="GET", query="", body=None, ctype=None, cl="auto", proto="HTTP/1.1", stream=None, extra=None):
    env = {"REQUEST_METHOD": method, "PATH_INFO": "/x", "QUERY_STRING": query, "SERVER_NAME": "srv", "SERVER_PORT": "80",
           "SERVER_PROTOCOL": proto, "wsgi.url_scheme": "http", "wsgi.errors": io.StringIO(),
           "REQUEST_STARTTIME": 0.0, "verif.run": [], "verif.out": []}
    if stream is None:
        stream = Spy((body or b"") + TRAIL)
    env["wsgi.input"] = stream
    if ctype is not None:
        env["CONTENT_TYPE"] = ctype
    if cl == "auto":
        cl = len(body) if body is not None else None
    if cl is not None:
        env["CONTENT_LENGTH"] = str(cl)
    if extra:
        env.update(extra)
    return env


def call(app, env, fn=None):
    env["verif.fn"] = fn
    st = []
    body = b"".join(app(env, lambda s, h: st.append((s, h))))
    return int(st[0][0][:3]), env["verif.run"], env["verif.out"], body


def show_v(v):
    if v is None:
        return "-"
    if isinstance(v, list):
        return "n:" + ",".join(hx(x) for x in v)
    return "1:" + hx(v)


def show_list(l):
    return "[" + ",".join(hx(x) for x in l) + "]"


def acc_fn(which, key):
    def fn(req):
        f = getattr(req, which)
        try:
            return "%s %s %s %s" % (show_list(list(f.keys())), show_v(f.getvalue(key)),
                                    hx(f.getfirst(key)) if f.getfirst(key) is not None else "-", show_list(f.getlist(key)))
        except Exception as err:
            return excname(err)
    return fn


def show_j(v):
    return "-" if v is _MISSING else j_code(v)


_MISSING = object()


def json_fn(key):
    def fn(req):
        from poorwsgi.request import JsonDict, JsonList
        j = req.json
        try:
            if isinstance(j, dict) and hasattr(j, "getvalue"):
                return "dict %s %s %s" % (show_j(j.getvalue(key, _MISSING)), show_j(j.getfirst(key, _MISSING)),
                                          j_code(j.getlist(key)))
            if isinstance(j, list) and hasattr(j, "getvalue"):
                return "list %s %s %s" % (show_j(j.getvalue(key, _MISSING)), show_j(j.getfirst(key, _MISSING)),
                                          j_code(j.getlist(key)))
            return "scalar " + j_code(j)
        except Exception as err:
            return excname(err)
    return fn


def plan_request(t):
    """`plan|taken|data ad aj af ds jt ft cl h09 mime body`: build the Request directly"""
    from poorwsgi.request import Request, EmptyForm
    from poorwsgi.response import HTTPException
    ad, aj, af = t[2] == "1", t[3] == "1", t[4] == "1"
    ds, cl, h09 = int(t[5]), int(t[8]), t[9] == "1"
    mime, body = unhx(t[10]).decode(), unhx(t[11])
    app = get_app(auto_data=ad, auto_json=aj, auto_form=af, data_size=ds, cached_size=0)
    spy = Spy(body)
    ctype = mime + "; boundary=B" if mime.startswith("multipart/") else mime
    env = environ("POST", "", None, ctype if ctype else None, cl if cl != -1 else None,
                  "HTTP/0.9" if h09 else "HTTP/1.1", spy)
    try:
        req = Request(env, app)
    except HTTPException:
        return "json", spy.pos, "unsupported"
    except ValueError:
        return "form", spy.pos, "unsupported"
    plan = "json" if not isinstance(req.json, EmptyForm) else ("form" if not isinstance(req.form, EmptyForm) else "none")
    return plan, spy.pos, hx(req.data) if req.data is not None else "-"


def observe(case):
    t = case.split()
    try:
        if t[1] == "unq":
            s = unhx(t[2]).decode()
            r = urllib.parse.unquote(s)
            return hx(r)
        if t[1] == "qsl":
            try:
                return pairs_tok(urllib.parse.parse_qsl(unhx(t[4]).decode(), t[2] == "1", t[3] == "1"))
            except ValueError:
                return "ValueError"
        if t[1] == "enc":
            return hx(urllib.parse.urlencode(parse_pairs(t[2])))
        if t[1] == "jl":
            # `jl <utf-8 body>`: what parse_json_request hands over - a JsonDict / JsonList / scalar of that content, or 400
            from poorwsgi.request import parse_json_request, JsonDict, JsonList
            from poorwsgi.response import HTTPException
            try:
                v = parse_json_request(unhx(t[2]), "utf-8")
            except HTTPException as err:
                return str(err.args[0])
            if isinstance(v, JsonDict):
                v = dict(v.items())
            elif isinstance(v, JsonList):
                v = list(v)
            return JC.show(v)
        if t[1] == "rl":
            # `rl <input> <length> <script>`: read_length on an input whose i-th read hands over at most script[i]+1 bytes
            from poorwsgi.fieldstorage import read_length
            src, n = io.BytesIO(unhx(t[2])), int(t[3])
            script = [] if t[4] == "none" else [int(x) for x in t[4].split(",")]
            asked = []

            def read(k):
                asked.append(k)
                m = min(k, script.pop(0) + 1) if script else k
                return src.read(m)
            d = read_length(read, n)
            return "%s %d %s" % (hx(d), len(src.getvalue()) - src.tell(), ",".join(map(str, asked)))
        if t[1] == "reads":
            # `reads <content-length> <stream> <k,k,..> <auto_data> <data_size> <cached_size>`: the handler reads a body the
            # framework does not parse, piece by piece
            from poorwsgi.request import Request
            cl, src = int(t[2]), unhx(t[3])
            ops = [] if t[4] == "none" else [None if k == "-" else int(k) for k in t[4].split(",")]
            app = get_app(auto_data=t[5] == "1", data_size=int(t[6]), cached_size=int(t[7]), auto_form=False, auto_json=False)
            spy = Spy(src)
            env = environ("POST", "", None, "application/octet-stream", cl, stream=spy)
            req = Request(env, app)
            out = [req.read() if k is None else req.read(k) for k in ops]
            # bytes buffered by the request (auto_data) count as not yet taken by the handler
            left = len(src) - sum(len(x) for x in out)
            return ",".join(hx(x) for x in out) + " left %d" % left
        if t[1] in ("args", "form"):
            keep, strict = int(t[2]), int(t[3])
            app = get_app(keep_blank_values=keep, strict_parsing=strict)
            key = unhx(t[5]).decode()
            if t[1] == "args":
                env = environ("GET", unhx(t[4]).decode().encode("utf-8").decode("latin-1") if False else unhx(t[4]).decode())
            else:
                body = unhx(t[4])
                try:
                    body.decode("utf-8")
                except UnicodeDecodeError:
                    return "unsupported"
                env = environ("POST", "", body, "application/x-www-form-urlencoded")
            status, ran, out, _ = call(app, env, acc_fn(t[1], key))
            if not ran:
                return "ValueError" if status == 500 else "status-%d" % status
            return out[0]
        if t[1] == "json":
            value = decode_j(t[2])
            body = json.dumps(value).encode()
            status, ran, out, _ = call(get_app(), environ("POST", "", body, "application/json"), json_fn(unhx(t[3]).decode()))
            if not ran:
                return "status-%d" % status
            return out[0]
        if t[1] == "plan":
            return plan_request(t)[0]
        if t[1] == "taken":
            return str(plan_request(t)[1])
        if t[1] == "data":
            return plan_request(t)[2]
        if t[1] in ("hdr", "hdrs"):
            from poorwsgi.request import Request
            envp = parse_pairs(t[2])
            env = environ("GET")
            for k, v in envp:
                env[k] = v
            req = Request(env, get_app())
            if t[1] == "hdrs":
                return pairs_tok(list(req.headers.items()))
            v = req.headers.get(unhx(t[3]).decode())
            return "-" if v is None else hx(v)
    except Exception as err:
        return excname(err)
    return "-"


def decode_j(code):
    toks = code.split(",")

    def go(i):
        t = toks[i]
        if t == "n":
            return None, i + 1
        if t == "t":
            return True, i + 1
        if t == "f":
            return False, i + 1
        if t[0] == "#":
            txt = unhx(t[1:]).decode()
            return (float(txt) if any(c in txt for c in ".einf") else int(txt)), i + 1
        if t[0] == "s":
            return unhx(t[1:]).decode(), i + 1
        if t[0] == "a":
            out, i = [], i + 1
            for _ in range(int(t[1:])):
                v, i = go(i)
                out.append(v)
            return out, i
        if t[0] == "o":
            out, i = {}, i + 1
            for _ in range(int(t[1:])):
                k = unhx(toks[i]).decode()
                v, i = go(i + 1)
                out[k] = v
            return out, i
        raise ValueError(t)
    return go(0)[0]


def to_model(case):
    t = case.split()
    if t[1] == "e2e":
        return []
    if t[1] == "jl":
        return ["JS load " + t[2]]
    if t[1] == "rl":
        return ["RL " + " ".join(t[2:])]
    if t[1] == "reads":
        return [" ".join(t[:5])]       # buffering settings do not matter to the model
    if t[1] == "args":
        # the query string is stripped before it is parsed (request.py:182)
        return [case]
    return [case]


def canon_model(line):
    return "400" if line == "error" else line


# ---------------------------------------------------------------------------- generator

def plan_case(op, ad, aj, af, ds, cl, h09, mime, body):
    from poorwsgi import Application  # noqa: F401
    jt = ["application/json", "application/javascript", "application/merge-patch+json"]
    ft = ["application/x-www-form-urlencoded", "multipart/form-data"]
    return "C10 %s %d %d %d %d %s %s %d %d %s %s" % (op, ad, aj, af, ds, ",".join(hx(x) for x in jt), ",".join(hx(x) for x in ft),
                                                   cl, h09, hx(mime), hx(body))


def generate(rng, tier):
    big = tier == "thorough"
    cases = []
    # JSON bodies: hand-written corner cases, dumps of random values (both escape styles, other separators), single edits
    for text in JC.HAND + JC.rand_texts(rng, 6000 if big else 900):
        try:
            cases.append("C10 jl " + JC.tok_text(text))
        except UnicodeEncodeError:
            pass
    for raw in (b"\xff", b"\xc3", b'"\xed\xa0\x80"', b'"\xc0\xaf"', b"\xef\xbb\xbf[1]", b'"\xf4\x90\x80\x80"', b'["\xc3\xa9"]'):
        cases.append("C10 jl " + hx(raw))
    for s in ["", "%", "%4", "%41", "a%41b", "%C3%A9", "%c3%a9", "é%41", "%C3é", "%zz", "%%41", "%4%41", "+", "a+b", "%2B",
              "%E2%82%AC", "%e2%82", "%F0%9F%98%80", "%ff", "%00", "100%", "%A", "%41%", "ž%C5%BE"]:
        cases.append("C10 unq " + hx(s))
    for _ in range(3000 if big else 500):
        cases.append("C10 unq " + hx(rand_text(rng, rng.randrange(0, 8), RAW)))
    for _ in range(1500 if big else 300):
        n = rng.randrange(0, 12)
        src = bytes(rng.randrange(256) for _ in range(n + rng.randrange(0, 5)))
        cl = rng.choice([n, n, n, 0, max(n - 2, 0), len(src)])
        ops = [rng.choice(["-", "-", "0", "1", "2", "3", "7", "100"]) for _ in range(rng.randrange(0, 6))]
        cases.append("C10 reads %d %s %s %d %d %d" % (cl, hx(src), ",".join(ops) or "none", rng.randrange(2),
                                                    rng.choice([0, 4, 65365]), rng.choice([0, 1, 3, 65365])))
    for _ in range(3000 if big else 500):
        qs = rand_text(rng, rng.randrange(0, 10), RAW)
        cases.append("C10 qsl %d %d %s" % (rng.randrange(2), rng.randrange(2), hx(qs)))
    for _ in range(2000 if big else 300):
        ps = rand_pairs(rng)
        cases.append("C10 enc " + pairs_tok(ps))
        qs = encode_pairs(rng, ps, rng.randrange(2))
        key = rng.choice([k for k, _ in ps] + ["k", "nokey"])
        keep, strict = rng.randrange(2), (1 if rng.random() < 0.15 else 0)
        cases.append("C10 qsl %d %d %s" % (keep, strict, hx(qs)))
        cases.append("C10 args %d %d %s %s" % (keep, strict, hx(qs), hx(key)))
        cases.append("C10 form %d %d %s %s" % (keep, strict, hx(qs), hx(key)))
    for _ in range(1500 if big else 250):
        qs = rand_text(rng, rng.randrange(0, 10), RAW + ["k", "k=", "&k=v"])
        key = rng.choice(["k", "a", "", "a b", "é"])
        keep, strict = rng.randrange(2), (1 if rng.random() < 0.15 else 0)
        cases.append("C10 args %d %d %s %s" % (keep, strict, hx(qs), hx(key)))
        cases.append("C10 form %d %d %s %s" % (keep, strict, hx(qs), hx(key)))
    for qs in [" a=1 ", "\ta=1\n", "a=1&", "&&a=1", "a", "a&b", "=", "=v", "a==b", "a=b=c", "a=1;b=2", "a=%26&b=%3D"]:
        for keep in (0, 1):
            cases.append("C10 args %d 0 %s %s" % (keep, hx(qs), hx("a")))
            cases.append("C10 form %d 0 %s %s" % (keep, hx(qs), hx("a")))
    # JSON accessors
    for v in [None, True, 0, "x", [], {}, [[]], {"a": []}, {"a": [[]]}, {"a": None}, {"a": [1, 2]}, {"a": {"a": 1}}, [1, [2]],
              {"": ""}, {"a": [None]}, ["é"], {"é": "ž"}]:
        cases.append("C10 json %s %s" % (j_code(v), hx("a")))
    for _ in range(2000 if big else 400):
        v = rand_json(rng, 3)
        cases.append("C10 json %s %s" % (j_code(v), hx(rng.choice(["a", "b", "", "é", "k", "zz"]))))
    # body plan
    bodies = [(b'{"a": [1, 2]}', "application/json"), (b"[]", "application/javascript"), (b"a=1&b=2", "application/x-www-form-urlencoded"),
              (b"plain", "text/plain"), (b"", ""), (b"{broken", "application/json"), (b"1", "application/merge-patch+json"),
              (b'--B\r\nContent-Disposition: form-data; name="a"\r\n\r\nv\r\n--B--\r\n', "multipart/form-data"),
              (b"x" * 40, "application/octet-stream")]
    for _ in range(3000 if big else 600):
        body, mime = rng.choice(bodies)
        full = body + TRAIL
        cl = rng.choice([len(body), len(body), len(body), 0, -1, 1, len(body) + 3, len(full) + 10, max(len(body) - 2, 0), -5])
        ds = rng.choice([65365, 0, 1, len(body), max(len(body) - 1, 0), len(body) + 1])
        ad, aj, af = (rng.random() < 0.7), (rng.random() < 0.8), (rng.random() < 0.8)
        h09 = rng.random() < 0.1
        for op in ("plan", "taken", "data"):
            cases.append(plan_case(op, ad, aj, af, ds, cl, h09, mime, full))
    # headers
    names = ["HTTP_X_FOO", "HTTP_ACCEPT", "HTTP_x_foo", "http_x", "HTTP_", "HTTP__A", "HTTP_A__B", "CONTENT_TYPE", "CONTENT_LENGTH",
             "HTTP_CONTENT_TYPE", "CONTENT_MD5", "HTTP_X_1A", "HTTP_IF_NONE_MATCH", "HTTPS", "HTTP_HOST", "PATH_X", "HTTP_X_FOO_"]
    look = ["x-foo", "X-Foo", "X-FOO", "accept", "Content-Type", "content-length", "-a", "a--b", "", "x-1a", "If-None-Match",
            "host", "x", "S", "x-foo-", "x_foo"]
    for _ in range(1500 if big else 300):
        ks = rng.sample(names, rng.randrange(0, 6))
        envp = [(k, "7" if k == "CONTENT_LENGTH" else rng.choice(["v", "text/html; charset=utf-8", "é", "", " a ", "V"])) for k in ks]
        cases.append("C10 hdr %s %s" % (pairs_tok(envp), hx(rng.choice(look))))
        cases.append("C10 hdrs %s" % pairs_tok(envp))
    # read_length against its model: inputs shorter, equal and longer than the length, any script of short reads
    for _ in range(1500 if big else 300):
        src = bytes(rng.randrange(256) for _ in range(rng.choice([0, 1, 2, 3, 5, 8, 13, 40])))
        n = rng.choice([0, 1, 2, len(src), len(src), max(len(src) - 1, 0), len(src) + 1, len(src) + 7, rng.randrange(0, 50)])
        script = [rng.choice([0, 0, 1, 2, 4, 100]) for _ in range(rng.randrange(0, 12))]
        cases.append("C10 rl %s %d %s" % (hx(src), n, ",".join(map(str, script)) or "none"))
    # end-to-end oracle cases
    for i in range(1500 if big else 300):
        cases.append("C10 e2e %d" % rng.randrange(1 << 30))
    # ... and directed ones: bodies that arrive in pieces (the input hands over fewer bytes than asked for)
    for i in range(400 if big else 120):
        cases.append("C10 e2e %d pieces" % rng.randrange(1 << 30))
    return cases


# ---------------------------------------------------------------------------- oracle

def expect(ps, keep, key):
    vals = [v for k, v in ps if k == key and (keep or v != "")]
    return vals


def check_accessors(f, ps, keep, where):
    keys = []
    for k, v in ps:
        if (keep or v != "") and k not in keys:
            keys.append(k)
    if list(f.keys()) != keys:
        return "%s: keys %r, sent %r" % (where, list(f.keys()), keys)
    for key in keys + ["nokey-%s" % where]:
        vals = expect(ps, keep, key)
        gv, gf, gl = f.getvalue(key), f.getfirst(key), f.getlist(key)
        if not vals:
            want = (None, None, [])
        elif len(vals) == 1:
            want = (vals[0], vals[0], vals)
        else:
            want = (vals, vals[0], vals)
        if (gv, gf, gl) != want:
            return "%s[%r]: getvalue/getfirst/getlist = %r, sent values %r" % (where, key, (gv, gf, gl), vals)
        if vals and (key in f) is not True:
            return "%s: %r not in the mapping" % (where, key)
        # converters and defaults: getfirst converts the first value only and hands an absent key's default back untouched,
        # getlist converts every value
        seen = []

        def conv(x):
            seen.append(x)
            return [x, len(x)]          # a converter may return anything, a list or something falsy included
        for dflt in ("DEF", ["x", "y"], [], 0):
            del seen[:]
            got = f.getfirst(key, dflt, conv)
            if vals:
                if got != [vals[0], len(vals[0])] or seen != [vals[0]]:
                    return "%s[%r]: getfirst with a converter = %r after converting %r, sent values %r" % (where, key, got, seen, vals)
            elif got is not dflt or seen:
                return "%s[%r]: getfirst of an absent key = %r (converted %r), the default is %r" % (where, key, got, seen, dflt)
        gl = f.getlist(key, func=lambda x: "<%s>" % x)
        if gl != ["<%s>" % v for v in vals]:
            return "%s[%r]: getlist with a converter = %r, sent values %r" % (where, key, gl, vals)
        if not vals and f.getlist(key, ["e"]) != ["e"]:
            return "%s[%r]: getlist of an absent key with a default = %r" % (where, key, f.getlist(key, ["e"]))
        if vals and f.getfirst(key, func=lambda x: "") != "":
            return "%s[%r]: getfirst with a converter giving '' = %r" % (where, key, f.getfirst(key, func=lambda x: ""))
    return None


def multipart_body(ps, boundary, final_crlf=True):
    out = []
    for k, v in ps:
        out.append(b"--" + boundary + b"\r\n" + b'Content-Disposition: form-data; name="' + k + b'"\r\n\r\n' + v + b"\r\n")
    out.append(b"--" + boundary + b"--" + (b"\r\n" if final_crlf else b""))
    return b"".join(out)


def json_accessor_oracle(case, t):
    """`json <value> <key>`: getvalue / getfirst / getlist of the dict-like or list-like agree with the value sent"""
    value, key = decode_j(t[2]), unhx(t[3]).decode()
    if JC.hasfloat(value):
        return []
    res = {}

    def fn(req):
        j = req.json
        if isinstance(value, dict):
            if key in value:
                v = value[key]
                want = (v, (v[0] if v else "DEF") if isinstance(v, list) else v, v if isinstance(v, list) else [v])
            else:
                want = ("DEF", "DEF", [])
            got = (j.getvalue(key, "DEF"), j.getfirst(key, "DEF"), j.getlist(key))
        elif isinstance(value, list):
            want = ((value[0] if value else "DEF"), (value[0] if value else "DEF"), value)
            got = (j.getvalue(key, "DEF"), j.getfirst(key, "DEF"), j.getlist(key))
        else:
            want = got = j if j == value else "?"
        return None if got == want else "accessors (getvalue, getfirst, getlist)(%r) = %r on %r, required %r" % (key, got, value, want)
    try:
        status, ran, out, _ = call(get_app(), environ("POST", "", json.dumps(value).encode(), "application/json"), fn)
    except Exception as err:
        return [Violation("c10:json-accessors", case, "raised %r" % (err,))]
    if ran and out[0]:
        return [Violation("c10:json-accessors", case, out[0])]
    return []


def oracle(case):
    import random
    t = case.split()
    if t[1] == "json":
        return json_accessor_oracle(case, t)
    if t[1] != "e2e":
        return []
    rng = random.Random(int(t[2]))
    kind = rng.choice(["pairs", "pairs", "json", "badjson", "stream", "stream", "headers"])
    pieces = len(t) > 3 and t[3] == "pieces"
    if pieces:
        kind = "stream"
    bad = None
    try:
        if kind == "pairs":
            ps = rand_pairs(rng)
            keep = rng.randrange(2)
            style = rng.randrange(2)
            qs = encode_pairs(rng, ps, style)
            body = encode_pairs(rng, ps, style).encode()
            cfg = dict(keep_blank_values=keep)
            if rng.random() < 0.3:
                cfg.update(data_size=rng.choice([0, 3]), cached_size=rng.choice([0, 1, 2, 7, 65365]))
            if rng.random() < 0.2:
                cfg.update(auto_data=False)
            method = rng.choice(["POST", "PUT", "PATCH"])
            env = environ(method, qs, body, rng.choice(["application/x-www-form-urlencoded",
                                                        "application/x-www-form-urlencoded; charset=utf-8",
                                                        "application/x-www-form-urlencoded ; charset=utf-8",
                                                        "application/x-www-form-urlencoded\t;charset=utf-8"]))
            res = {}

            def fn(req):
                res["args"] = check_accessors(req.args, ps, keep, "args")
                res["form"] = check_accessors(req.form, ps, keep, "form") if body else None
                # the handler owns what it was handed: it may sort, extend or empty the lists it got
                for f in (req.args, req.form):
                    for k in list(f.keys()):
                        for v in (f[k] if isinstance(f, dict) else None, f.getlist(k)):
                            if isinstance(v, list):
                                v.reverse()
                                v.append("verif-extra")
                return None
            ctype = env.get("CONTENT_TYPE")
            status, ran, _, _ = call(get_app(**cfg), env, fn)
            if not ran:
                bad = "the endpoint did not run (status %d) for query %r" % (status, qs)
            else:
                bad = res["args"] or res["form"]
            if not bad:
                # the same request once more: what an earlier handler did with its values must not show
                env2 = environ(method, qs, body, ctype)
                status, ran, _, _ = call(get_app(**cfg), env2, fn)
                if not ran:
                    bad = "the endpoint did not run (status %d) for the repeated query %r" % (status, qs)
                elif res["args"] or res["form"]:
                    bad = "second identical request, after the first handler changed the lists it was given: " + \
                        (res["args"] or res["form"])
            if not bad and env["wsgi.input"].pos > len(body):
                bad = "%d bytes taken from wsgi.input, Content-Length %d" % (env["wsgi.input"].pos, len(body))
            if bad:
                bad += " [keep_blank_values=%d, sent %r as %r]" % (keep, ps, qs)
        elif kind == "json":
            value = rand_json(rng, 3)
            charset = rng.choice(["utf-8", "utf-8", None, "utf-16", "latin-1", "UTF-8", "iso-8859-2"])
            text = json.dumps(value, ensure_ascii=rng.random() < 0.5)
            try:
                body = text.encode(charset or "utf-8")
            except UnicodeEncodeError:
                charset, body = "utf-8", text.encode()
            ctype = rng.choice(["application/json", "application/javascript", "application/merge-patch+json"])
            if charset:
                # optional white space around the parameter separator (RFC 9110 5.6.6)
                # ... and parameter names are case-insensitive (RFC 9110 5.6.6); quoted values are allowed
                ctype += rng.choice(["; ", "; ", ";", " ; ", "\t;"]) + rng.choice(["charset", "charset", "Charset", "CHARSET"]) \
                    + "=" + (charset if rng.random() < 0.8 else '"%s"' % charset)
            cfg = {}
            if rng.random() < 0.3:
                cfg.update(data_size=rng.choice([0, 3]), cached_size=rng.choice([0, 2, 65365]))
            env = environ(rng.choice(["POST", "PUT", "PATCH"]), "", body, ctype)
            res = {}

            def fn(req):
                j = req.json
                if j != value or type(j) is bool and j is not value:
                    return "req.json is %r, sent %r" % (j, value)
                if isinstance(value, dict):
                    if not isinstance(j, dict):
                        return "JSON object arrived as %s" % type(j).__name__
                    for k, v in value.items():
                        want_l = v if isinstance(v, list) else [v]
                        want_f = (v[0] if v else None) if isinstance(v, list) else v
                        got = (j.getvalue(k), j.getfirst(k), j.getlist(k))
                        if got != (v, want_f, want_l):
                            return "json[%r]: getvalue/getfirst/getlist = %r for %r" % (k, got, v)
                    if j.getvalue("zz-absent") is not None or j.getlist("zz-absent") != []:
                        return "absent key has a value"
                elif isinstance(value, list):
                    if not isinstance(j, list):
                        return "JSON array arrived as %s" % type(j).__name__
                    got = (j.getvalue(), j.getfirst(), j.getlist(None))
                    if got != ((value[0] if value else None), (value[0] if value else None), value):
                        return "json list accessors %r for %r" % (got, value)
                return None
            status, ran, out, _ = call(get_app(**cfg), env, fn)
            if not ran:
                bad = "valid JSON %r (%s) was answered %d without running the endpoint" % (text, ctype, status)
            else:
                bad = out[0]
            if not bad and env["wsgi.input"].pos > len(body):
                bad = "%d bytes taken from wsgi.input, Content-Length %d" % (env["wsgi.input"].pos, len(body))
        elif kind == "badjson":
            text = rng.choice(["{", "[1,", "{'a': 1}", "tru", "", "\"x", "{\"a\" 1}", "[1 2]", "\xff", "}{", "01", "+1", "{\"a\":}",
                               "[,]", "nul", "\"\\x\"", "é"])
            body = text.encode("latin-1") if text else b" "
            env = environ(rng.choice(["POST", "PUT", "PATCH"]), "", body, rng.choice(["application/json", "application/javascript"]))
            status, ran, _, _ = call(get_app(), env)
            if ran or status != 400:
                bad = "body %r under a JSON content type: status %d, endpoint %s" % (body, status, "ran" if ran else "did not run")
        elif kind == "stream":
            ps = [(b"a", b"v"), (b"b", b"x" * rng.choice([0, 1, 50]))][:rng.randrange(1, 3)]
            bodies = [
                (b"a=1&b=2", "application/x-www-form-urlencoded"),
                (b'{"a": 1}', "application/json"),
                (multipart_body(ps, b"BnD", True), "multipart/form-data; boundary=BnD"),
                (multipart_body(ps, b"BnD", False), "multipart/form-data; boundary=BnD"),
                (multipart_body(ps, b"BnD", True)[:-rng.randrange(1, 12)], "multipart/form-data; boundary=BnD"),
                (b"whatever", "text/plain"), (b"whatever", None),
            ]
            body, ctype = rng.choice(bodies)
            cfg = dict(auto_data=rng.random() < 0.6, data_size=rng.choice([65365, 0, 4]),
                       cached_size=rng.choice([65365, 0, 0, 1, 3, 16]),
                       auto_form=rng.random() < 0.9, auto_json=rng.random() < 0.9)
            method = rng.choice(["POST", "PUT", "PATCH", "GET", "DELETE", "HEAD"])
            cl = rng.choice([len(body), len(body), len(body), None, 0, max(len(body) - 3, 0)])
            if pieces:
                method = rng.choice(["POST", "PUT", "PATCH"])
                cl = rng.choice([len(body), len(body), max(len(body) - 3, 0)])
            env = environ(method, "", body, ctype, cl)
            # the handler reads the body itself, in pieces: req.read(k) any number of times
            sizes = [rng.choice([-1, -1, 0, 1, 2, 5, 100]) for _ in range(rng.randrange(0, 5))]
            got = []
            # ... from a stream that hands over what has arrived so far (fewer bytes than asked for), the handler going on
            # until it is given nothing
            piece = rng.choice([None, None, None, 1, 3, 7])
            if pieces:
                piece = rng.choice([1, 2, 3, 7])
            until_empty = piece is not None and rng.random() < 0.7
            if piece is not None:
                env["wsgi.input"] = Spy(body + TRAIL, piece)
                if until_empty:
                    sizes = [rng.choice([1, 2, 5, 100])]

            parsed = []

            def fn(req):
                parsed.append((sorted((k, req.form.getlist(k)) for k in req.form.keys()) if req.form is not None else None,
                               dict(req.json.items()) if hasattr(req.json, "items") else req.json))
                if until_empty:
                    for _ in range(4 * len(body) + 8):
                        got.append(req.read(sizes[0]))
                        if not got[-1]:
                            break
                    return None
                for k in sizes:
                    got.append(req.read(k) if k >= 0 or rng.random() < 0.5 else req.read())
                return None
            status, ran, _, _ = call(get_app(**cfg), env, fn)
            limit = cl or 0
            if ran and piece is not None and cl == len(body) and method in ("POST", "PUT", "PATCH"):
                # what the framework parsed itself does not depend on how the bytes arrived
                form, js = parsed[0]
                if ctype == "application/x-www-form-urlencoded" and cfg["auto_form"] and form != [("a", ["1"]), ("b", ["2"])]:
                    bad = "body %r arriving in pieces of %d: the form holds %r (%s)" % (body, piece, form, cfg)
                if ctype == "application/json" and cfg["auto_json"] and js != {"a": 1}:
                    bad = "body %r arriving in pieces of %d: req.json is %r (%s)" % (body, piece, js, cfg)
            if not ran and piece is not None and cl == len(body) and ctype == "application/json" and cfg["auto_json"] \
                    and method in ("POST", "PUT", "PATCH"):
                bad = "valid JSON %r arriving in pieces of %d was answered %d without running the endpoint (%s)" % (
                    body, piece, status, cfg)
            if bad:
                pass
            elif env["wsgi.input"].pos > limit:
                bad = ("%d bytes taken from wsgi.input, declared Content-Length %r (%s, %s, body %r, handler reads %r)"
                       % (env["wsgi.input"].pos, cl, ctype, cfg, body[-24:], sizes))
            elif ran and ctype in ("text/plain", None) and method in ("POST", "PUT", "PATCH"):
                # a body the framework does not parse: the pieces are consecutive pieces of the declared body
                joined = b"".join(got)
                if not body[:limit].startswith(joined):
                    bad = ("req.read%r returned %r, the declared body is %r (%s)" % (sizes, got, body[:limit], cfg))
                elif piece is None and any(k < 0 for k in sizes) and joined != body[:limit]:
                    bad = ("req.read%r returned %r: a read without size must deliver the rest of the declared body %r (%s)"
                           % (sizes, got, body[:limit], cfg))
                elif until_empty and joined != body[:limit]:
                    bad = ("req.read(%d) repeated until it returned nothing delivered %r, the declared body is %r (input in "
                           "pieces of %d, %s)" % (sizes[0], joined, body[:limit], piece, cfg))
        elif kind == "headers":
            name = rng.choice(["X-Foo", "Accept-Language", "X-A-B-C", "If-None-Match", "X1", "Content-Md5"])
            value = rng.choice(["v", "Value; q=1", "é", " spaced ", "V,w"])
            env = environ("GET", extra={"HTTP_" + name.upper().replace("-", "_"): value, "CONTENT_TYPE": "text/x-test"})
            variants = [name, name.lower(), name.upper(), name.title(), name.swapcase()]

            def fn(req):
                for n in variants:
                    if req.headers.get(n) != value or n not in req.headers or req.headers[n] != value:
                        return "header %r sent as %r is %r under the name %r" % (name, value, req.headers.get(n), n)
                if req.headers.get("content-TYPE") != "text/x-test" or req.mime_type != "text/x-test":
                    return "Content-Type exposed as %r" % req.headers.get("content-TYPE")
                return None
            status, ran, out, _ = call(get_app(), env, fn)
            bad = out[0] if ran else "the endpoint did not run (status %d)" % status
    except Exception as err:
        bad = "raised %r" % (err,)
    if bad:
        return [Violation("c10:%s" % kind, case, "%s: %s" % (kind, bad))]
    return []


def classify(case, obs):
    t = case.split()
    if t[1] in ("args", "form", "qsl"):
        qs = unhx(t[4]).decode("utf-8", "replace")
        if "%" not in qs and "+" not in qs and qs.count("=") <= 1:
            return "trivial-plain-" + t[1]
    if t[1] == "json" and t[2] in ("n", "t", "f"):
        return "trivial-json-scalar"
    return t[1]
