"""C14 - headers behave as an ordered, case-insensitive multimap with safe transcoding."""
import itertools
import re

from harness.core import hx, unhx, Violation, excname

LEAN_TARGETS = ["PoorProofs.Props.C14"]
AUDIT_IMPORTS = ["PoorProofs.Props.C14"]
LEAN_FILES = ["PoorModel/Headers.lean", "PoorProofs/Props/C14.lean"]
THEOREMS = ["Poor.Props.C14.abs_delItem", "Poor.Props.C14.abs_addHeader", "Poor.Props.C14.abs_setItem",
            "Poor.Props.C14.abs_add", "Poor.Props.C14.getItem_abs", "Poor.Props.C14.getAll_abs",
            "Poor.Props.C14.lookup_ignores_case", "Poor.Props.C14.set_replaces_all",
            "Poor.Props.C14.set_others_untouched", "Poor.Props.C14.del_removes_all",
            "Poor.Props.C14.add_refuses_duplicate", "Poor.Props.C14.add_allows_set_cookie",
            "Poor.Props.C14.iteration_is_insertion_order",
            "Poor.Props.C14.C14_transcode_bytes", "Poor.Props.C14.C14_transcode_roundtrip",
            "Poor.Props.C14.C14"]
TRUSTED_BASE = ["model Poor.Headers hand-written from headers.py:251-426 and wsgiref.headers._formatparam",
                "header names are US-ASCII tokens (as the class requires): str.lower() = ASCII lower-casing"]
ASSUMPTIONS = ["lone surrogates are outside the model (CPython raises UnicodeEncodeError -> ValueError)"]
RULE = ("operation sequences over names differing only in case + Set-Cookie casings, values ASCII/Latin-1/BMP/astral/"
        "empty/None/non-string, checked after every step; non-trivial = at least two operations on a shared name")
EXHAUSTIVE = {"quick": False, "thorough": False}

NAMES = ["X-Test", "x-test", "X-TEST", "Set-Cookie", "set-cookie", "SET-COOKIE", "Content-Type", "content-type",
         # names that are parts of "set-cookie" or extend it: single-valued like any other
         "Cookie", "cookie", "Set", "Set-Cookie2"]
VALUES = ["a", "b c", "é", "Ž€", "\U0001F600", "", "x\"y\\z",
          # text whose UTF-8 bytes end or begin with 0x85 / 0xA0 (white space when read as latin-1), and white space kept as given
          "voilà", "МИР", "Ġ", "lineŅ", "àb", " lead", "trail ", "\ttab\t", " ",
          # latin-1 range text that, read as bytes, happens to be well-formed UTF-8 (what a double encoding looks like):
          # it is text like any other
          "Ã©", "price Â£ 5", "â\x80\x99", "Ã\x83Â©"]


NONSTR = {"!0": 0, "!f": False, "!z": 0.0, "!b": b"", "!l": [], "!t": (), "!B": b"x", "!T": True}


def arg(x):
    if x is None:
        return "-"
    if not isinstance(x, str):
        for k, v in NONSTR.items():
            if type(v) is type(x) and v == x:
                return k
        return "!"
    return hx(x)


def unarg(t):
    if t == "-":
        return None
    if t == "!":
        return 12345
    if t.startswith("!"):        # other values that are not strings, the falsy ones among them
        return NONSTR[t]
    return unhx(t).decode("utf-8")


def pairs_tok(pairs):
    return ",".join("%s=%s" % (hx(k), hx(v)) for k, v in pairs) or "none"


def rand_op(rng, names, values):
    kind = rng.choice(["add", "add", "set", "set", "del", "sd", "get", "all", "in", "len", "addh", "addh"])
    n = rng.choice(names)
    v = rng.choice(values)
    if rng.random() < 0.04:
        n = rng.choice([12345, None, 0, b""])
    if rng.random() < 0.07:
        v = rng.choice([12345, None, 0, False, 0.0, b"", b"x", True])
    if kind == "len":
        return "len"
    if kind in ("get", "all", "in", "del"):
        return "%s:%s" % (kind, arg(n))
    if kind in ("add", "set", "sd"):
        return "%s:%s:%s" % (kind, arg(n), arg(v))
    params = []
    for _ in range(rng.choice([0, 0, 1, 2])):
        pv = rng.choice(values + [None, None])
        if rng.random() < 0.08:
            pv = rng.choice([12345, 0, False, 0.0, b"", b"x", True])
        params.append("%s=%s" % (hx(rng.choice(["filename", "max_age", "x", "char_set"])), arg(pv)))
    if len({p.split("=")[0] for p in params}) != len(params):
        params = params[:1]
    if rng.random() < 0.3:
        v = None
    return "addh:%s:%s:%s" % (arg(n), arg(v), ";".join(params) or "none")


def generate(rng, tier):
    cases = []
    small_names = ["X-A", "x-a", "Set-Cookie", "set-cookie"]
    small_ops = []
    for n in small_names:
        small_ops += ["add:%s:%s" % (hx(n), hx("v")), "set:%s:%s" % (hx(n), hx("é")), "del:%s" % hx(n),
                      "sd:%s:%s" % (hx(n), hx("d")), "all:%s" % hx(n)]
    depth = 3 if tier == "thorough" else 2
    for k in range(1, depth + 1):
        for ops in itertools.product(small_ops, repeat=k):
            cases.append("C14 1 L none " + " ".join(ops))
    n = 6000 if tier == "thorough" else 1200
    for _ in range(n):
        strict = rng.choice([1, 1, 0])
        kind = rng.choice("LLTDS")
        init = []
        for _ in range(rng.choice([0, 0, 1, 2, 3])):
            init.append((rng.choice(NAMES), rng.choice(VALUES)))
        if kind == "D":
            init = list(dict(init).items())
        if kind == "S":
            init = init[:1]
        length = rng.choice([1, 2, 3, 4, 5, 6, 6, 12, 25])
        ops = [rand_op(rng, NAMES, VALUES) for _ in range(length)]
        cases.append("C14 %d %s %s %s" % (strict, kind, pairs_tok(init), " ".join(ops)))
    return cases


def to_model(case):
    t = case.split()
    # the model knows one kind of "not a string"
    line = " ".join(t[:2] + t[3:])
    return [re.sub(r"![0fzbltBT]", "!", line)]


def show_items(h):
    return ",".join("%s=%s" % (hx(k), hx(v)) for k, v in h.items()) or "none"


def apply_op(h, tok):
    p = tok.split(":")
    op = p[0]
    try:
        if op == "len":
            return str(len(h))
        if op == "get":
            r = h.get(unarg(p[1]))
            return "-" if r is None else hx(r)
        if op == "in":
            return "1" if unarg(p[1]) in h else "0"
        if op == "all":
            return "[" + ",".join(hx(x) for x in h.get_all(unarg(p[1]))) + "]"
        if op == "del":
            del h[unarg(p[1])]
            return "ok"
        if op == "add":
            h.add(unarg(p[1]), unarg(p[2]))
            return "ok"
        if op == "set":
            h[unarg(p[1])] = unarg(p[2])
            return "ok"
        if op == "sd":
            return hx(h.setdefault(unarg(p[1]), unarg(p[2])))
        if op == "addh":
            kwargs = {}
            if p[3] != "none":
                for kv in p[3].split(";"):
                    k, v = kv.split("=")
                    kwargs[unhx(k).decode()] = unarg(v)
            h.add_header(unarg(p[1]), unarg(p[2]), **kwargs)
            return "ok"
    except (KeyError, ValueError, TypeError) as err:
        return type(err).__name__
    return "bad-op"


def build(case):
    from poorwsgi.headers import Headers
    t = case.split()
    strict = t[1] == "1"
    kind = t[2]
    pairs = [] if t[3] == "none" else [tuple(unhx(x).decode() for x in kv.split("=")) for kv in t[3].split(",")]
    src = {"L": list(pairs), "T": tuple(pairs), "S": set(pairs), "D": dict(pairs)}[kind]
    return Headers(src, strict), pairs, strict, t[4:]


def observe(case):
    try:
        h, pairs, strict, ops = build(case)
        outs = [show_items(h)]
        for tok in ops:
            r = apply_op(h, tok)
            outs.append(r + "@" + show_items(h))
        return " ".join(outs)
    except Exception as err:
        return excname(err)


# ---- independent reference multimap (written from the property text) ----------------

def enc(s):
    return s.encode("utf-8").decode("latin-1")


class Ref:
    def __init__(self, pairs, strict):
        self.items = [(enc(k), enc(v)) if strict else (k, v) for k, v in pairs]

    def find(self, name):
        return [v for k, v in self.items if k.lower() == enc(name).lower()]

    def fmt(self, k, v):
        k = enc(k).replace("_", "-")
        if v is None or v == "":
            return k
        return '%s="%s"' % (k, enc(v).replace("\\", "\\\\").replace('"', '\\"'))

    def op(self, tok):
        p = tok.split(":")
        op = p[0]
        args = [unarg(x) for x in p[1:3]]
        if op == "len":
            return str(len(self.items))
        name = args[0]
        if not isinstance(name, str):
            if op == "addh":
                pass
            else:
                return "TypeError"
        if op == "get":
            f = self.find(name)
            return hx(f[0]) if f else "-"
        if op == "in":
            return "1" if self.find(name) else "0"
        if op == "all":
            return "[" + ",".join(hx(x) for x in self.find(name)) + "]"
        if op == "del":
            self.items = [(k, v) for k, v in self.items if k.lower() != enc(name).lower()]
            return "ok"
        value = args[1]
        if op == "add":
            if name.lower() != "set-cookie" and self.find(name):
                return "KeyError"
        if op == "set":
            self.items = [(k, v) for k, v in self.items if k.lower() != enc(name).lower()]
        if op == "sd":
            f = self.find(name)
            if f:
                return hx(f[0])
        parts = []
        if op == "addh":
            if value is not None:
                if not isinstance(value, str):
                    return "TypeError"
                parts.append(enc(value))
            if p[3] != "none":
                for kv in p[3].split(";"):
                    k, v = kv.split("=")
                    v = unarg(v)
                    if v is not None and not isinstance(v, str):
                        return "TypeError"
                    parts.append(self.fmt(unhx(k).decode(), v))
            if not parts:
                return "ValueError"
            if not isinstance(name, str):
                return "TypeError"
        else:
            if value is None:
                return "ValueError"
            if not isinstance(value, str):
                return "TypeError"
            parts.append(enc(value))
        self.items.append((enc(name), "; ".join(parts)))
        return hx(value) if op == "sd" else "ok"


def oracle(case):
    from poorwsgi.headers import Headers
    try:
        h, pairs, strict, ops = build(case)
    except Exception as err:
        return [Violation("c14-ctor", case, "constructor raised %r" % (err,))]
    ref = Ref(pairs, strict)
    if case.split()[2] == "S":
        pass
    for i, tok in enumerate(ops):
        try:
            got = apply_op(h, tok)
        except Exception as err:
            return [Violation("c14-raises:" + type(err).__name__, case,
                              "op %d %s raised %r (only KeyError/ValueError/TypeError are allowed)" % (i, tok, err))]
        want = ref.op(tok)
        if got != want or list(h.items()) != ref.items:
            return [Violation("c14-multimap:" + tok.split(":")[0], case,
                              "op %d %s: result %s items %s; reference multimap: %s %s"
                              % (i, tok, got, list(h.items()), want, ref.items))]
        # every view of the collection shows the same entries in the same order
        views = {"iter": list(h), "keys/values": list(zip(h.keys(), h.values())), "names": None}
        for what, got_v in views.items():
            if got_v is not None and [tuple(x) for x in got_v] != ref.items:
                return [Violation("c14-view:" + what, case, "after op %d %s: %s gives %r, items() %r"
                                  % (i, tok, what, got_v, ref.items))]
        if list(h.names()) != [k for k, _ in ref.items] or len(h) != len(ref.items):
            return [Violation("c14-view:names", case, "after op %d %s: names() %r / len %d, items %r"
                              % (i, tok, list(h.names()), len(h), ref.items))]
        repr(h)
        if strict:
            for k, v in h.items():
                for s in (k, v):
                    if not isinstance(s, str) or any(ord(c) > 255 for c in s):
                        return [Violation("c14-latin1", case, "stored %r is not a latin-1 native string" % (s,))]
    # transcoding of every value used
    for tok in ops:
        for a in tok.split(":")[1:3]:
            x = unarg(a)
            if isinstance(x, str):
                st = Headers.iso88591(x)
                if st.encode("latin-1") != x.encode("utf-8") or Headers.utf8(st) != x:
                    return [Violation("c14-transcode", case, "iso88591/utf8 do not round-trip %r" % (x,))]
    return []


def classify(case, obs):
    ops = case.split()[4:]
    names = [t.split(":")[1].lower() for t in ops if ":" in t]
    if len(ops) < 2 or len(set(names)) == len(names):
        return "trivial-independent"
    return "ops=%d" % min(len(ops), 7)
