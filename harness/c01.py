"""C01 - every request gets exactly one well-formed WSGI answer."""
import io
import os
import re

from harness.core import Violation, hx
from harness import wsgi_common as W

LEAN_TARGETS = ["PoorProofs.Props.C01"]
AUDIT_IMPORTS = ["PoorProofs.Props.C01"]
LEAN_FILES = ["PoorModel/Response.lean", "PoorModel/Wsgi.lean", "PoorProofs/Lemmas/Wsgi.lean",
              "PoorProofs/Props/C01.lean"]
THEOREMS = ["Poor.Props.C01.C01_total", "Poor.Props.C01.C01_wellformed", "Poor.Props.C01.C01_silent_reason", "Poor.Wsgi.respond_P", "Poor.Props.C01.closure_good", "Poor.Props.C01.closure_quiet", "Poor.Props.C01.reasons_wellformed",
            "Poor.Props.C01.pages_have_reasons", "Poor.Props.C01.C01"]
TRUSTED_BASE = ["model Poor.Wsgi / Poor.Response hand-written from wsgi.py:47-54,969-1204, response.py:251-330,644-654,784-919",
                "request construction is modelled by the stage at which it raises (ConnectionError, HTTP 400, other exception)",
                "Gen.Reasons (http.client.responses + response.py additions, default_states keys) regenerated each run"]
ASSUMPTIONS = ["'bounded time' = totality of the model + C09 bound on underlying reads; wall clock not modelled",
               "lazily evaluated user generators are iterated by the server after the call returned (not modelled)",
               "response objects handed back by user code carry a status their constructor accepted"]
RULE = ("route kind x construction stage x hook counts x user status/exception handlers x behaviours (return shapes incl. "
        "every Response class and tuple form, aborts, exceptions, SystemExit, ConnectionError at each position); plus "
        "arbitrary environ dicts against a richer application (oracle only); non-trivial = some callable fails or returns a non-str value")
EXHAUSTIVE = {"quick": False, "thorough": False}

STATUS_RE = re.compile(r"^\d{3} \S.*$")


def generate(rng, tier):
    n = 20000 if tier == "thorough" else 2500
    cases = []
    W.pool()
    # every value at every returning position, every failure at every position
    p = W.pool()
    allvals = p["plain"] + p["junk"] + p["tuples"] + p["resps"]
    fails = ["ab~%d~0~0" % c for c in W.ABORT_CODES] + ["ab~404~1~0", "ab~401~0~1", "exc~0", "exc~5", "sysexit", "conn", "base"]
    for f in allvals:
        b = W.beh_ret(f)
        cases.append(W.mk_case("C01", "hit", "ok", 0, 0, [], [], False, {"e": b}))
        cases.append(W.mk_case("C01", "hit", "ok", 0, 1, [404], [9], False, {"e": "exc~0", "x0": b}))
        cases.append(W.mk_case("C01", "nf", "ok", 0, 0, [404], [], False, {"s404": b}))
        cases.append(W.mk_case("C01", "hit", "ok", 0, 1, [], [], False, {"a0": b}))
        cases.append(W.mk_case("C01", "hit", "ok", 0, 0, [500], [], False, {"e": W.beh_ret(W.F_OBJ), "s500": b}))
    for fl in fails:
        for route in W.ROUTES:
            cases.append(W.mk_case("C01", route, "ok", 1, 0, [], [], False, {"b0": fl}))
            cases.append(W.mk_case("C01", route, "ok", 0, 1, [], [], False, {"a0": fl}))
        cases.append(W.mk_case("C01", "hit", "ok", 0, 0, [], [], False, {"e": fl}))
        cases.append(W.mk_case("C01", "hit", "ok", 0, 0, [], [], True, {"e": fl}))
        cases.append(W.mk_case("C01", "nf", "ok", 0, 0, [404], [], False, {"s404": fl}))
        cases.append(W.mk_case("C01", "hit", "ok", 0, 0, [], [0], False, {"e": "exc~0", "x0": fl}))
        cases.append(W.mk_case("C01", "hit", "ok", 0, 0, [500], [0], False, {"e": "exc~0", "x0": "exc~2", "s500": fl}))
    for ctor in ("exc~5", "ab~400~0~0", "conn"):
        for route in W.ROUTES:
            cases.append(W.mk_case("C01", route, ctor, 1, 1, [], [], False, {}))
            cases.append(W.mk_case("C01", route, ctor, 1, 1, [400, 500], [9], False, {"s400": "exc~1", "s500": "ret~X", "x0": "ret~X"}))
    while len(cases) < n:
        cases.append(W.rand_case("C01", rng, 0.5))
    return cases


def observe(case):
    return W.observe(case)


to_model = W.to_model


def may_be_silent(case):
    c = W.parse_case(case)
    toks = [c["ctor"]] + list(c["prog"].values())
    for t in toks:
        if t in ("conn", "sysexit") or t.startswith("ab~0~") or t.startswith("abr~d,") or t.startswith("ret~Rd,"):
            return True
    return False


def check_answer(what, outcome):
    """C01 as stated, on one observed outcome -> None or text"""
    if outcome[0] == "escaped":
        return "the application raised %r" % (outcome[1],)
    if outcome[0] == "silent":
        if outcome[1]:
            return "no start_response call but body items were returned"
        return None
    calls, chunks = outcome[1], outcome[2]
    if len(calls) != 1:
        return "start_response called %d times" % len(calls)
    status, headers = calls[0]
    if not isinstance(status, str) or not STATUS_RE.match(status):
        return "status line %r is not 'NNN Reason'" % (status,)
    if not isinstance(headers, list):
        return "headers is not a list"
    for h in headers:
        if not (isinstance(h, tuple) and len(h) == 2 and isinstance(h[0], str) and isinstance(h[1], str)):
            return "header %r is not a (str, str) pair" % (h,)
        try:
            h[0].encode("latin-1")
            h[1].encode("latin-1")
        except UnicodeError:
            return "header %r is not latin-1 encodable" % (h,)
    for c in chunks:
        if not isinstance(c, bytes):
            return "body item %r is not bytes" % (type(c).__name__,)
    return None


_fuzz = []


def replay_environ(shown):
    """re-run an environ recorded by the fuzzing oracle"""
    if not _fuzz:
        _fuzz.append(fuzz_app())
    env = {k: v for k, v in shown.items() if k != "wsgi.input"}
    env["wsgi.input"] = io.BytesIO(bytes.fromhex(shown.get("wsgi.input", "")) if shown.get("wsgi.input") not in (None, ".") else b"")
    env["wsgi.errors"] = io.StringIO()
    calls = []
    try:
        chunks = list(_fuzz[0](env, lambda s, h: calls.append((s, h))))
        outcome = ("answered", calls, chunks) if calls else ("silent", chunks)
    except BaseException as err:
        outcome = ("escaped", err, calls)
    bad = check_answer("environ", outcome)
    return [Violation("c01-environ", shown, bad)] if bad else []


def oracle(case):
    if isinstance(case, dict):
        return replay_environ(case)
    try:
        trace, outcome, _ = W.run_case(case)
    except Exception as err:
        return [Violation("c01-harness", case, "harness failed: %r" % (err,))]
    bad = check_answer(case, outcome)
    if not bad and outcome[0] == "silent" and not may_be_silent(case):
        bad = "no answer although nothing declined the request and no connection-level error occurred"
    if bad:
        kind = type(outcome[1]).__name__ if outcome[0] == "escaped" else outcome[0]
        return [Violation("c01:%s" % kind, case, bad)]
    return []


# ---- arbitrary environ dicts against a richer application (oracle only) -----------------------

def fuzz_app(kept_pages=False):
    """`kept_pages`: the application answers 404 and 500 with prebuilt response objects it keeps (a "cached" error
    page): from the second such answer on the object has been sent before"""
    from poorwsgi import Application, state
    from poorwsgi.response import Response
    from poorwsgi.headers import parse_range
    app = Application("verif_c01_fuzz%d_%d" % (kept_pages, os.getpid()))
    if kept_pages:
        pages = {404: Response(b"kept 404 page", status_code=404), 500: Response(b"kept 500 page", status_code=500)}

        @app.http_state(404)
        def kept404(req, **kwargs):
            return pages[404]

        @app.http_state(500)
        def kept500(req, **kwargs):
            return pages[500]
    app.document_root = W.root()
    app.document_index = True
    app.secret_key = "k"

    @app.route("/", method=state.METHOD_ALL)
    def rootp(req):
        return "root"

    @app.route("/echo", method=state.METHOD_ALL)
    def echo(req):
        return {"args": dict(req.args), "form": sorted(req.form.keys()) if hasattr(req.form, "keys") else [],
                "json": req.json if not hasattr(req.json, "keys") else dict(req.json)}

    @app.route("/cookie")
    def cookie(req):
        return str(req.cookies)

    @app.route("/range")
    def rng_(req):
        res = Response(b"0123456789")
        ranges = parse_range(req.headers["Range"]) if "Range" in req.headers else {}
        res.make_partial(ranges.get("bytes"))
        return res

    def partial_of(req, res):
        ranges = parse_range(req.headers["Range"]) if "Range" in req.headers else {}
        res.make_partial(ranges.get("bytes"))
        return res

    # responses that already carry entity headers (stored or proxied object metadata) and are then made partial
    PRESET = {"Content-Range": "bytes 0-9/10", "Accept-Ranges": "bytes", "ETag": '"e1"', "X-Meta": "m"}

    @app.route("/rangeh")
    def rangeh(req):
        return partial_of(req, Response(b"0123456789", headers=dict(PRESET)))

    @app.route("/rangef")
    def rangef(req):
        from poorwsgi.response import FileObjResponse
        return partial_of(req, FileObjResponse(io.BytesIO(b"0123456789"), headers=dict(PRESET)))

    @app.route("/rangeg")
    def rangeg(req):
        from poorwsgi.response import GeneratorResponse
        return partial_of(req, GeneratorResponse((b"%d" % i for i in range(10)), headers=dict(PRESET), content_length=10))

    # a response object kept by the application and returned again (e.g. a module-level "cached" answer);
    # FileObjResponse when the server offers wsgi.file_wrapper
    shared = {"plain": Response(b"kept"), "file": None}

    @app.route("/reused")
    def reused(req):
        return shared["plain"]

    @app.route("/reusedf")
    def reusedf(req):
        from poorwsgi.response import FileObjResponse
        if shared["file"] is None:
            shared["file"] = FileObjResponse(io.BytesIO(b"0123456789"))
        return shared["file"]

    # file answers that carry no body: 304 / 204 over a file object, with and without the server's file wrapper
    @app.route("/file304")
    def file304(req):
        from poorwsgi.response import FileObjResponse
        return FileObjResponse(io.BytesIO(b"unchanged"), status_code=304, headers={"ETag": '"v1"'})

    @app.route("/file204")
    def file204(req):
        from poorwsgi.response import FileObjResponse
        return FileObjResponse(io.BytesIO(b"nothing"), status_code=204)

    # an endpoint whose exception message cannot be encoded (a file name decoded with surrogateescape)
    @app.route("/surrogate")
    def surrogate(req):
        raise ValueError("unsupported upload name %s" % os.fsdecode(b"report-\xff\xe9.txt"))

    @app.route("/auth")
    def auth(req):
        return str(sorted(req.authorization.items()))

    @app.route("/host")
    def host(req):
        return "%s %s %s" % (req.hostname, req.server_admin, req.construct_url("/x"))

    @app.route("/u/<name>/<n:int>")
    def user(req, name, n):
        return name
    return app


def extra_oracles(rng, tier):
    apps = [fuzz_app(), fuzz_app(kept_pages=True)]
    n = 6000 if tier == "thorough" else 1200
    out = []
    stats = {}
    body_pool = [b"", b"a=1&b=2", b'{"a": 1}', b"{bad", b"--B\r\nContent-Disposition: form-data; name=\"a\"\r\n\r\n1\r\n--B--\r\n",
                 b"\xff\xfe", b"x" * 70000]
    seen = 0
    PATHS = ["/", "/echo", "/cookie", "/range", "/rangeh", "/rangef", "/rangeg", "/reused", "/reusedf", "/file304", "/file204", "/surrogate", "/auth", "/host", "/u/a/1", "/u/\xc3\xa9/x", "/f", "/d/", "/d",
                           "", "no-slash", "/\xff\xfe", "/a\x00b", "//", "/../f", "/u/a/99999999999999999999", "/debug-info",
                           "/" + "a" * 5000, "/\xe2\x82", "/d/../f", "/%2e%2e/f", "/d/x.txt"]
    # every path once per debug setting, file wrapper and GET/HEAD before the random environs
    directed = [(p, d, w, m) for p in PATHS for d in (None, "On") for w in (False, True) for m in ("GET", "HEAD")]
    for i in range(n + len(directed)):
        env = {"SERVER_NAME": "srv", "SERVER_PORT": "80", "SERVER_PROTOCOL": rng.choice(["HTTP/1.1", "HTTP/1.0", "HTTP/0.9"]),
               "wsgi.url_scheme": "http", "wsgi.errors": io.StringIO()}
        if i < len(directed):
            path, dbg, wrap, meth = directed[i]
            env.update({"REQUEST_METHOD": meth, "PATH_INFO": path, "QUERY_STRING": "", "wsgi.input": io.BytesIO(b"")})
            if dbg:
                env["poor_Debug"] = dbg
            if wrap:
                env["wsgi.file_wrapper"] = lambda f, bs=8192: iter(lambda: f.read(bs), b"")
            body = b""
            calls = []
            try:
                app = apps[0]
                chunks = list(app(dict(env), lambda s, h: calls.append((s, h))))
                outcome = ("answered", calls, chunks) if calls else ("silent", chunks)
            except BaseException as err:
                outcome = ("escaped", err, calls)
            seen += 1
            bad = check_answer("environ", outcome)
            if bad:
                shown = {k: (v if isinstance(v, str) else "present") for k, v in env.items() if k not in ("wsgi.errors", "wsgi.input")}
                kind = type(outcome[1]).__name__ if outcome[0] == "escaped" else outcome[0]
                out.append(Violation("c01-environ:%s" % kind, shown, bad))
            continue
        env["REQUEST_METHOD"] = rng.choice(["GET", "HEAD", "POST", "PUT", "PATCH", "DELETE", "OPTIONS", "BREW", "get", "", "G<T"])
        path = rng.choice(PATHS)
        if rng.random() < 0.97:
            env["PATH_INFO"] = path
        env["QUERY_STRING"] = rng.choice(["", "a=1", "a=1&a=2&b", "%zz=%", "a" * 3000, "\xff=\xfe", "a=&&=b", " x "])
        body = rng.choice(body_pool)
        env["wsgi.input"] = io.BytesIO(body)
        cl = rng.choice([None, "", "abc", "-5", str(len(body)), str(len(body) + 10), str(max(0, len(body) - 2)), "0", "1e3", " 3"])
        if cl is not None:
            env["CONTENT_LENGTH"] = cl
        ct = rng.choice([None, "", "application/json", "application/json; charset=latin-1", "application/json; charset=nope",
                         "application/x-www-form-urlencoded", "multipart/form-data", "multipart/form-data; boundary=B",
                         "multipart/form-data; boundary=", "multipart/form-data; boundary=\"b\xffad\"", "text/plain",
                         "multipart/form-data; boundary=" + "x" * 300, ";;;", "a/b; charset"])
        if ct is not None:
            env["CONTENT_TYPE"] = ct
        for key, vals in (("HTTP_COOKIE", ["a=b", "a=b; c", "=;=;", "a=\"b", "\xff", "a b=c", ";" * 50]),
                          ("HTTP_AUTHORIZATION", ["Digest", "Digest username=\"a\"", "Basic x", "Digest \"", "x" * 5000, ""]),
                          ("HTTP_RANGE", ["bytes=0-0", "bytes=5-2", "bytes=-", "bytes=99-", "x", "bytes=1-2,3-4", "bytes=" + "9" * 5000 + "-",
                                          "bytes=2-5", "bytes=-3", "bytes=4-", "chars=1-2"]),
                          ("HTTP_HOST", ["h", "h:80", "h:x", "<b>", "", ":", "[::1]:80"]),
                          ("HTTP_ACCEPT", ["text/html", "a;q=x", ",,,", ""]),
                          ("HTTP_X_FORWARDED_HOST", ["f:1", "f:x"]), ("HTTP_X_FORWARDED_PROTO", ["https", "x"]),
                          ("poor_Debug", ["On", "off", ""]), ("poor_DocumentIndex", ["On", "x"]),
                          ("HTTP_TRANSFER_ENCODING", ["chunked"]), ("HTTP_X_REQUESTED_WITH", ["XMLHttpRequest"])):
            if rng.random() < (0.8 if key == "HTTP_RANGE" and path.startswith("/range") else 0.3):
                env[key] = rng.choice(vals)
        if rng.random() < 0.25:
            # a server that offers the optional file wrapper (PEP 3333): file responses are handed to it
            env["wsgi.file_wrapper"] = lambda f, bs=8192: iter(lambda: f.read(bs), b"")
        calls = []
        try:
            app = apps[1] if rng.random() < 0.3 else apps[0]
            chunks = list(app(dict(env), lambda s, h: calls.append((s, h))))
            outcome = ("answered", calls, chunks) if calls else ("silent", chunks)
        except BaseException as err:
            outcome = ("escaped", err, calls)
        seen += 1
        tag = outcome[0] if outcome[0] != "answered" else calls[0][0][:3]
        stats[tag] = stats.get(tag, 0) + 1
        bad = check_answer("environ", outcome)
        if not bad and outcome[0] == "silent" and "PATH_INFO" in env:
            bad = "no answer for a complete environ"
        if bad:
            shown = {k: (v if isinstance(v, str) else repr(v)[:60]) for k, v in env.items()
                     if k not in ("wsgi.errors",)}
            shown["wsgi.input"] = hx(body[:64])
            if "wsgi.file_wrapper" in shown:
                shown["wsgi.file_wrapper"] = "present"
            if app is apps[1]:
                shown["application"] = "answers 404/500 with response objects it keeps (second and later use)"
            kind = type(outcome[1]).__name__ if outcome[0] == "escaped" else outcome[0]
            out.append(Violation("c01-environ:%s" % kind, shown, bad))
    return out, {"evaluations": seen, "distinct_nontrivial": seen, "environ_outcomes": stats}


def classify(case, obs):
    c = W.parse_case(case)
    vals = [c["ctor"]] + list(c["prog"].values())
    if all(v in ("ok", "same") or v.startswith("ret~S") for v in vals):
        return "trivial-str"
    return "%s-%s" % (c["route"], obs.split()[1][:8] if len(obs.split()) > 1 else obs[:8])
