"""Shared driver of the real Application's registration API and dispatcher (C02, C19).

A case is `Cxx op op ...` (see lean/PoorModel/Drv/Route.lean): registration / removal /
query operations applied in order to a fresh Application, `v` dumps the introspection
views, `q:<method>:<path>:<env>` dispatches a probe request.  Handlers are numbered
functions that record what they were called with.
"""
import io
import os
import re
import shutil
import tempfile
import uuid
import warnings

from harness.core import hx, unhx

_fns = {}
_root = None
_count = [0]


class E0(Exception):
    pass


class E1(E0):
    pass


class E2(Exception):
    pass


ECLS = {0: E0, 1: E1, 2: E2, 9: Exception}
ECLS_ID = {v: k for k, v in ECLS.items()}


def fn(i):
    """handler number i: records how it was called"""
    if i not in _fns:
        def handler(req, *args, **kw):
            env = req.environ if hasattr(req, "environ") else {}
            rec = env.get("verif.calls")
            if rec is not None:
                rec.append((i, args, list(req.path_args.keys()) if hasattr(req, "path_args") else [], req.uri_rule))
            return "h%d" % i
        handler.__name__ = "h%d" % i
        handler.verif_id = i
        _fns[i] = handler
    return _fns[i]


_sfns = {}


def fn_status(i, code):
    """status / exception handler number i: keeps the status it stands for, records nothing"""
    if (i, code) not in _sfns:
        def handler(req, *args, **kw):
            return ("s%d" % i, "text/plain", None, code)
        handler.__name__ = "s%d" % i
        handler.verif_id = i
        _sfns[(i, code)] = handler
    return _sfns[(i, code)]


CONV = {"int": int, "float": float, "str": str, "uuid": uuid.UUID}


def user_conv(n):
    def conv(x):
        return "u%d(%s)" % (n, x)
    conv.__name__ = "u%d" % n
    conv.verif_user = n
    return conv


_uconv = {}


def conv_of(tag):
    if tag in CONV:
        return CONV[tag]
    n = int(tag[1:])
    if n not in _uconv:
        _uconv[n] = user_conv(n)
    return _uconv[n]


def conv_tag(c):
    if c is int:
        return "int"
    if c is float:
        return "float"
    if c is str:
        return "str"
    if c is uuid.UUID:
        return "uuid"
    return "u%d" % getattr(c, "verif_user", 0)


def root():
    global _root
    if _root is None:
        _root = tempfile.mkdtemp(prefix="verif_route_")
        open(os.path.join(_root, "file.txt"), "w").write("F")
        os.makedirs(os.path.join(_root, "dir"))
    return _root


_root2 = None


def root2():
    """a second document root that holds an entry called `debug-info`"""
    global _root2
    if _root2 is None:
        _root2 = tempfile.mkdtemp(prefix="verif_route2_")
        open(os.path.join(_root2, "file.txt"), "w").write("F")
        open(os.path.join(_root2, "debug-info"), "w").write("F")
        os.makedirs(os.path.join(_root2, "dir"))
    return _root2


def show_inner(d):
    return ",".join("%d=%d" % (b, f.verif_id) for b, f in sorted(d.items()))


def views(app):
    b = ",".join(str(f.verif_id) for f in app.before)
    a = ",".join(str(f.verif_id) for f in app.after)
    d = show_inner(app.defaults)
    h = ";".join(sorted("%s{%s}" % (hx(p), show_inner(inner)) for p, inner in app.routes.items()))
    rr = []
    for pat, inner in app.regular_routes.items():
        items = []
        for bit, (f, convs, rule) in sorted(inner.items()):
            items.append("%d=%d/%s/%s" % (bit, f.verif_id, "+".join("%s~%s" % (hx(n), conv_tag(c)) for n, c in convs),
                                          hx(rule) if rule is not None else "-"))
        rr.append("%s{%s}" % (hx(pat.pattern), ",".join(items)))
    s = ";".join(sorted("%d{%s}" % (c, show_inner(inner)) for c, inner in app.states.items() if inner))
    e = ";".join("%d{%s}" % (ECLS_ID[c], show_inner(inner)) for c, inner in app.errors.items() if inner)
    return "B[%s]A[%s]D{%s}H{%s}R{%s}S{%s}E{%s}" % (b, a, d, h, ";".join(rr), s, e)


def render_arg(v):
    if v is None:
        return "str=-"
    if isinstance(v, bool):
        return "str=" + hx(str(v))
    if isinstance(v, int):
        return "int=" + hx(str(v))
    if isinstance(v, float):
        return "float=" + hx(repr(v))
    if isinstance(v, uuid.UUID):
        return "uuid=" + hx(str(v))
    if isinstance(v, str) and v.startswith("u") and "(" in v and v.endswith(")"):
        n, rest = v[1:].split("(", 1)
        if n.isdigit():
            return "u%s=%s" % (n, hx(rest[:-1]))
    return "str=" + hx(v)


def canon_model_arg(tok):
    """model side: `conv=<hex of captured text>` -> what the converter yields, canonically"""
    conv, _, val = tok.partition("=")
    if val == "-":
        return "str=-"
    text = unhx(val).decode("utf-8")
    try:
        if conv == "int":
            return "int=" + hx(str(int(text)))
        if conv == "float":
            return "float=" + hx(repr(float(text)))
        if conv == "uuid":
            return "uuid=" + hx(str(uuid.UUID(text)))
    except Exception:
        return "convfail=" + val
    return "%s=%s" % (conv, val)


def canon_model(line):
    out = []
    for tok in line.split(" "):
        if tok.startswith("pattern:"):
            p = tok.split(":")
            args = ",".join(canon_model_arg(a) for a in p[2].split(",")) if p[2] else ""
            tok = ":".join([p[0], p[1], args] + p[3:])
        out.append(tok)
    return " ".join(out)


def probe(app, method, path, envbits):
    """dispatch a probe request -> Sel rendering"""
    docroot, fsx, fsf, fsd, index, debug = [c in "12" for c in envbits]
    app.document_root = (root2() if envbits[0] == "2" else root()) if docroot else ""
    app.document_index = index
    app.debug = debug
    calls = []
    over = {}
    if envbits[5] in "23":
        # the debug switch given by the request environment, against the attribute: 2 = attribute off, poor_Debug=On;
        # 3 = attribute on, poor_Debug=Off
        app.debug = envbits[5] == "3"
        over = {"poor_Debug": "On" if envbits[5] == "2" else "Off"}
    env = {"REQUEST_METHOD": method, "PATH_INFO": path.encode("utf-8").decode("latin-1"), "QUERY_STRING": "",
           "SERVER_NAME": "srv", "SERVER_PORT": "80", "SERVER_PROTOCOL": "HTTP/1.1", "wsgi.url_scheme": "http",
           "wsgi.input": io.BytesIO(b""), "wsgi.errors": io.StringIO(), "verif.calls": calls}
    env.update(over)
    st = []
    body = b"".join(app(env, lambda s, h: st.append(s)))
    status = st[0][:3] if st else "none"
    if calls:
        i, args, names, rule = calls[0]
        if status != "200":
            return "handler-status:" + status
        from poorwsgi.state import methods, METHOD_GET
        bit = methods.get(method, METHOD_GET)
        if path in app.routes and bit in app.routes[path]:
            return "static:%d" % i
        if rule == "/*":
            return "default:%d" % i
        return "pattern:%d:%s:%s:%s" % (i, ",".join(render_arg(a) for a in args), ",".join(hx(n) for n in names), hx(rule))
    if status == "405":
        return "405"
    if status == "404":
        return "404"
    if status == "403":
        return "403"
    if status == "200":
        text = body[:300].decode("utf-8", "replace")
        if "Poor Wsgi Debug info" in text:
            return "dbg"
        if "<title>Index of" in text:
            return "dir"
        if body == b"F":
            return "file"
    return "other:" + status


def probe_handler(app, op, method, arg):
    """which exception handler (qe: exception class `arg`) or status handler (qs: status `arg`) is dispatched
    for a request with this method -> 's<id>', 'none' (no user handler) or 'builtin'"""
    from poorwsgi.request import Request
    from poorwsgi.response import BaseResponse
    from poorwsgi.wsgi import to_response
    env = {"REQUEST_METHOD": method, "PATH_INFO": "/probe", "QUERY_STRING": "", "SERVER_NAME": "srv", "SERVER_PORT": "80",
           "SERVER_PROTOCOL": "HTTP/1.1", "wsgi.url_scheme": "http", "wsgi.input": io.BytesIO(b""),
           "wsgi.errors": io.StringIO(), "REQUEST_STARTTIME": 0.0}
    req = Request(env, app)
    if op == "qe":
        res = app.error_from_table(req, ECLS[arg]("probe"))
        if res is None:
            return "none"
    else:
        res = app.state_from_table(req, arg)
        if isinstance(res, BaseResponse):
            return "builtin"
        res = to_response(res)
    data = res.data if hasattr(res, "data") else b""
    text = data.decode() if isinstance(data, bytes) else str(data)
    return text if re.fullmatch(r"s\d+", text) else "other"


def fs_bits(path, which="1"):
    """file-system facts for root + normpath(path), computed independently of poorwsgi"""
    full = (root2() if which == "2" else root()) + os.path.normpath(path)
    ex = os.path.exists(full)
    return ex, os.path.isfile(full) and os.access(full, os.R_OK), os.path.isdir(full) and os.access(full, os.R_OK)


def run_ops(case):
    """-> list of output tokens"""
    from poorwsgi import Application
    _count[0] += 1
    app = Application("verif_route_%d_%d" % (os.getpid(), _count[0]))
    outs = []
    for tok in case.split()[1:]:
        p = tok.split(":")
        op = p[0]
        try:
            with warnings.catch_warnings():
                warnings.simplefilter("ignore")
                if op == "sr":
                    app.set_route(unhx(p[1]).decode(), fn(int(p[2])), int(p[3]))
                    outs.append("ok")
                elif op == "pr":
                    app.pop_route(unhx(p[1]).decode(), int(p[2]))
                    outs.append("ok")
                elif op == "ir":
                    outs.append("1" if app.is_route(unhx(p[1]).decode()) else "0")
                elif op == "sx":
                    app.set_regular_route(unhx(p[1]).decode(), fn(int(p[2])), int(p[3]))
                    outs.append("ok")
                elif op == "px":
                    app.pop_regular_route(unhx(p[1]).decode(), int(p[2]))
                    outs.append("ok")
                elif op == "ix":
                    outs.append("1" if app.is_regular_route(unhx(p[1]).decode()) else "0")
                elif op == "sd":
                    app.set_default(fn(int(p[1])), int(p[2]))
                    outs.append("ok")
                elif op == "pd":
                    app.pop_default(int(p[1]))
                    outs.append("ok")
                elif op == "ss":
                    app.set_http_state(int(p[1]), fn_status(int(p[2]), int(p[1])), int(p[3]))
                    outs.append("ok")
                elif op == "ps":
                    app.pop_http_state(int(p[1]), int(p[2]))
                    outs.append("ok")
                elif op == "se":
                    app.set_error_handler(ECLS[int(p[1])], fn_status(int(p[2]), 500), int(p[3]))
                    outs.append("ok")
                elif op == "pe":
                    app.pop_error_handler(ECLS[int(p[1])], int(p[2]))
                    outs.append("ok")
                elif op == "ab":
                    # (both documented forms: the method, and the decorator for hooks with an odd number)
                    if int(p[1]) % 2:
                        app.before_response()(hook_before(int(p[1])))
                    else:
                        app.add_before_response(hook_before(int(p[1])))
                    outs.append("ok")
                elif op == "pb":
                    app.pop_before_response(hook_before(int(p[1])))
                    outs.append("ok")
                elif op == "aa":
                    if int(p[1]) % 2:
                        app.after_response()(hook_after(int(p[1])))
                    else:
                        app.add_after_response(hook_after(int(p[1])))
                    outs.append("ok")
                elif op == "pa":
                    app.pop_after_response(hook_after(int(p[1])))
                    outs.append("ok")
                elif op == "sf":
                    app.set_filter(unhx(p[1]).decode(), unhx(p[2]).decode(), conv_of(p[3]))
                    outs.append("ok")
                elif op == "v":
                    outs.append(views(app))
                elif op == "q":
                    outs.append(probe(app, p[1], unhx(p[2]).decode(), p[3]))
                elif op in ("qe", "qs"):
                    outs.append(probe_handler(app, op, p[1], int(p[2])))
                else:
                    outs.append("bad-op")
        except KeyError:
            outs.append("KeyError")
        except ValueError:
            outs.append("ValueError")
        except RuntimeError:
            outs.append("RuntimeError")
        except re.error:
            outs.append("unsupported")
    return outs, app


_after = {}
_before = {}


def hook_before(i):
    if i not in _before:
        def before(req):
            return None
        before.verif_id = i
        before.__name__ = "before%d" % i
        _before[i] = before
    return _before[i]


def hook_after(i):
    if i not in _after:
        def after(req, res):
            return res
        after.verif_id = i
        after.__name__ = "after%d" % i
        _after[i] = after
    return _after[i]


# before hooks are plain `fn(i)` handlers: they return a str which is ignored


def observe(case):
    outs, _ = run_ops(case)
    return " ".join(outs)


def cleanup():
    if _root:
        shutil.rmtree(_root, ignore_errors=True)
