"""C07 - byte-range answers follow RFC 9110 for every range and representation.

Correspondence: real response objects (poorwsgi.response) vs Poor.Range.respond.
Oracle: an independent RFC 9110 slice function evaluated on the implementation.
"""
import io
import itertools
import json
import os
import tempfile

from harness.core import hx, unhx, Violation, excname

LEAN_TARGETS = ["PoorProofs.Props.C07"]
AUDIT_IMPORTS = ["PoorProofs.Props.C07"]
LEAN_FILES = ["PoorModel/Range.lean", "PoorModel/HeaderValue.lean",
              "PoorProofs/Lemmas/Range.lean", "PoorProofs/Props/C07.lean"]
THEOREMS = ["Poor.Props.C07.rangeGen_spec", "Poor.Props.C07.window_spec",
            "Poor.Props.C07.C07_buffer", "Poor.Props.C07.C07_file",
            "Poor.Props.C07.C07_generator", "Poor.Props.C07.C07_no_range",
            "Poor.Props.C07.C07_first_range_only", "Poor.Props.C07.C07"]
TRUSTED_BASE = ["model Poor.Range hand-written from response.py:170-211,251-310,369-373,512-522,575-601",
                "RE_BYTES_RANGE scanner Poor.HeaderValue.scanRanges (pattern text pinned by Gen.Patterns)"]
ASSUMPTIONS = ["generator responses: declared length equals the total chunk length",
               "file-system and BytesIO semantics (seek/read) as modelled by list drop/take"]
RULE = ("exhaustive L x (first,last) x representation kinds x chunk compositions (bounded per tier) "
        "+ random large L; a case is non-trivial when a range is present (206/416 path)")
EXHAUSTIVE = {"quick": False, "thorough": True}

_tmpdir = None


def tmpdir():
    global _tmpdir
    if _tmpdir is None:
        _tmpdir = tempfile.mkdtemp(prefix="verif_c07_")
    return _tmpdir


def rtok(ranges):
    if not ranges:
        return "none"
    return ";".join("%s:%s" % ("_" if a is None else a, "_" if b is None else b)
                    for a, b in ranges)


def parse_rtok(tok):
    if tok == "none":
        return []
    out = []
    for item in tok.split(";"):
        a, b = item.split(":")
        out.append((None if a == "_" else int(a), None if b == "_" else int(b)))
    return out


def compositions(n, with_empty):
    """all ways to cut a string of length n into chunks (optionally with empty chunks sprinkled)."""
    if n == 0:
        yield []
        if with_empty:
            yield [0]
            yield [0, 0]
        return
    for mask in range(1 << (n - 1)):
        parts, cur = [], 1
        for i in range(n - 1):
            if mask >> i & 1:
                parts.append(cur)
                cur = 1
            else:
                cur += 1
        parts.append(cur)
        yield parts
        if with_empty and mask % 3 == 0:
            for pos in range(len(parts) + 1):
                yield parts[:pos] + [0] + parts[pos:]


def body_of(n, salt=0):
    return bytes((48 + (i * 7 + salt) % 75) for i in range(n))


def chunk_tok(body, parts):
    if not parts:
        return "none"
    out, p = [], 0
    for k in parts:
        out.append(hx(body[p:p + k]))
        p += k
    return "/".join(out)


def single_ranges(L, hi):
    vals = [None] + list(range(0, L + hi + 1))
    for a in vals:
        for b in vals:
            yield (a, b)


def generate(rng, tier):
    maxL = 12 if tier == "thorough" else 6
    cases = []
    for L in range(0, maxL + 1):
        body = body_of(L, L)
        for r in single_ranges(L, 2):
            if r == (None, None):
                continue
            rt = rtok([r])
            cases.append("C07 buf %s %s" % (hx(body), rt))
            cases.append("C07 fileb %s 0 %s" % (hx(body), rt))
            if L <= 8 or tier == "thorough":
                cases.append("C07 filer %s 0 %s" % (hx(body), rt))
                cases.append("C07 filep %s 0 %s" % (hx(body), rt))
            if L <= 6:
                # the application looks at `response.data` (a logging or validating after hook) before it is sent
                for kind in ("filebk", "filerk", "filepk"):
                    cases.append("C07 %s %s 0 %s" % (kind, hx(body), rt))
                cases.append("C07 filebk %s 2 %s" % (hx(body_of(2, 1) + body), rt))
            # offsets > 0: the representation is the tail of a longer file
            for off in (1, 3):
                cases.append("C07 fileb %s %d %s" % (hx(body_of(off, 1) + body), off, rt))
                if L <= 4 or tier == "thorough":
                    cases.append("C07 filer %s %d %s" % (hx(body_of(off, 2) + body), off, rt))
        cases.append("C07 buf %s none" % hx(body))
        cases.append("C07 fileb %s 0 none" % hx(body))
        cases.append("C07 filep %s 0 none" % hx(body))
    # generators: every composition incl. empty chunks
    maxG = 8 if tier == "thorough" else 5
    for L in range(0, maxG + 1):
        body = body_of(L, 3)
        for parts in compositions(L, True):
            ct = chunk_tok(body, parts)
            for r in single_ranges(L, 1):
                if r == (None, None):
                    continue
                cases.append("C07 gen %d %s %s" % (L, ct, rtok([r])))
            cases.append("C07 gen %d %s none" % (L, ct))
    if tier == "thorough":
        for L in range(9, 13):
            body = body_of(L, 5)
            comps = list(compositions(L, False))
            for parts in rng.sample(comps, 60):
                for r in rng.sample(list(single_ranges(L, 2)), 40):
                    if r != (None, None):
                        cases.append("C07 gen %d %s %s" % (L, chunk_tok(body, parts), rtok([r])))
    # a generator that goes on after its declared length (a stream cut at a quota): the representation is its first L bytes,
    # a ranged answer is a slice of those and says so in its headers
    for L in (1, 2, 5):
        for extra in (1, 4):
            body = body_of(L + extra, 6)
            comps = list(compositions(L + extra, False))
            for parts in rng.sample(comps, min(3, len(comps))):
                for r in single_ranges(L, 2):
                    # (an unranged answer of such a generator is what it is: it sends all the generator yields)
                    if r != (None, None) and rfc_window(L, [r]) is not None:
                        cases.append("C07 gen %d %s %s" % (L, chunk_tok(body, parts), rtok([r])))
    # range lists of length 2 and JSON responses
    for L in (0, 1, 5, 10):
        body = body_of(L, 9)
        singles = [r for r in single_ranges(L, 2) if r != (None, None)]
        pairs = list(itertools.product(singles, singles))
        for pr in (pairs if tier == "thorough" and L <= 5 else rng.sample(pairs, min(len(pairs), 150))):
            cases.append("C07 buf %s %s" % (hx(body), rtok(list(pr))))
    for obj in ([], {}, [1, 2, 3], {"k": "žluť", "n": [1, {"a": None}]}, "text", 12345):
        data = json.dumps(obj).encode()
        for r in rng.sample(list(single_ranges(len(data), 2)), 25):
            if r != (None, None):
                cases.append("C07 json %s %s" % (hx(data), rtok([r])))
    # random large representations near the edges
    n_big = 300 if tier == "thorough" else 60
    for _ in range(n_big):
        L = rng.choice([1000, 8192, 65536, 10 ** 6 if tier == "thorough" else 20000, rng.randrange(1, 5000)])
        body = bytes(rng.getrandbits(8) for _ in range(64)) * (L // 64 + 1)
        body = body[:L]
        edge = [0, 1, L - 2, L - 1, L, L + 1, rng.randrange(0, L + 2)]
        r = rng.choice([(rng.choice(edge), rng.choice(edge)), (rng.choice(edge), None),
                        (None, rng.choice(edge))])
        if r[0] is not None and r[0] < 0 or r[1] is not None and r[1] < 0:
            continue
        kind = rng.choice(["buf", "fileb", "gen"])
        if kind == "gen":
            cuts = sorted(rng.randrange(0, L + 1) for _ in range(rng.randrange(0, 6)))
            if r[0] is not None:
                cuts = sorted(set(cuts + [min(L, r[0])]))
            parts, prev = [], 0
            for c in cuts + [L]:
                parts.append(c - prev)
                prev = c
            cases.append("C07 gen %d %s %s" % (L, chunk_tok(body, parts), rtok([r])))
        elif kind == "buf":
            cases.append("C07 buf %s %s" % (hx(body), rtok([r])))
        else:
            cases.append("C07 fileb %s 0 %s" % (hx(body), rtok([r])))
    # a response that is not 200 OK is never made partial; units other than bytes select nothing
    for L in (0, 1, 5):
        body = body_of(L, 7)
        for r in [x for x in single_ranges(L, 1) if x != (None, None)]:
            for status in (201, 203, 404, 500):
                cases.append("C07 bufs %d %s %s" % (status, hx(body), rtok([r])))
            for units in ("lines", "chars", "BYTES"):
                cases.append("C07 bufu %s %s %s" % (units, hx(body), rtok([r])))
            # made partial while 200, then given another status: the range no longer applies
            for status in (404, 500, 201):
                cases.append("C07 bufl %d %s %s" % (status, hx(body), rtok([r])))
    # end-to-end: Range header parsed by the library's own parser, through an Application
    hdrs = ["bytes=0-0", "bytes=2-4", "bytes=-3", "bytes=5-", "bytes=0-1,4-5", "bytes=9-2", "bytes=9-2,1-1",
            "bytes=", "bytes=-", "bytes=--", "bytes=1-2-3", "lines=1-2", "bytes=1-2=3", "nothing",
            "bytes=a-b", "bytes=12a-3", "bytes=0-,", "bytes=,0-1", "bytes= 0-1", "bytes=0 -1", "bytes=-0",
            "bytes=99-", "bytes=10-", "bytes=9-", "bytes=0-99", "bytes=00-01", "BYTES=0-1", "bytes=1-1,1-1,2-2",
            # optional white space around the commas of the list and at its end (RFC 9110 5.6.1)
            "bytes=2-4 , 0-1", "bytes=2-4 ,0-1", "bytes=2-4\t,\t0-1", "bytes=2-4 ", "bytes=-3 , 0-1", "bytes=5- , 0-1",
            "bytes=0-0 ,9-9", "bytes=2-4\t"]
    # ranges set and then replaced or withdrawn on the same response object (a handler that applies the requested range and
    # resets it when If-Range turns out stale): the last call alone decides
    for L in (0, 1, 6):
        body = body_of(L, 7)
        pool = [r for r in single_ranges(L, 2) if r != (None, None)]
        for kind in ("buf", "fileb", "filep", "gen", "json"):
            for r1 in rng.sample(pool, min(len(pool), 4 if tier == "thorough" else 2)):
                for r2tok in ["none", "empty"] + [rtok([r]) for r in rng.sample(pool, min(len(pool), 3))]:
                    cases.append("C07 re %s %s %s %s" % (kind, hx(body), rtok([r1]), r2tok))
    for h in hdrs:
        for L in (0, 1, 10):
            cases.append("C07 hdr %s %s" % (hx(body_of(L, 4)), hx(h)))
            cases.append("C07 hdrf %s %s %d" % (hx(body_of(L, 4)), hx(h), rng.choice([0, 0, 2])))
    for _ in range(200 if tier == "thorough" else 60):
        n = rng.randrange(1, 4)
        items = []
        for _ in range(n):
            a = rng.choice(["", str(rng.randrange(0, 14))])
            b = rng.choice(["", str(rng.randrange(0, 14))])
            items.append(a + "-" + b)
        sep = rng.choice([",", ", ", ",,", " , ", " ,", "\t, "])
        h = rng.choice(["bytes=", "bytes=", "bytes =", "x="]) + sep.join(items)
        cases.append("C07 hdr %s %s" % (hx(body_of(10, 4)), hx(h)))
    return cases


def to_model(case):
    t = case.split()
    if t[1] in ("filebk", "filerk", "filepk"):       # looking at the data does not change the answer
        t[1] = t[1][:-1]
        return to_model(" ".join(t))
    if t[1] == "json":
        return ["C07 buf %s %s" % (t[2], t[3])]
    if t[1] in ("bufs", "bufu", "bufl"):
        return []          # judged by the oracle only
    if t[1] == "re":
        return ["C07 buf %s %s" % (t[3], "none" if t[5] == "empty" else t[5])] if t[2] == "buf" else []
    if t[1] == "hdrf":
        return ["C07 hdr %s %s" % (t[2], t[3])]      # the model answers for the representation, however it is delivered
    if t[1] in ("fileb", "filer"):
        return ["C07 file %s %s 1 1 %s" % (t[2], t[3], t[4])]
    if t[1] == "filep":
        return ["C07 file %s 0 1 1 %s" % (t[2], t[4])]
    return [case]


_app = None


def get_app():
    global _app
    if _app is None:
        from poorwsgi import Application
        from poorwsgi.response import Response
        from poorwsgi.headers import parse_range
        import poorwsgi.wsgi as w
        name = "verif_c07_%d" % os.getpid()
        _app = Application(name)

        @_app.route("/r")
        def r(req):
            res = Response(req.environ["verif.body"])
            ranges = {}
            if "Range" in req.headers:
                ranges = parse_range(req.headers["Range"])
            res.make_partial(ranges.get("bytes", None))
            return res

        @_app.route("/rf")
        def rf(req):
            # a file object, served by a server that offers wsgi.file_wrapper; `verif.off` bytes are not part of it
            from poorwsgi.response import FileObjResponse
            f = io.BytesIO(b"#" * req.environ["verif.off"] + req.environ["verif.body"])
            f.seek(req.environ["verif.off"])
            res = FileObjResponse(f)
            ranges = {}
            if "Range" in req.headers:
                ranges = parse_range(req.headers["Range"])
            res.make_partial(ranges.get("bytes", None))
            return res
    return _app


def run_response(res):
    """Emit a response as wsgi.py does (incl. the 416 re-emission)."""
    from poorwsgi.response import HTTPException
    calls = []

    def start_response(status, headers):
        calls.append((status, headers))
    try:
        it = res(start_response)
    except HTTPException as err:
        res2 = err.make_response()
        it = res2(start_response)
    body = b"".join(it)
    return calls, body


def canon(calls, body):
    if len(calls) != 1:
        return "CALLS:%d" % len(calls)
    status, headers = calls[0]
    cr = [v for k, v in headers if k.lower() == "content-range"]
    cl = [v for k, v in headers if k.lower() == "content-length"]
    if len(cr) > 1 or len(cl) > 1:
        return "DUPHDR"
    return "%s %s %s %s" % (status.split()[0], hx(cr[0]) if cr else "-",
                            cl[0] if cl else "-", hx(body))


def build(case):
    """-> (response object or None, representation bytes, ranges)"""
    from poorwsgi.response import Response, FileObjResponse, FileResponse, GeneratorResponse, JSONResponse
    t = case.split()
    kind = t[1]
    if kind in ("buf", "json"):
        body = unhx(t[2])
        ranges = parse_rtok(t[3])
        if kind == "json":
            res = JSONResponse(json.loads(body.decode()))
            assert res.data == body
        else:
            res = Response(body)
        return res, body, ranges
    if kind in ("fileb", "filer", "filep"):
        content = unhx(t[2])
        pos = int(t[3])
        ranges = parse_rtok(t[4])
        if kind == "fileb":
            f = io.BytesIO(content)
            f.seek(pos)
            res = FileObjResponse(f)
        else:
            path = os.path.join(tmpdir(), "f%d.bin" % (hash(content) & 0xffffff))
            with open(path, "wb") as fh:
                fh.write(content)
            if kind == "filer":
                f = open(path, "rb")
                f.seek(pos)
                res = FileObjResponse(f)
            else:
                res = FileResponse(path)
                pos = 0
        return res, content[pos:], ranges
    if kind == "gen":
        declared = int(t[2])
        chunks = [] if t[3] == "none" else [unhx(c) for c in t[3].split("/")]
        ranges = parse_rtok(t[4])
        res = GeneratorResponse(iter(chunks), content_length=declared)
        return res, b"".join(chunks)[:declared], ranges
    raise ValueError(kind)


def observe_full(case):
    t = case.split()
    if t[1] in ("hdr", "hdrf"):
        body = unhx(t[2])
        hdr = unhx(t[3]).decode()
        env = {"REQUEST_METHOD": "GET", "PATH_INFO": "/r", "SERVER_NAME": "t", "SERVER_PORT": "80",
               "SERVER_PROTOCOL": "HTTP/1.1", "wsgi.url_scheme": "http", "wsgi.input": io.BytesIO(b""),
               "wsgi.errors": io.StringIO(), "HTTP_RANGE": hdr, "verif.body": body}
        if t[1] == "hdrf":
            env.update({"PATH_INFO": "/rf", "verif.off": int(t[4]),
                        "wsgi.file_wrapper": lambda f, bs=3: iter(lambda: f.read(bs), b"")})
        calls = []
        it = get_app()(env, lambda s, h: calls.append((s, h)))
        out = b"".join(it)
        return calls, out, body, None
    if t[1] in ("bufs", "bufu", "bufl"):
        from poorwsgi.response import Response
        rep, ranges = unhx(t[3]), parse_rtok(t[4])
        if t[1] == "bufs":
            res = Response(rep, status_code=int(t[2]))
            res.make_partial(ranges)
        elif t[1] == "bufl":
            res = Response(rep)
            res.make_partial(ranges)
            res.status_code = int(t[2])
        else:
            res = Response(rep)
            res.make_partial(ranges, t[2])
        calls, out = run_response(res)
        return calls, out, rep, ranges
    if t[1] == "re":
        from poorwsgi.response import JSONResponse
        kind, body = t[2], unhx(t[3])
        if kind == "json":
            body = json.dumps([body.decode("latin-1")]).encode()
            res, rep = JSONResponse(json.loads(body.decode())), body
        elif kind == "gen":
            res, rep, _ = build("C07 gen %d %s none" % (len(body), "/".join(hx(body[i:i + 2]) for i in range(0, len(body), 2))
                                                          or "none"))
        elif kind == "buf":
            res, rep, _ = build("C07 buf %s none" % t[3])
        else:
            res, rep, _ = build("C07 %s %s 0 none" % (kind, t[3]))
        res.make_partial(parse_rtok(t[4]))
        if t[5] == "none":
            res.make_partial()
            ranges = []
        elif t[5] == "empty":
            res.make_partial([])
            ranges = []
        else:
            ranges = parse_rtok(t[5])
            res.make_partial(ranges)
        calls, out = run_response(res)
        return calls, out, rep, ranges
    peek = t[1] in ("filebk", "filerk", "filepk")
    if peek:
        case = " ".join([t[0], t[1][:-1]] + t[2:])
    res, rep, ranges = build(case)
    res.make_partial(ranges)
    if peek:
        res.data            # noqa: B018  (reads the file to its end)
    calls, out = run_response(res)
    return calls, out, rep, ranges


def observe(case):
    try:
        calls, out, _, _ = observe_full(case)
    except Exception as err:   # canonical: exception class
        return excname(err)
    return canon(calls, out)


def rfc_window(L, ranges):
    """Independent statement of RFC 9110 14.1.2 for the first usable range.
    -> None (no range: 200 full) | 'unsat' | (first, last)"""
    usable = [(a, b) for a, b in ranges if not (a is not None and b is not None and b < a)]
    if not usable:
        return None
    first, last = usable[0]
    if first is None:
        if last == 0 or L == 0:
            return "unsat"
        return (max(0, L - last), L - 1)
    if first >= L:
        return "unsat"
    return (first, L - 1 if last is None else min(last, L - 1))


def oracle(case):
    t = case.split()
    if any(r == "_:_" for r in t[-1].split(";")):
        return []
    try:
        calls, out, rep, ranges = observe_full(case)
    except Exception as err:
        return [Violation("range-exception", case, "emitting the response raised %r" % (err,))]
    if t[1] in ("hdr", "hdrf"):
        hdr = unhx(t[3]).decode()
        ranges = lib_free_parse(hdr)
        if ranges is None:       # not a well-formed bytes range set: nothing to demand beyond C01
            return []
    L = len(rep)
    if len(calls) != 1:
        return [Violation("range-start-response", case, "start_response called %d times" % len(calls))]
    status, headers = calls[0]
    code = int(status.split()[0])
    hd = {k.lower(): v for k, v in headers}
    want = rfc_window(L, ranges)
    bad = None
    import http.client
    if code in (200, 206, 416) and status != "%d %s" % (code, http.client.responses[code]):
        return [Violation("range:status-line", case, "status line %r, the registered phrase of %d is %r"
                          % (status, code, http.client.responses[code]))]
    if t[1] in ("bufs", "bufu", "bufl"):
        # RFC 9110 14.2: a range applies to a 200 response and to units the server supports, else it is ignored
        want_code = int(t[2]) if t[1] in ("bufs", "bufl") else 200
        if code != want_code or out != rep or "content-range" in hd:
            bad = "the range must be ignored (%s): expected %d with the complete body" % (
                "status %s" % t[2] if t[1] in ("bufs", "bufl") else "units %s" % t[2], want_code)
        if "content-length" in hd and hd["content-length"] != str(len(out)):
            bad = bad or "Content-Length differs from bytes sent"
        if bad:
            return [Violation("range:" + t[1], case, bad, observed="%s %s len=%d" % (status, hd.get("content-range"), len(out)))]
        return []
    if want is None:
        if code != 200 or out != rep:
            bad = "no range: expected 200 with the complete body"
    elif want == "unsat":
        if code != 416 or out:
            bad = "unsatisfiable range: expected 416 without body"
    else:
        f, l = want
        exp = rep[f:l + 1]
        if code != 206:
            bad = "satisfiable range: expected 206"
        elif out != exp:
            bad = "206 body is not the selected slice"
        elif hd.get("content-range") != "bytes %d-%d/%d" % (f, l, L):
            bad = "Content-Range is not 'bytes %d-%d/%d'" % (f, l, L)
        elif hd.get("content-length") != str(len(exp)):
            bad = "Content-Length does not match the slice"
    if "content-length" in hd and hd["content-length"] != str(len(out)):
        bad = bad or "Content-Length differs from bytes sent"
    if bad:
        return [Violation("range:" + classify(case, "%d" % code), case, bad,
                          expected=repr(want), observed="%s %s len=%d" % (status, hd.get("content-range"), len(out)))]
    return []


def lib_free_parse(hdr):
    """well-formed 'bytes=' range sets written by our generator -> pairs, else None"""
    import re
    m = re.fullmatch(r"bytes=(\d*-\d*)([ \t]*,[ \t]*\d*-\d*)*[ \t]*", hdr)
    if not m:
        return None
    out = []
    for item in hdr[6:].split(","):
        a, b = item.strip(" \t").split("-")
        if not a and not b:
            return None
        out.append((int(a) if a else None, int(b) if b else None))
    return out


def classify(case, obs):
    t = case.split()
    if t[-1] == "none" and t[1] != "re":
        return "trivial-norange-" + t[1]
    return "%s-%s" % (t[1], obs.split()[0])
