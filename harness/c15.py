"""C15 - built-in pages never emit request data as markup.

* translator tie: Gen/Pages.lean + Gen/Escape.lean are regenerated from results.py and the
  Lean obligations (`pages_safe`, `escape_table_*`) re-checked; real pages are matched
  against the extracted templates (template conformance validates the translator).
* correspondence: html_escape vs the model's table-driven escape.
* oracle / failing-input search: marker payloads in every request-derived place, pages
  parsed with html.parser; the markup structure must not depend on the payload.
"""
import io
import json
import os
import re
import shutil
import tempfile
from html.parser import HTMLParser

from harness.core import hx, unhx, Violation, excname, LEAN

LEAN_TARGETS = ["PoorProofs.Props.C15"]
AUDIT_IMPORTS = ["PoorProofs.Props.C15"]
LEAN_FILES = ["PoorModel/Html.lean", "PoorProofs/Lemmas/Html.lean", "PoorProofs/Props/C15.lean"]
THEOREMS = ["Poor.Props.C15.escape_is_table_lookup", "Poor.Props.C15.escape_table_safe",
            "Poor.Props.C15.escape_table_covers", "Poor.Props.C15.escape_safe",
            "Poor.Props.C15.pages_safe", "Poor.Props.C15.C15", "Poor.Props.C15.escaped_hole_renders",
            "Poor.Html.post_sound"]
TRUSTED_BASE = ["translator/pages.py: template extraction and the taint tables (request-derived = tainted by default; fails closed)",
                "Poor.Html: 4-state lexical model of HTML tokenisation (no comments / raw-text elements; "
                "the pages' <style> blocks are literal CSS without markup characters)",
                "trusted (server-side) holes are assumed free of the characters < > \" '"]
ASSUMPTIONS = ["REMOTE_ADDR/REMOTE_HOST/SERVER_* and header *names* are server-side values a client cannot choose",
               "html.parser is the reference HTML parser of the failing-input search"]
RULE = ("marker payloads (element injection, double- and single-quoted attribute break-out, combined) in PATH_INFO, "
        "QUERY_STRING, each HTTP_* header, the method token, exception messages and file names x every built-in page "
        "x debug on/off; escape correspondence on random Unicode; non-trivial = the payload reaches the page body")
EXHAUSTIVE = {"quick": True, "thorough": True}

PAYLOADS = {
    "elem": '<script id="MK1">alert(1)</script>',
    "dq": '"><b id=MK2 onmouseover=x a="',
    "sq": "'><i id=MK3 onfocus=y b='",
    "combo": "<u>'\"><s x=\"'&amp;",
    "safe": "SAFEVALUE",
    # text that cannot be encoded (a lone surrogate, as os.fsdecode and json produce them) beside markup: exception messages only
    "selem": '\udc80<script id="MK1">alert(1)</script>',
    "scombo": "<u>'\"><s x=\"'&amp;\ud800",
    "snl": "\udcff\n\"><b id=MK2 onmouseover=x a=\"",
}
SURROGATE_KEYS = ("selem", "scombo", "snl")
METHOD_PAYLOADS = {"tok": "GE'T&x", "safe": "GETX"}
PLACES = ["path", "query", "host", "cookie", "referer", "user_agent", "x_forwarded_for", "x_forwarded_host",
          "x_forwarded_proto", "x_custom", "accept", "excmsg", "admin_absent"]
PAGES = ["404", "405", "403", "400", "401", "500", "501", "listing", "debuginfo"]

_state = {}


def setup():
    if _state:
        return _state
    from poorwsgi import Application, state
    from poorwsgi.response import abort
    root = tempfile.mkdtemp(prefix="verif_c15_")
    for variant, names in (("nasty", ['<img src=x id=MKF>.txt', '"q" a=b.txt', "it's.txt", "a&b <d>"]),
                           ("plain", ['aaaaaaaaaaaaaaaaaaaaaa.txt', 'bbbbbbbbbbb.txt', "cccccccc.txt", "dddddd"])):
        d = os.path.join(root, variant)
        os.makedirs(d)
        for n in names[:3]:
            with open(os.path.join(d, n), "w") as f:
                f.write("x")
        os.makedirs(os.path.join(d, names[3]))
    os.makedirs(os.path.join(root, "noindex"))
    # directories whose own names carry the payloads (a '/' in a payload makes nested directories)
    for pkey, payload in PAYLOADS.items():
        if pkey in SURROGATE_KEYS:
            continue
        d = os.path.join(root, "dirs", *payload.split("/"))
        os.makedirs(d)
        with open(os.path.join(d, "f.txt"), "w") as f:
            f.write("x")
        os.makedirs(os.path.join(d, "sub"))
    app = Application("verif_c15_%d" % os.getpid())
    app.document_root = root
    app.document_index = True
    app.secret_key = "s3cret"
    app.auth_type = "Digest"

    @app.route("/raise")
    def raise_(req):
        raise RuntimeError(req.environ.get("verif.msg", "boom"))

    @app.route("/abort/<code:int>")
    def abort_(req, code):
        if code == 401:
            from poorwsgi.response import HTTPException
            raise HTTPException(401, realm="Zone <z> \"q\"")
        abort(code)

    @app.route("/rx/<code:int>/<rest:re:.*>", method=state.METHOD_ALL)
    def rx(req, code, rest):
        """every error page for a client-chosen path"""
        from poorwsgi.response import HTTPException
        if code == 500:
            raise RuntimeError(req.environ.get("verif.msg", "boom"))
        if code == 401:
            raise HTTPException(401, realm="Zone")
        abort(code)

    @app.route("/only-post", method=state.METHOD_POST)
    def only_post(req):
        return "x"

    @app.route("/json", method=state.METHOD_POST)
    def js(req):
        return "x"

    # every table of the debug page has rows: default handlers, status handlers for several methods,
    # exception handlers, and more before than after hooks
    @app.default(state.METHOD_PUT | state.METHOD_PATCH)
    def fallback(req):
        return "fallback"

    @app.http_state(410, state.METHOD_GET)
    def gone(req, **kwargs):
        return "gone", "text/plain", (), 410

    @app.http_state(410, state.METHOD_POST)
    def gone_post(req, **kwargs):
        return "gone", "text/plain", (), 410

    @app.error_handler(KeyError)
    def on_key(req, err):
        return "key", "text/plain", (), 500

    @app.before_response()
    def before1(req):
        pass

    @app.before_response()
    def before2(req):
        pass

    @app.after_response()
    def after1(req, res):
        return res

    _state.update(app=app, root=root)
    return _state


def cleanup():
    if _state:
        shutil.rmtree(_state["root"], ignore_errors=True)


def request(page, place, payload, debug):
    """-> (status, body text)"""
    st = setup()
    app = st["app"]
    app.debug = debug
    app.document_index = page != "403"
    env = {"REQUEST_METHOD": "GET", "PATH_INFO": "/", "QUERY_STRING": "", "SERVER_NAME": "srv",
           "SERVER_PORT": "80", "SERVER_PROTOCOL": "HTTP/1.1", "wsgi.url_scheme": "http",
           "wsgi.input": io.BytesIO(b""), "wsgi.errors": io.StringIO(), "HTTP_HOST": "example.org",
           "REMOTE_ADDR": "127.0.0.1", "SERVER_SOFTWARE": "verif/1.0"}
    path = {"404": "/nothing-here", "405": "/only-post", "403": "/noindex/", "400": "/json", "401": "/abort/401",
            "500": "/raise", "501": "/abort/418", "listing": "/plain/", "debuginfo": "/debug-info"}[page]
    if page == "400":
        env.update(REQUEST_METHOD="POST", CONTENT_TYPE="application/json", CONTENT_LENGTH="3",
                   **{"wsgi.input": io.BytesIO(b"{x}")})
    tail = ""
    if place == "path":
        if page in ("404",):
            path = "/nothing/" + payload
        elif page in ("400", "401", "403", "405", "500", "501"):
            # the same page for a path the client chose (regular-expression route)
            path = "/rx/%s/%s" % ("418" if page == "501" else page, payload)
            if page == "400":
                env.update(REQUEST_METHOD="GET")
                env.pop("CONTENT_TYPE")
                env.pop("CONTENT_LENGTH")
        elif page == "listing":
            path = "/plain/"       # the listing shows the URI: payload goes to the query instead
            tail = payload
        else:
            tail = payload
    if place == "filenames":
        path = "/nasty/" if payload != "safe" else "/plain/"
    if place == "dirname":
        path = "/dirs/" + payload + "/"
    env["PATH_INFO"] = path.encode("utf-8").decode("latin-1")
    if place == "query" or tail:
        env["QUERY_STRING"] = "q=" + (tail or payload)
    hdr = {"host": "HTTP_HOST", "cookie": "HTTP_COOKIE", "referer": "HTTP_REFERER", "user_agent": "HTTP_USER_AGENT",
           "x_forwarded_for": "HTTP_X_FORWARDED_FOR", "x_forwarded_host": "HTTP_X_FORWARDED_HOST",
           "x_forwarded_proto": "HTTP_X_FORWARDED_PROTO", "x_custom": "HTTP_X_CUSTOM", "accept": "HTTP_ACCEPT"}
    if place in hdr:
        env[hdr[place]] = payload
    if place == "admin_absent":
        env["HTTP_HOST"] = payload        # SERVER_ADMIN absent: webmaster@<host>
    if place == "method":
        env["REQUEST_METHOD"] = payload
    if place == "excmsg":
        env["verif.msg"] = payload
    calls = []
    body = b"".join(app(env, lambda s, h: calls.append((s, h))))
    return calls[0][0] if calls else "none", body.decode("utf-8", "replace")


class Structure(HTMLParser):
    def __init__(self):
        super().__init__(convert_charrefs=True)
        self.events = []

    def handle_starttag(self, tag, attrs):
        self.events.append(("start", tag, tuple(k for k, _ in attrs)))

    def handle_endtag(self, tag):
        self.events.append(("end", tag))

    def handle_comment(self, data):
        self.events.append(("comment",))

    def handle_decl(self, decl):
        self.events.append(("decl",))


def structure(html):
    p = Structure()
    p.feed(html)
    p.close()
    return p.events


def mk(page, place, pkey, debug):
    return "C15 page %s %s %s %d" % (page, place, pkey, 1 if debug else 0)


def generate(rng, tier):
    cases = []
    for page in PAGES:
        for debug in (False, True):
            for place in PLACES:
                for pkey in ("elem", "dq", "sq", "combo"):
                    if place == "excmsg" and page != "500":
                        continue
                    cases.append(mk(page, place, pkey, debug))
            if page == "500":
                for pkey in SURROGATE_KEYS:
                    cases.append(mk(page, "excmsg", pkey, debug))
            cases.append(mk(page, "method", "tok", debug))
            if page == "listing":
                cases.append(mk(page, "filenames", "nasty", debug))
                for pkey in ("elem", "dq", "sq", "combo"):
                    cases.append(mk(page, "dirname", pkey, debug))      # the listed directory's own name
    n = 2000 if tier == "thorough" else 400
    pool = "ab<>\"'&;=/ \\éŽ\U0001F600\n\t%"
    for _ in range(n):
        s = "".join(rng.choice(pool) for _ in range(rng.randrange(0, 12)))
        cases.append("C15 escape " + hx(s))
    return cases


def to_model(case):
    return [case] if case.split()[1] == "escape" else []


def page_of(case):
    t = case.split()
    return t[2], t[3], t[4], t[5] == "1"


def payload_for(place, pkey):
    if place == "method":
        return METHOD_PAYLOADS[pkey]
    if place == "filenames":
        return pkey
    return PAYLOADS[pkey]


def observe(case):
    t = case.split()
    try:
        if t[1] == "escape":
            from poorwsgi.results import html_escape
            return hx(html_escape(unhx(t[2]).decode("utf-8")))
        page, place, pkey, debug = page_of(case)
        status, body = request(page, place, payload_for(place, pkey), debug)
        return "%s %d" % (status.split()[0], len(body))
    except Exception as err:
        return excname(err)


_templates = None


def templates():
    global _templates
    if _templates is None:
        side = json.load(open(os.path.join(LEAN, "PoorModel", "Gen", "Pages.json")))
        _templates = {k: re.compile(v["regex"], re.S) for k, v in side.items()}
    return _templates


PAGE_FN = {"404": "not_found", "405": "method_not_allowed", "403": "forbidden", "400": "bad_request",
           "401": "unauthorized", "500": "internal_server_error", "501": "not_implemented",
           "listing": "directory_index", "debuginfo": "debug_info"}


def conformance(case, obs):
    """real page output must be an instance of the template the translator extracted"""
    t = case.split()
    if t[1] != "page":
        return None
    page, place, pkey, debug = page_of(case)
    status, body = request(page, place, payload_for(place, pkey), debug)
    fn = PAGE_FN[page]
    if page == "debuginfo" and not debug:
        fn = "not_found"
    if not body.startswith("<!DOCTYPE html>"):
        return None     # not a built-in page (e.g. escaped exception); judged elsewhere
    if not templates()[fn].fullmatch(body):
        return "output of %s does not match the extracted template" % fn
    return None


def oracle(case):
    t = case.split()
    if t[1] == "escape":
        from poorwsgi.results import html_escape
        s = unhx(t[2]).decode("utf-8")
        out = html_escape(s)
        if any(c in out for c in "<>\"'"):
            return [Violation("c15-escape", case, "html_escape(%r) contains a markup character: %r" % (s, out))]
        return []
    page, place, pkey, debug = page_of(case)
    try:
        s1, b1 = request(page, place, payload_for(place, pkey), debug)
        # (the harmless twin has as many lines: every traceback line is a <span> of the page's own)
        s0, b0 = request(page, place, "SAFE\nVALUE" if pkey == "snl" else payload_for(place, "safe"), debug)
    except Exception as err:
        return []       # an escaping exception is C01's business
    st1, st0 = structure(b1), structure(b0)
    if st1 != st0:
        diff = next((a for a, b in zip(st1, st0) if a != b), st1[len(st0):][:1] or st0[len(st1):][:1])
        return [Violation("c15:%s:%s" % (PAGE_FN[page], place), case,
                          "markup structure depends on the %s payload %r (first difference %r)"
                          % (place, payload_for(place, pkey), diff),
                          observed=b1[:0])]
    return []


def classify(case, obs):
    t = case.split()
    if t[1] == "escape":
        return "escape"
    return "page-%s-%s" % (t[2], obs.split()[0])
