"""C05 - what a handler returns is what the client receives."""
import json

from harness.core import Violation, hx, unhx, excname
from harness import wsgi_common as W
from harness import json_common as JC

LEAN_TARGETS = ["PoorProofs.Props.C05"]
AUDIT_IMPORTS = ["PoorProofs.Props.C05"]
LEAN_FILES = ["PoorModel/Response.lean", "PoorModel/Json.lean", "PoorProofs/Props/C05.lean", "PoorProofs/Props/JsonCodec.lean",
              "PoorProofs/Lemmas/Json.lean"]
THEOREMS = ["Poor.Props.C05.C05_headers", "Poor.Props.C05.C05_str_bytes", "Poor.Props.C05.C05_json",
            "Poor.Props.C05.C05_none", "Poor.Props.C05.C05_iter", "Poor.Props.C05.C05_junk",
            "Poor.Props.C05.C05_tuple", "Poor.Props.C05.C05_resp", "Poor.Props.C05.C05", "Poor.Props.C05.C05_json_value",
            "Poor.Props.JsonCodec.loadBytes_dumpBytes", "Poor.Props.JsonCodec.dumpBytes_ascii",
            "Poor.Props.JsonCodec.surrogate_pair_merged", "Poor.Json.roundtrip_value", "Poor.Json.scanStr_tail",
            "Poor.Json.pNumber_dumpInt"]
TRUSTED_BASE = ["model Poor.Response hand-written from wsgi.py:47-54, response.py:74-104,251-330,341-373,644-654,811-919",
                "JSON: Poor.Json.dump / loads model CPython's json.dumps (default arguments) and json.loads (C scanner), tied by "
                "the `jd` lines here and the `jl` lines of C10; floats are not modelled (placeholder), int() refuses more than "
                "4300 digits, recursion depth is unbounded in the model",
                "a response object handed back by user code is modelled by its state at hand-back "
                "(status, headers, content_type, body chunks, content_length)"]
ASSUMPTIONS = ["JSON values without floats; strings without a high surrogate directly followed by a low one (CPython joins them)",
               "response objects are used once"]
RULE = ("return values: Unicode str / bytes / nested JSON incl. {} and [] / lists of bytes / lazy iterables / None / "
        "tuples of length 1-5 with every header collection kind and statuses from the whole reason table / every "
        "response class with extra headers incl. repeated Set-Cookie; through to_response+emission and through a real "
        "request; non-trivial = not a plain ASCII str")
EXHAUSTIVE = {"quick": False, "thorough": False}


def extra_factories(rng, n):
    import http.client
    from poorwsgi.response import Response, NoContentResponse, TextResponse
    out = []
    statuses = sorted(http.client.responses) + [418]
    texts = ["", "x", "žluťoučký kůň", "\U0001F600", "a\r\nb", "<b>&"]
    for _ in range(n):
        kind = rng.random()
        st = rng.choice(statuses)
        hs = []
        for _ in range(rng.randrange(0, 4)):
            hs.append((rng.choice(["X-A", "x-a", "Set-Cookie", "Content-Type", "Content-Length", "ETag", "Vary",
                                   "content-type", "CONTENT-TYPE", "content-length", "Content-length", "set-cookie"]),
                       rng.choice(["1", "é", "a=b; Path=/", "", "text/x"])))
        if kind < 0.35:
            d = rng.choice([W.f_str(rng.choice(texts)), W.f_bytes(bytes(rng.getrandbits(8) for _ in range(rng.randrange(0, 5)))),
                            W.f_json(rng.choice([{}, [], {"k": [1, 2, {"z": None}]}, ["ř"], [[]], {"": ""}])),
                            W.F_NONE, W.f_gen([b"a", b"bc"]), W.f_lbytes([b"x", b"y"])])
            W.register(d)
            enc = [(k.encode().decode("latin-1"), v.encode().decode("latin-1")) for k, v in hs]
            kindh = rng.choice(["list", "tuple", "dict", "Headers", "none"])
            if kindh == "dict":
                dd = dict(hs)
                hv = ("h", lambda dd=dd: dict(dd), W.enc_hs([(k.encode().decode("latin-1"), v.encode().decode("latin-1"))
                                                              for k, v in dd.items()]))
            elif kindh == "none":
                hv = ("h", lambda: None, "-")
            elif kindh == "Headers":
                from poorwsgi.headers import Headers
                hv = ("h", lambda hs=hs: Headers(list(hs)), W.enc_hs(enc))
            elif kindh == "tuple":
                hv = ("h", lambda hs=hs: tuple(hs), W.enc_hs(enc))
            else:
                hv = ("h", lambda hs=hs: list(hs), W.enc_hs(enc))
            items = [("c", rng.choice(["text/plain", "application/x-verif; charset=utf-8", ""])), hv, ("s", st)]
            out.append(W.register(W.f_tuple(d, items[:rng.randrange(0, 4)])))
        else:
            body = rng.choice(texts)

            def make(st=st, hs=hs, body=body, kind=kind):
                cls = NoContentResponse if kind > 0.85 else (TextResponse if kind > 0.7 else Response)
                if cls is NoContentResponse:
                    r = cls(status_code=st)
                else:
                    r = cls(body, status_code=st)
                for k, v in hs:
                    r.add_header(k, v)
                return r
            out.append(W.register(W.f_resp(make)))
    return out


def generate(rng, tier):
    p = W.pool()
    vals = p["plain"] + p["junk"] + p["tuples"] + p["resps"] + extra_factories(rng, 3000 if tier == "thorough" else 500)
    cases = ["C05 val " + f.tok for f in vals]
    # the JSON codec: values of every shape, tied to the Lean model of json.dumps (Poor.Json.dump)
    seen = set()
    for i in range(3000 if tier == "thorough" else 500):
        v = JC.rand_value(rng, 3, rng.choice(["dict", "list", None]))
        tok = JC.canon(v)
        if tok not in seen and len(tok) < 4000:
            seen.add(tok)
            cases.append("C05 jd " + tok)
    for f in rng.sample(vals, min(len(vals), 400 if tier == "thorough" else 120)):      # through a real request
        cases.append(W.mk_case("C05", "hit", "ok", 0, 0, [], [], False, {"e": W.beh_ret(f)}))
    return cases


def to_model(case):
    if case.split()[1] == "val":
        return [case]
    if case.split()[1] == "jd":
        return ["JS dump " + case.split()[2]]
    return W.to_model("C01 " + case.split(" ", 1)[1])


def emit_json(tok):
    """the body the client receives for the JSON value `tok` (through to_response for dicts and lists, the way a
    handler's return value goes; through JSONResponse for scalars)"""
    import poorwsgi.wsgi as w
    from poorwsgi.response import JSONResponse
    value = JC.from_canon(tok)
    res = w.to_response(value) if isinstance(value, (dict, list)) else JSONResponse(value)
    calls = []
    chunks = list(res(lambda s, h: calls.append((s, h))))
    return value, calls, b"".join(chunks)


def emit_value(tok):
    import poorwsgi.wsgi as w
    from poorwsgi.response import ResponseError
    value = W._factories[tok].make()
    try:
        res = w.to_response(value)
    except ResponseError:
        return "ResponseError", None
    except TypeError:
        return "TypeError", None
    calls = []
    it = res(lambda s, h: calls.append((s, h)))
    chunks = list(it)
    if not calls:
        return "silent", None
    return W.canon([], ("answered", calls, chunks)).split(" ", 1)[1], (value, calls, chunks)


def observe(case):
    t = case.split()
    try:
        if t[1] == "val":
            return emit_value(t[2])[0]
        if t[1] == "jd":
            return hx(emit_json(t[2])[2])
        return W.observe(case)
    except Exception as err:
        return excname(err)


def expect(value):
    """independent statement of C05 for plain python values -> dict or None (no expectation)"""
    from poorwsgi.response import BaseResponse
    if isinstance(value, BaseResponse):
        return {"resp": value}
    if isinstance(value, tuple):
        return None
    if isinstance(value, str):
        return {"status": 200, "body": value.encode("utf-8"), "ct": "text/html; charset=utf-8"}
    if isinstance(value, bytes):
        return {"status": 200, "body": value, "ct": "text/html; charset=utf-8"}
    if isinstance(value, dict) or (isinstance(value, list) and not (value and isinstance(value[0], bytes))):
        return {"status": 200, "json": value, "ct": "application/json; charset=utf-8"}
    if value is None:
        return {"status": 204, "body": b""}
    if isinstance(value, list):
        return {"status": 200, "body": b"".join(value)}
    if isinstance(value, (int, float)) or type(value) is object:
        return {"error": True}
    return None


def oracle(case):
    t = case.split()
    if t[1] == "jd":
        # a dict or list is delivered as JSON that decodes to an equal value, under a JSON content type
        value, calls, body = emit_json(t[2])
        if any(JC.adjacent_pair(s) for s in JC.strings_of(value)):
            return []       # CPython's own json.loads(json.dumps(s)) != s for a high surrogate followed by a low one
        hd = {k.lower(): v for k, v in calls[0][1]}
        try:
            back = json.loads(body.decode("utf-8"))
        except Exception as err:
            return [Violation("c05:json", case, "the body %r is not JSON in UTF-8: %r" % (body[:60], err))]
        if back != value or type(back) is not type(value):
            return [Violation("c05:json", case, "the body decodes to %r, the handler returned %r" % (back, value))]
        if not hd.get("content-type", "").startswith("application/json") or hd.get("content-length") != str(len(body)):
            return [Violation("c05:json", case, "headers %r for a JSON body of %d bytes" % (calls[0][1], len(body)))]
        return []
    if t[1] != "val":
        return []
    f = W._factories[t[2]]
    sample = f.make()
    exp = expect(sample)
    if hasattr(sample, "__next__"):
        exp = {"status": 200, "body": b"".join(f.make())}
    if isinstance(sample, tuple) and 1 <= len(sample) <= 4:
        data = sample[0]
        e0 = expect(data)
        ok_types = (len(sample) < 2 or isinstance(sample[1], str)) and (len(sample) < 4 or (isinstance(sample[3], int)))
        import http.client
        if e0 and "resp" not in e0 and "error" not in e0 and ok_types and (len(sample) < 4 or sample[3] in http.client.responses) \
                and (len(sample) < 3 or sample[2] is None or not isinstance(sample[2], int)) :
            exp = dict(e0)
            if hasattr(data, "__next__"):
                exp = {"status": 200, "body": b"".join(f.make()[0])}
            if len(sample) >= 4:
                exp["status"] = 204 if (data is None and sample[3] == 200) else sample[3]
            if len(sample) >= 2 and "json" not in exp and data is not None:
                exp["ct"] = sample[1] or None
            if len(sample) >= 3 and sample[2] is not None:
                hdrs = sample[2]
                try:
                    from poorwsgi.headers import Headers
                    exp["hdrs"] = list(Headers(hdrs).items()) if not isinstance(hdrs, Headers) else list(hdrs.items())
                except Exception:
                    exp = {"error": True}
    if exp is None:
        return []
    try:
        obs, detail = emit_value(t[2])
    except Exception as err:
        return [Violation("c05-emit-raises", case, "handing the value back raised %r instead of producing an answer" % (err,))]
    bad = None
    if exp.get("error"):
        if obs not in ("ResponseError", "TypeError"):
            bad = "a value that is not str/bytes/dict/list/iterable/None was accepted: %s" % obs[:80]
    elif obs in ("ResponseError", "TypeError"):
        bad = "value was rejected (%s) although it is one of the documented return shapes" % obs
    elif "resp" in exp:
        res = f.make()
        before = [(k, "x" if k.lower() in W.VOLATILE else v) for k, v in res.headers.items()]
        if obs == "silent":
            return []
        value, calls, chunks = detail
        got = [(k, "x" if k.lower() in W.VOLATILE else v) for k, v in calls[0][1]]
        if got[:len(before)] != before:
            bad = "headers on the response object %r are not an unchanged prefix of the emitted %r" % (before, got)
        else:
            extra = [k.lower() for k, _ in got[len(before):]]
            names = [k.lower() for k, _ in before]
            for k in extra:
                if k not in ("content-type", "content-length") or k in names:
                    bad = "framework added header %s although it was %s" % (k, "present" if k in names else "not its to add")
        if not bad and int(calls[0][0][:3]) != res.status_code:
            bad = "status %s differs from the response object's %d" % (calls[0][0], res.status_code)
        import http.client
        code = int(calls[0][0][:3])
        if not bad and code in http.client.responses and calls[0][0] != "%d %s" % (code, http.client.responses[code]):
            bad = "status line %r, the registered phrase of %d is %r" % (calls[0][0], code, http.client.responses[code])
    else:
        value, calls, chunks = detail
        status = int(calls[0][0][:3])
        body = b"".join(chunks)
        hd = {}
        for k, v in calls[0][1]:
            hd.setdefault(k.lower(), v)
        if status != exp["status"]:
            bad = "status %d, required %d" % (status, exp["status"])
        elif status in (204, 304) and body:
            bad = "body with status %d" % status
        elif status in (204, 304):
            pass        # no message body, whatever was supplied (C06)
        elif "body" in exp and body != exp["body"]:
            bad = "body %r, required %r" % (body[:60], exp["body"][:60])
        elif "json" in exp and json.loads(body.decode("utf-8")) != exp["json"]:
            bad = "JSON body does not decode to the value returned"
        elif exp.get("ct") and "hdrs" not in exp and hd.get("content-type") != exp["ct"]:
            bad = "Content-Type %r, required %r" % (hd.get("content-type"), exp["ct"])
        elif "hdrs" in exp and [h for h in calls[0][1]][:len(exp["hdrs"])] != exp["hdrs"]:
            bad = "headers given in the tuple are not passed on unchanged"
        elif "hdrs" in exp:
            # the tuple form sets exactly those headers: the framework adds Content-Type/Content-Length only
            given = [k.lower() for k, _ in exp["hdrs"]]
            for k, _ in calls[0][1][len(exp["hdrs"]):]:
                if k.lower() not in ("content-type", "content-length") or k.lower() in given:
                    bad = "header %s was added to the headers given in the tuple %r" % (k, exp["hdrs"])
        elif status in (204, 304) and body:
            bad = "body with status %d" % status
    if bad:
        return [Violation("c05:" + t[2][0], case, bad)]
    return []


def extra_oracles(rng, tier):
    """response objects whose status is settled only when they are sent (a 200 made partial becomes 206): the status
    line given to the server carries the code with its registered phrase, the headers of the object unchanged"""
    import http.client
    import io
    from poorwsgi.response import Response, GeneratorResponse, FileObjResponse, TextResponse
    out, n = [], 0
    makers = {
        "Response": lambda: Response(b"0123456789", headers={"X-K": "v"}),
        "TextResponse": lambda: TextResponse("0123456789"),
        "GeneratorResponse": lambda: GeneratorResponse(iter([b"01234", b"56789"]), content_length=10),
        "FileObjResponse": lambda: FileObjResponse(io.BytesIO(b"0123456789")),
    }
    for name, make in makers.items():
        for ranges, want in (([(2, 5)], 206), ([(None, 3)], 206), ([(4, None)], 206), ([(20, 30)], 416), ([], 200)):
            for setter in (None, 201, 404):
                res = make()
                if setter:
                    res.status_code = setter
                res.make_partial(ranges)
                calls = []
                n += 1
                try:
                    body = b"".join(res(lambda s, h: calls.append((s, h))))
                except Exception as err:
                    if want == 416 and not setter:
                        continue        # the 416 of an unsatisfiable range is raised as an HTTP error: C07's business
                    out.append(Violation("c05-partial-raises", "%s %r status=%s" % (name, ranges, setter), "raised %r" % (err,)))
                    continue
                code = int(calls[0][0][:3])
                if calls[0][0] != "%d %s" % (code, http.client.responses[code]):
                    out.append(Violation("c05-status-line", "%s made partial with %r, status set to %s" % (name, ranges, setter),
                                         "status line %r, the registered phrase of %d is %r"
                                         % (calls[0][0], code, http.client.responses[code])))
    # "an iterable of bytes as its concatenation in order": every shape of iterable (sized or lazy, empty or not), alone and
    # as the body of the tuple form
    import collections
    from poorwsgi.wsgi import to_response

    class Chunks:
        def __init__(self, items):
            self.items = items

        def __iter__(self):
            return iter(self.items)

        def __len__(self):
            return len(self.items)

    shapes = {"tuple-in-tuple": lambda c: (tuple(c),), "deque": collections.deque, "iter": iter,
              "sized class": Chunks, "dict values": lambda c: dict(enumerate(c)).values(),
              "generator": lambda c: (x for x in c), "map": lambda c: map(bytes, c),
              "frozenset": lambda c: frozenset(c[:1]), "range(0)": lambda c: range(0) if not c else iter(c)}
    for chunks in ([], [b"only"], [b"ab", b"", b"c"], [b""], [b"", b""]):
        for sname, shape in shapes.items():
            for form in ("alone", "typed", "full"):
                value = shape(list(chunks))
                if sname == "tuple-in-tuple":
                    value = value[0]
                wantbody = b"".join(chunks[:1] if sname == "frozenset" else chunks)
                if form == "alone":
                    ret, wct, wst = (value,), "text/html; charset=utf-8", 200
                elif form == "typed":
                    ret, wct, wst = (value, "application/x-chunks"), "application/x-chunks", 200
                else:
                    ret, wct, wst = (value, "text/plain", {"X-Extra": "1"}, 201), "text/plain", 201
                n += 1
                label = "%s of %r returned %s" % (sname, chunks, form)
                calls = []
                try:
                    res = to_response(ret)
                    body = b"".join(res(lambda s_, h_: calls.append((s_, h_))))
                except Exception as err:
                    out.append(Violation("c05-iterable", label, "raised %r" % (err,)))
                    continue
                hs = dict((k.lower(), v) for k, v in calls[0][1])
                if int(calls[0][0][:3]) != wst or body != wantbody or hs.get("content-type") != wct or \
                        (form == "full" and hs.get("x-extra") != "1"):
                    out.append(Violation("c05-iterable", label, "answered %s %r with Content-Type %r, an iterable of bytes is "
                                         "delivered as its concatenation %r with status %d and Content-Type %r"
                                         % (calls[0][0], body, hs.get("content-type"), wantbody, wst, wct)))
    return out, {"evaluations": n, "distinct_nontrivial": n}


def classify(case, obs):
    t = case.split()
    if t[1] != "val":
        return "request-" + obs.split()[1][:3] if len(obs.split()) > 1 else obs[:10]
    k = t[2][0]
    if k == "S" and all(c < 128 for c in unhx(t[2][1:])):
        return "trivial-ascii-str"
    return {"S": "str", "B": "bytes", "J": "json", "L": "listbytes", "I": "iter", "N": "none", "X": "junk",
            "R": "response", "T": "tuple"}[k] + "-" + obs.split()[0][:14]
