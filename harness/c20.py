"""C20 - diagnostic detail is disclosed only when debug is on."""
import io
import os
import shutil
import tempfile

from harness.core import hx, unhx, Violation, excname

LEAN_TARGETS = ["PoorProofs.Props.C20", "PoorProofs.Props.C02"]
AUDIT_IMPORTS = ["PoorProofs.Props.C20", "PoorProofs.Props.C02"]
LEAN_FILES = ["PoorModel/Html.lean", "PoorModel/Debug.lean", "PoorProofs/Lemmas/Html.lean",
              "PoorProofs/Props/C20.lean"]
THEOREMS = ["Poor.Props.C20.debug_precedence", "Poor.Props.C20.debug_override_cases",
            "Poor.Props.C20.pages_diag_free", "Poor.Props.C20.C20_pages", "Poor.Props.C02.C20_route",
            "Poor.Html.diagFree_sound"]
TRUSTED_BASE = ["translator/pages.py: which holes are diagnostic (handler[...], traceback lines, exc_*, "
                "req.server_software, req.uri_rule) and the `if req.debug` guards it extracts",
                "Poor.Debug.effectiveDebug hand-written from request.py:49-59",
                "dispatcher gate for /debug-info: Poor.Wsgi.select (wsgi.py:1091-1096, 1118-1122)"]
ASSUMPTIONS = ["str.lower() == 'on' is modelled with ASCII lower-casing (no other character lower-cases to o/n)"]
RULE = ("debug attribute {default,True,False} x override {absent,'',On,on,ON,Off,off,other} via request environ and "
        "process environment x failures with a secret token at {construction, before hook, endpoint, status handler, "
        "after hook} x paths {/debug-info, unknown, directory listing} x methods; non-trivial = a failure or debug path")
EXHAUSTIVE = {"quick": True, "thorough": True}

OVERRIDES = [None, "", "On", "on", "ON", "oN", "Off", "off", "OFF", "other", "1", "true", "on "]
SECRET = "S3CR3T-T0K3N-9917"
FAILS = ["none", "ctor", "before", "endpoint", "status", "after"]
PATHS = {"hit": "/hit", "debuginfo": "/debug-info", "unknown": "/no/such", "listing": "/dir/", "rx": "/rx/5",
         "file": "/dir/f.txt", "postonly": "/post-only",
         # the listing of the document root itself, under two spellings
         "rootlisting": "/", "rootlisting2": "//",
         # near spellings of the debug address: unknown paths like any other
         "dbgslash": "/debug-info/", "dbgsub": "/debug-info/x", "dbgdouble": "//debug-info", "dbgupper": "/Debug-Info",
         "dbgdot": "/./debug-info", "dbgext": "/debug-info.html"}
ENDPOINT_PATHS = ("hit", "rx")
METHODS = ["GET", "HEAD", "POST", "DELETE", "BREW"]

_st = {}


def setup():
    if _st:
        return _st
    from poorwsgi import Application
    from poorwsgi.response import abort
    root = tempfile.mkdtemp(prefix="verif_c20_")
    os.makedirs(os.path.join(root, "dir"))
    open(os.path.join(root, "dir", "f.txt"), "w").write("x")
    apps = {}
    for attr in ("default", "true", "false"):
        app = Application("verif_c20_%s_%d" % (attr, os.getpid()))
        if attr == "true":
            app.debug = True
        elif attr == "false":
            app.debug = False
        app.document_root = root
        app.document_index = True

        def before(req):
            if req.environ.get("verif.fail") == "before":
                raise RuntimeError(SECRET)
        before.__name__ = "verif_secret_before_hook"

        def after(req, res):
            if req.environ.get("verif.fail") == "after":
                raise RuntimeError(SECRET)
            return res
        after.__name__ = "verif_secret_after_hook"

        def hit(req):
            f = req.environ.get("verif.fail")
            if f == "endpoint":
                raise RuntimeError(SECRET)
            if f == "status":
                abort(409)
            return "fine"
        hit.__name__ = "verif_secret_endpoint_fn"

        def status409(req, **kw):
            raise RuntimeError(SECRET)
        status409.__name__ = "verif_secret_status_fn"

        app.add_before_response(before)
        app.add_after_response(after)
        from poorwsgi import state
        app.set_route("/hit", hit, state.METHOD_ALL)
        app.set_route("/rx/<n:int>", lambda req, n, _hit=hit: _hit(req), state.METHOD_ALL)
        app.set_route("/post-only", hit, state.METHOD_POST)
        app.set_http_state(409, status409, state.METHOD_ALL)
        apps[attr] = app
    _st.update(apps=apps, root=root)
    return _st


def mk(attr, via, ov, fail, path, method):
    return "C20 req %s %s %s %s %s %s" % (attr, via, "-" if ov is None else hx(ov), fail, path, method)


def generate(rng, tier):
    cases = []
    for ov in OVERRIDES + ["ＯＮ", "ON\n", " on"]:
        for attr in ("0", "1"):
            cases.append("C20 debug %s %s" % ("-" if ov is None else hx(ov), attr))
    for attr in ("default", "true", "false"):
        for via in ("environ", "process"):
            for ov in OVERRIDES:
                if via == "process" and ov is None:
                    continue
                for fail in FAILS:
                    for pk in PATHS:
                        if fail not in ("none", "ctor", "before", "after") and pk not in ENDPOINT_PATHS:
                            continue
                        for method in (METHODS if tier == "thorough" or (fail == "none" and pk == "debuginfo")
                                       else [rng.choice(METHODS), "GET"]):
                            cases.append(mk(attr, via, ov, fail, pk, method))
    # two requests in a row under a server that keeps the settings in the process environment (uWSGI), no override set
    # there: what the first application's attribute said must not reach the second request
    for a1 in ("true", "false", "default"):
        for a2 in ("true", "false", "default"):
            for fail, pk in (("endpoint", "hit"), ("none", "debuginfo"), ("before", "unknown")):
                cases.append("C20 seq %s %s %s %s" % (a1, a2, fail, pk))
    return cases


def to_model(case):
    return [case] if case.split()[1] == "debug" else []


def do_request(case):
    t = case.split()
    attr, via, ov, fail, pk, method = t[2], t[3], t[4], t[5], t[6], t[7]
    ov = None if ov == "-" else unhx(ov).decode()
    app = setup()["apps"][attr]
    env = {"REQUEST_METHOD": method, "PATH_INFO": PATHS[pk], "QUERY_STRING": "", "SERVER_NAME": "srv",
           "SERVER_PORT": "80", "SERVER_PROTOCOL": "HTTP/1.1", "wsgi.url_scheme": "http",
           "wsgi.input": io.BytesIO(b""), "wsgi.errors": io.StringIO(), "HTTP_HOST": "example.org",
           "SERVER_SOFTWARE": "verif-server/9.9", "verif.fail": fail, "VERIF_ENV_MARK": "ENVDUMP-5521"}
    if fail == "ctor":
        env["CONTENT_LENGTH"] = "not-a-number-" + SECRET
    saved = os.environ.get("poor_Debug")
    try:
        if via == "environ-uwsgi":
            env["uwsgi.version"] = "2.0"          # the settings are looked up in the process environment; none is set
        elif via == "environ":
            if ov is not None:
                env["poor_Debug"] = ov
        else:
            env["uwsgi.version"] = "2.0"
            if "\x00" in ov:
                return None
            os.environ["poor_Debug"] = ov
        calls = []
        try:
            body = b"".join(app(env, lambda s, h: calls.append((s, h))))
        except BaseException as err:      # escapes are judged by C01
            return ("escaped:" + type(err).__name__, "", attr, ov)
        return (calls[0][0] if calls else "none", body.decode("utf-8", "replace"), attr, ov)
    finally:
        if via == "process":
            if saved is None:
                os.environ.pop("poor_Debug", None)
            else:
                os.environ["poor_Debug"] = saved


def effective(attr, ov):
    if ov:
        return ov.lower() == "on"
    return attr == "true"


def observe(case):
    t = case.split()
    try:
        if t[1] == "debug":
            from poorwsgi.request import SimpleRequest

            class A:
                debug = t[3] == "1"
            env = {"REQUEST_STARTTIME": 0}
            if t[2] != "-":
                env["poor_Debug"] = unhx(t[2]).decode()
            return "1" if SimpleRequest(env, A()).debug else "0"
        if t[1] == "seq":
            r = do_seq(case)[0]
        else:
            r = do_request(case)
        return "%s %d" % (r[0].split()[0], len(r[1]))
    except Exception as err:
        return excname(err)


LEAKS = [SECRET, "Traceback", "RuntimeError", "ValueError", "verif_secret_", "harness.c20", "ENVDUMP-5521",
         "verif-server/9.9", "wsgi.errors", "uri_handler", "Exception Traceback"]


def do_seq(case):
    """-> (status, body) of the second request, and what the process environment holds afterwards"""
    t = case.split()
    a1, a2, fail, pk = t[2], t[3], t[4], t[5]
    saved = os.environ.pop("poor_Debug", None)
    try:
        res = None
        for attr in (a1, a2):
            res = do_request(mk(attr, "environ", None, fail, pk, "GET").replace(" environ ", " environ-uwsgi ", 1))
        return res, os.environ.get("poor_Debug")
    finally:
        os.environ.pop("poor_Debug", None)
        if saved is not None:
            os.environ["poor_Debug"] = saved


def oracle(case):
    t = case.split()
    if t[1] == "seq":
        res, left = do_seq(case)
        if res is None or res[0].startswith("escaped"):
            return []
        status, body, attr, _ = res
        out = []
        if attr != "true":
            for leak in LEAKS + [_st["root"]]:
                if leak in body:
                    out.append(Violation("c20-seq-leak", case, "after a request to an application with debug %s, a request to one "
                                         "with debug %s (no override anywhere) contains %r" % (t[2], t[3], leak)))
                    break
            if t[5] == "debuginfo" and not status.startswith("404"):
                out.append(Violation("c20-seq-debuginfo", case, "/debug-info answered %s to an application with debug off" % status))
        if left is not None:
            out.append(Violation("c20-seq-environ", case, "poor_Debug=%r was written into the process environment: an override "
                                 "nobody set, which outranks the attribute of every later request" % left))
        return out
    if t[1] == "debug":
        ov = None if t[2] == "-" else unhx(t[2]).decode()
        want = (ov.lower() == "on") if ov else t[3] == "1"
        got = observe(case)
        if got != ("1" if want else "0"):
            return [Violation("c20-precedence", case, "override %r attr %s: debug=%s, required %s" % (ov, t[3], got, want))]
        return []
    r = do_request(case)
    if r is None or r[0].startswith("escaped"):
        return []
    status, body, attr, ov = r
    fail, pk = t[5], t[6]
    on = effective(attr, ov)
    out = []
    if not on:
        # (the document root is a value of the configuration dump: its absolute path is not for a client without debug)
        for leak in LEAKS + [_st["root"]]:
            if leak in body:
                out.append(Violation("c20-leak:%s" % fail, case,
                                     "debug is effectively off but the response contains %r" % leak))
                break
        if pk == "debuginfo" and fail in ("none",):
            ref = do_request(case.replace(" debuginfo ", " unknown "))
            if ref and (status != ref[0]):
                out.append(Violation("c20-debuginfo-off", case,
                                     "/debug-info answered %s but an unknown path %s" % (status, ref[0])))
    else:
        if pk == "debuginfo" and fail == "none" and t[7] in ("GET", "HEAD", "POST", "DELETE", "BREW"):
            if not status.startswith("200"):
                out.append(Violation("c20-debuginfo-on", case, "debug is on but /debug-info answered %s" % status))
        if fail in ("endpoint",) and pk in ENDPOINT_PATHS and status.startswith("500") and "Traceback" not in body:
            out.append(Violation("c20-no-traceback", case, "debug is on but the 500 page has no traceback"))
    return out


def classify(case, obs):
    t = case.split()
    if t[1] == "debug":
        return "flag-" + obs
    if t[1] == "seq":
        return "seq-%s-%s" % (t[4], t[5])
    if t[5] == "none" and t[6] == "hit":
        return "trivial-plain-hit"
    return "%s-%s-%s" % (t[5], t[6], obs.split()[0])
