"""C02 - requests reach exactly the endpoint the routing rules select."""
import re
import uuid

from harness.core import hx, unhx, Violation
from harness import route_common as RC

LEAN_TARGETS = ["PoorProofs.Props.C02"]
AUDIT_IMPORTS = ["PoorProofs.Props.C02"]
LEAN_FILES = ["PoorModel/Regex.lean", "PoorModel/Route.lean", "PoorProofs/Lemmas/Regex.lean", "PoorProofs/Props/C02.lean",
              "PoorProofs/Props/C19.lean"]
THEOREMS = ["Poor.Regex.ms_sound", "Poor.Props.C02.source_facts", "Poor.Props.C02.select_static_first",
            "Poor.Props.C02.select_wrong_method", "Poor.Props.C02.selectRegex_first_match",
            "Poor.Props.C02.selectRegex_skips", "Poor.Props.C02.select_fallbacks",
            "Poor.Props.C02.pattern_args_positional", "Poor.Props.C02.rule_anchored",
            "Poor.Props.C02.inline_re_verbatim", "Poor.Props.C02.C20_route",
            "Poor.Props.C02.C02_reregister_keeps_place", "Poor.Props.C02.C02_new_pattern_last",
            "Poor.Props.C02.C02_registration_order", "Poor.Props.C02.C02_latest_registration",
            "Poor.Props.C02.C02_select_registered", "Poor.Regex.ms_complete", "Poor.Regex.pyMatch_iff",
            "Poor.Props.C02.C02_matcher_complete", "Poor.Props.C02.C02_match_exact"]
TRUSTED_BASE = ["model Poor.Regex: fragment of Python re (checked differentially against CPython on every run); "
                "patterns outside the fragment are answered `unsupported` and counted",
                "model Poor.Route hand-written from wsgi.py:34,149-173,784-898,1023-1124",
                "Gen.Unicode (\\w \\d \\s tables from unicodedata), Gen.Filters (built-in filters, rule anchor), "
                "Gen.Patterns (re_filter text), Gen.State (method bits): regenerated each run",
                "file-system predicates (exists/isfile/isdir/readable) are inputs of `select` computed by the harness"]
ASSUMPTIONS = ["converters int/float/uuid.UUID are CPython's; the model passes the captured text and the converter tag",
               "literal segments of rules contain no regex metacharacters (quantifier of the property)"]
RULE = ("route tables mixing static, group (<n>, :int, :float, :word, :hex, :uuid, :re:<expr> with upper-case classes "
        "and escapes, user filters) and raw regular routes in random registration orders and method masks x paths with "
        "near misses (extra/missing segment, trailing slash, trailing newline, case change, UTF-8 letters) x 9 methods + "
        "unknown tokens x default/docroot/debug; plus pattern x subject pairs against CPython re; "
        "non-trivial = a pattern route or a fallback is consulted")
EXHAUSTIVE = {"quick": False, "thorough": False}

LITS = ["a", "ab", "x-y", "é", "10", "A"]
GROUPS = ["<n>", "<n:int>", "<f:float>", "<w:word>", "<h:hex>", "<u:uuid>", "<r:re:[A-Z]+>", "<r:re:\\S+>",
          "<r:re:[A-F0-9]{2}>", "<w:WORD>", "<q:uint>", "<r:RE:[a-c]+>", "<r:re:\\d{2,3}>", "<k:re:(a|b)+>"]
NEAR = [("rev", r"\d+", "int"), ("re", r"[a-z]+", "u1"), (":region", r"[a-z]{2}", "u2"), ("ref", r"-?\d+", "float"),
        ("in", r"\d", "int"), ("integer", r"\d+", "int"), ("wor", r"\w", "u1"), ("hexa", r"[0-9a-f]+", "u2"),
        ("uuid4", r"[0-9a-f]{4}", "u1"), ("floa", r"\d+\.\d+", "float"), ("Int", r"\d+", "u2"), ("r", r"\d+", "int"),
        ("rea", r"\d+", "int")]
RAWS = [r"/raw/\d+", r"/raw/(?P<id>\w+)", r"/raw/(\w+)/(\d+)?", r"^/an(ch)?$", r"/pre", r"/R/[A-Z]+\Z", r"/o/(a|ab)(c|bcd)(d*)"]
METHODS = ["HEAD", "GET", "POST", "PUT", "DELETE", "TRACE", "OPTIONS", "CONNECT", "PATCH", "BREW", "get"]
SEGS = ["a", "ab", "x-y", "é", "10", "A", "AB", "abc", "-12", "12.5", "12.", "0aF", "DE", "zz", "b a", "٣",
        "12345678-abcd-ABCD-0000-123456789abc", "aab", "", "ac", "abcd"]


def rand_rule(rng):
    n = rng.randrange(1, 4)
    parts = []
    for _ in range(n):
        parts.append(rng.choice(GROUPS) if rng.random() < 0.5 else rng.choice(LITS))
    sep = rng.choice(["/", "/", "-"])
    if rng.random() < 0.9:      # distinct group names (a name used twice is a re.error)
        parts = [re.sub(r"^<\w+", "<g%d" % i, p) for i, p in enumerate(parts)]
    rule = "/" + sep.join(parts)
    if rng.random() < 0.15:
        rule += "/"
    return rule


def seg_for(rng, group):
    """a segment for a rule group: mostly one its filter accepts"""
    if rng.random() < 0.25:
        return rng.choice(SEGS)
    m = re.match(r"<\w+:(re:)?(.*)>$", group, re.I)
    if not m:
        return rng.choice(SEGS)
    if m.group(1):
        rx = m.group(2)
    else:
        known = {"int": r"-?\d+", "float": r"-?\d+(\.\d+)?", "word": r"\w+", "hex": r"[0-9a-fA-F]+", "uint": r"\d+"}
        known.update({n.lstrip(":"): r for n, r, _ in NEAR})
        rx = known.get(m.group(2))
    if rx is None:
        return rng.choice(SEGS)
    try:
        ok = [x for x in SEGS + ["7", "q", "ab12", "1.5", "0a0f"] if re.fullmatch(rx, x)]
    except re.error:
        ok = []
    return rng.choice(ok) if ok else rng.choice(SEGS)


def rand_path(rng, rules):
    r = rng.random()
    if rules and r < 0.75:
        rule = rng.choice(rules)
        # instantiate the rule, then perhaps spoil it
        out = re.sub(r"<[^>]+>", lambda m: seg_for(rng, m.group(0)), rule) if "<" in rule else rule
        if out.startswith("^") or "\\" in out or "(" in out:
            out = rng.choice(["/raw/12", "/raw/ab", "/raw/ab/", "/raw/ab/7", "/an", "/anch", "/anchx", "/pre", "/prefix",
                              "/R/AB", "/R/ab", "/R/AB\n", "/o/abcd", "/o/abd"])
        spoil = rng.random()
        if spoil < 0.1:
            out += "/"
        elif spoil < 0.2:
            out += "\n"
        elif spoil < 0.3:
            out = out.swapcase()
        elif spoil < 0.4:
            out += "/extra"
        elif spoil < 0.5 and out.count("/") > 1:
            out = out.rsplit("/", 1)[0]
        return out
    return rng.choice(["/", "/nothing", "/file.txt", "/dir", "/dir/", "/debug-info", "/a", "/ab", "/é", "/A"])


def generate(rng, tier):
    cases = []
    # 1. regex fragment vs CPython re
    pats = [r"-?\d+(\.\d+)?\Z", r"/(?P<a>[^/]+)-(?P<b>\d+)$", r"/(?P<x>\w+)\Z", r"^/a$", r"/user/(\w+)/(\d+)",
            r"(a|ab)(c|bcd)(d*)", r"(a*)*b", r"(a|b)*c", r"(?P<u>[0-9a-fA-F]{8}-[0-9a-fA-F]{4})", r"[A-Z]+\Z", r"\S+",
            r"(\W??)+", r"a{2,}?b", r"[^\d\s]+", r"[]a]+", r"[a\-z]+", r"\.+", r"a|b|", r"(?:ab)+(c)?"]
    atoms = ["a", "b", "-", "/", "é", "\\d", "\\w", "\\s", "\\S", "\\D", "\\W", ".", "[ab]", "[^/]", "[a-c-]",
             "[0-9a-fA-F]", "[\\d_]", "x", "[A-Z]"]

    def rand_re(depth=0, quantified=False):
        """`quantified`: already under a repetition - no further repetition inside (a nested one over a
        sub-expression that can match the empty string makes every backtracking matcher exponential)"""
        r = rng.random()
        group = False
        if depth > 2 or r < 0.4:
            a = rng.choice(atoms)
        elif r < 0.8:
            group = True
            rep = (not quantified) and rng.random() < 0.35
            inner = lambda: rand_re(depth + 1, quantified or rep)      # noqa: E731
            if r < 0.6:
                a = "(" + inner() + ")"
            elif r < 0.7:
                a = "(?P<g%d>%s)" % (rng.randrange(1000), inner())
            else:
                a = "(?:" + inner() + "|" + inner() + ")"
            if rep:
                a += rng.choice(["*", "+", "?", "{2}", "{1,2}", "{0,}", "*?", "+?", "??"])
            return a
        else:
            return rand_re(depth + 1, quantified) + rand_re(depth + 1, quantified)
        if not quantified and rng.random() < 0.35:
            a += rng.choice(["*", "+", "?", "{2}", "{1,2}", "{0,}", "*?", "+?", "??"])
        return a
    for _ in range(1500 if tier == "thorough" else 300):
        pats.append(rand_re() + rng.choice(["", "", "$", "\\Z"]))
    subs = ["", "a", "ab", "abc", "/ab-c-12\n", "/ab-c-12", "/x/", "-12.5", "12.", "aab", "aac", "abcd", "/é", "/٣",
            "a b", "/user/joe/42", "\n", "a\n", "bb-a", "0aF9-", "12345678-abcd", "AB", "Ab", "]a", "a-z", "..", "ababc"]
    for p in pats:
        try:
            re.compile(p, re.U)
        except re.error:
            continue
        for s in rng.sample(subs, 5) + ["".join(rng.choice("ab-/é1 \nA") for _ in range(rng.randrange(0, 6)))]:
            cases.append("RE %s %s" % (hx(p), hx(s)))
    # 2. route tables
    n = 2500 if tier == "thorough" else 450
    for _ in range(n):
        ops, rules = [], []
        if rng.random() < 0.3:
            ops.append("sf:%s:%s:%s" % (hx("uint"), hx(r"\d+"), "int"))
        if rng.random() < 0.15:
            ops.append("sf:%s:%s:u1" % (hx(":word"), hx(r"[a-z]+")))
        # user filters whose names are near the built-in ones (prefixes, extensions, other case)
        mine = []
        for name, rx, cv in rng.sample(NEAR, rng.choice([0, 0, 1, 2, 3])):
            ops.append("sf:%s:%s:%s" % (hx(name), hx(rx), cv))
            mine.append(name.lstrip(":"))
        later = []
        for i in range(rng.randrange(1, 7)):
            kind = rng.random()
            mask = rng.choice([2, 3, 4, 6, 7, 8, 511, 256, 1])
            if kind < 0.25:
                path = "/" + "/".join(rng.choice(LITS) for _ in range(rng.randrange(1, 3)))
                ops.append("sr:%s:%d:%d" % (hx(path), i + 1, mask))
                rules.append(path)
            elif kind < 0.75:
                rule = rand_rule(rng)
                if mine and rng.random() < 0.7:
                    rule += rng.choice(["/", "-"]) + "<z%d:%s>" % (i, rng.choice(mine))
                ops.append("sr:%s:%d:%d" % (hx(rule), i + 1, mask))
                rules.append(rule)
                r2 = rng.random()
                if r2 < 0.15:     # re-registration of the same pattern for further methods, at once
                    ops.append("sr:%s:%d:%d" % (hx(rule), i + 20, rng.choice([4, 8, 16])))
                elif r2 < 0.45 and "<" in rule:
                    # ... or later, after a more general rule that overlaps it was registered for the same
                    # methods: the pattern keeps the place of its first registration
                    shadow = re.sub(r"<(\w+)(:[^>]+)?>", lambda m: "<%s>" % m.group(1), rule)
                    if shadow != rule:
                        ops.append("sr:%s:%d:%d" % (hx(shadow), i + 30, mask))
                        rules.append(shadow)
                    later.append("sr:%s:%d:%d" % (hx(rule), i + 20, rng.choice([4, 8, 16, 256])))
            else:
                raw = rng.choice(RAWS)
                ops.append("sx:%s:%d:%d" % (hx(raw), i + 1, mask))
                rules.append(raw)
        ops.extend(later)
        # a static route taken away again, method by method - some or all of its methods: with none left the path is
        # no longer a static route at all (pattern routes, files, the default handler answer it again)
        statics = [(unhx(o.split(":")[1]).decode(), int(o.split(":")[3])) for o in ops
                   if o.startswith("sr:") and "<" not in unhx(o.split(":")[1]).decode()]
        if statics and rng.random() < 0.3:
            spath, smask = rng.choice(statics)
            bits = [b for b in (1, 2, 4, 8, 16, 32, 64, 128, 256) if smask & b]
            if rng.random() < 0.4:
                bits = rng.sample(bits, rng.randrange(1, len(bits) + 1))
            for b in bits:
                ops.append("pr:%s:%d" % (hx(spath), b))
            if rng.random() < 0.5:
                # ... where a pattern route or the default handler would match the same path
                ops.append("sr:%s:%d:%d" % (hx(spath.rsplit("/", 1)[0] + "/<last>"), 40, rng.choice([2, 7, 511])))
                rules.append(spath)
        if rng.random() < 0.3:
            ops.append("sd:%d:%d" % (50, rng.choice([2, 7, 511])))
        for _ in range(rng.randrange(3, 9)):
            path = rand_path(rng, rules)
            method = rng.choice(METHODS)
            r = rng.random()
            which = "1" if r < 0.25 else ("2" if r < 0.37 else "0")
            if which == "2" and rng.random() < 0.6:
                path = "/debug-info"       # a file of that name exists under the second document root
            if which != "0":
                ex, isf, isd = RC.fs_bits(path, which) if "\x00" not in path else (False, False, False)
            else:
                ex = isf = isd = False
            bits = "%s%d%d%d%d%d" % (which, ex, isf, isd, rng.random() < 0.5, rng.random() < (0.6 if which == "2" else 0.3))
            if path == "/debug-info" or rng.random() < 0.2:
                # the effective debug switch: attribute, or the request environment overriding it either way
                bits = bits[:5] + rng.choice(["0", "1", "2", "3", "2", "3"])
            ops.append("q:%s:%s:%s" % (method, hx(path), bits))
        cases.append("C02 " + " ".join(ops))
    return cases


def observe(case):
    t = case.split()
    if t[0] == "RE":
        p, s = unhx(t[1]).decode(), unhx(t[2]).decode()
        m = re.compile(p, re.U).match(s)
        if m is None:
            return "none"
        return "match:" + ",".join("-" if g is None else hx(g) for g in m.groups())
    return RC.observe(case)


canon_model = RC.canon_model


def to_model(case):
    """the model takes the file-system facts as booleans: which document root was used does not matter"""
    t = case.split()
    if t[0] == "RE":
        return [case]
    out = []
    for tok in t:
        p = tok.split(":")
        if p[0] == "q" and p[3][0] == "2":
            p[3] = "1" + p[3][1:]
            tok = ":".join(p)
        if p[0] == "q" and p[3][5] in "23":
            p[3] = p[3][:5] + ("1" if p[3][5] == "2" else "0")      # what counts is the effective switch
            tok = ":".join(p)
        out.append(tok)
    return [" ".join(out)]

# ---- reference router written from the property text ------------------------------------------------

BUILTIN = {":int": (r"-?\d+", int), ":float": (r"-?\d+(\.\d+)?", float), ":word": (r"\w+", str),
           ":hex": (r"[0-9a-fA-F]+", str),
           ":uuid": (r"[0-9a-fA-F]{8}-[0-9a-fA-F]{4}-[0-9a-fA-F]{4}-[0-9a-fA-F]{4}-[0-9a-fA-F]{12}", uuid.UUID),
           None: (r"[^/]+", str)}
BITS = {"HEAD": 1, "GET": 2, "POST": 4, "PUT": 8, "DELETE": 16, "TRACE": 32, "OPTIONS": 64, "CONNECT": 128, "PATCH": 256}


def ref_rule(rule, filters):
    """rule text -> (regex for re.fullmatch, [(name, converter)]) or None when a filter is undefined"""
    out, convs, pos = "", [], 0
    for m in re.finditer(r"<(\w+)(:[^>]+)?>", rule):
        out += re.escape(rule[pos:m.start()])
        pos = m.end()
        name, flt = m.group(1), m.group(2)
        key = flt.lower() if flt else None
        if key in filters:
            rx, cv = filters[key]
        elif flt and flt[:4].lower() == ":re:":
            rx, cv = flt[4:], str            # inline expression exactly as written
        else:
            return None
        out += "(?P<%s>%s)" % (name, rx)
        convs.append((name, cv))
    out += re.escape(rule[pos:])
    return out, convs


def ref_dispatch(table, filters, method, path, bits):
    docroot, ex, isf, isd, index, debug = [c in "12" for c in bits]
    bit = BITS.get(method, 2)
    if bits[5] == "3":
        debug = False
    statics = {}
    for kind, key, fn, mask in table:
        if kind == "static":
            statics.setdefault(key, {})
            for b in BITS.values():
                if mask & b:
                    statics[key][b] = fn
    if path in statics:
        return ("static", statics[path][bit]) if bit in statics[path] else ("405",)
    merged = []          # registration order, re-registration of a pattern extends the first entry
    for kind, key, fn, mask in table:
        if kind in ("group", "raw"):
            ent = next((e for e in merged if e[0] == (kind, key)), None)
            if ent is None:
                ent = [(kind, key), {}]
                merged.append(ent)
            for b in BITS.values():
                if mask & b:
                    ent[1][b] = fn
    for (kind, key), methods in merged:
        if kind == "group":
            rx, convs = key
            m = re.fullmatch(rx, path)
        else:
            m = re.match(key, path)
        if m and bit in methods:
            if kind == "group":
                args = tuple(cv(m.group(name)) for name, cv in convs)   # the segment of that group, by name
                return ("pattern", methods[bit], args)
            return ("pattern", methods[bit], m.groups())
    if docroot and bit in (1, 2):
        if not ex:
            if debug and path == "/debug-info":
                return ("dbg",)
        elif isf:
            return ("file",)
        elif index and isd:
            return ("dir",)
        else:
            return ("403",)
    elif debug and path == "/debug-info":
        return ("dbg",)
    d = [t for t in table if t[0] == "default" and t[3] & bit]
    return ("default", d[-1][2]) if d else ("404",)


def oracle(case):
    t = case.split()
    if t[0] == "RE":
        return []
    filters = dict(BUILTIN)
    table = []
    outs, app = RC.run_ops(case)
    bad = []
    for tok, out in zip(t[1:], outs):
        p = tok.split(":")
        if p[0] == "sf":
            name = unhx(p[1]).decode()
            filters[name if name.startswith(":") else ":" + name] = (unhx(p[2]).decode(), RC.conv_of(p[3]))
        elif p[0] == "sr":
            uri = unhx(p[1]).decode()
            if re.search(r"<(\w+)(:[^>]+)?>", uri):
                rr = ref_rule(uri, filters)
                if rr is None:
                    if out != "RuntimeError":
                        bad.append("rule %r with an undefined filter was accepted" % uri)
                    continue
                if out != "ok":
                    continue
                table.append(("group", rr, int(p[2]), int(p[3])))
                # identical compiled text = same table entry: merge by regex text
                table[-1] = ("group", (rr[0], tuple(rr[1])), int(p[2]), int(p[3]))
            else:
                table.append(("static", uri, int(p[2]), int(p[3])))
        elif p[0] == "pr":
            uri, bit = unhx(p[1]).decode(), int(p[2])
            had = any(k == "static" and key == uri and mask & bit for k, key, fn, mask in table)
            if (out == "ok") != had:
                bad.append("removing %r for method bit %d answered %s, registered: %s" % (uri, bit, out, had))
            table = [(k, key, fn, mask & ~bit if (k == "static" and key == uri) else mask) for k, key, fn, mask in table]
            table = [e for e in table if not (e[0] == "static" and e[3] == 0)]
        elif p[0] == "sx":
            table.append(("raw", unhx(p[1]).decode(), int(p[2]), int(p[3])))
        elif p[0] == "sd":
            table.append(("default", "", int(p[1]), int(p[2])))
        elif p[0] == "q":
            path = unhx(p[2]).decode()
            norm = [(k, (key[0], key[1]) if k == "group" else key, fn, mask) for k, key, fn, mask in table]
            want = ref_dispatch(norm, filters, p[1], path, p[3])
            got = out.split(":")
            ok = True
            if want[0] in ("405", "404", "403", "dbg", "file", "dir"):
                ok = out == want[0]
            elif want[0] in ("static", "default"):
                ok = out == "%s:%d" % (want[0], want[1])
            else:
                ok = got[0] == "pattern" and got[1] == str(want[1]) and \
                    (got[2].split(",") if got[2] else []) == [RC.render_arg(a) for a in want[2]]
            if not ok:
                bad.append("%s %r dispatched as %s, the routing rules select %r" % (p[1], path, out[:80], want))
    if bad:
        return [Violation("c02:" + bad[0].split()[0], case, bad[0])]
    return []


def classify(case, obs):
    t = case.split()
    if t[0] == "RE":
        return "re-" + obs.split(":")[0]
    kinds = set(o.split(":")[0] for o in obs.split() if o not in ("ok",))
    if kinds <= {"static", "404"}:
        return "trivial-static-only"
    return "table-" + "+".join(sorted(k for k in kinds if k in ("pattern", "405", "default", "file", "dir", "dbg", "403")))
