/-
Prelude of the executable model: byte strings, protocol tokens, small Python-isms.
No Mathlib import anywhere under PoorModel (the same definitions are compiled into
the native `driver` and are what the theorems in PoorProofs talk about).
-/
namespace Poor

abbrev Bytes := List UInt8
abbrev Str := List Char

def CR : UInt8 := 13
def LF : UInt8 := 10

/-! ### protocol tokens: hex bytes, `-` = None, `.` = empty -/

def hexDigit (n : Nat) : Char :=
  if n < 10 then Char.ofNat (48 + n) else Char.ofNat (87 + n)

def hexVal (c : Char) : Option Nat :=
  if '0' ≤ c ∧ c ≤ '9' then some (c.toNat - 48)
  else if 'a' ≤ c ∧ c ≤ 'f' then some (c.toNat - 87)
  else if 'A' ≤ c ∧ c ≤ 'F' then some (c.toNat - 55)
  else none

def hexEncode (b : Bytes) : String :=
  if b.isEmpty then "." else
  String.ofList (b.flatMap fun x => [hexDigit (x.toNat / 16), hexDigit (x.toNat % 16)])

def hexDecodeAux : List Char → Option Bytes
  | [] => some []
  | a :: b :: rest => do
    let x ← hexVal a
    let y ← hexVal b
    let r ← hexDecodeAux rest
    pure (UInt8.ofNat (x * 16 + y) :: r)
  | _ => none

/-- token → bytes (`.` is the empty string) -/
def hexDecode (s : String) : Option Bytes :=
  if s = "." then some [] else hexDecodeAux s.toList

/-- token → optional bytes (`-` is None) -/
def hexDecodeOpt (s : String) : Option (Option Bytes) :=
  if s = "-" then some none else (hexDecode s).map some

def natOpt (s : String) : Option (Option Nat) :=
  if s = "-" then some none else s.toNat?.map some

def showOptNat : Option Nat → String
  | none => "-"
  | some n => toString n

/-- UTF-8 text carried as hex -/
def strDecode (s : String) : Option Str := do
  let b ← hexDecode s
  let ba := ByteArray.mk b.toArray
  (String.fromUTF8? ba).map String.toList

def strEncode (s : Str) : String := hexEncode (String.ofList s).toUTF8.toList

/-! ### Python-isms -/

/-- Python truthiness of an `Optional[int]` -/
def truthyNat : Option Nat → Bool
  | some (n + 1) => true
  | _ => false

/-- Python `s[a:b]` for non-negative indices -/
def slice (l : List α) (a b : Nat) : List α := (l.take b).drop a

end Poor
