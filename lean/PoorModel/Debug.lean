import PoorModel.Prelude
/- `SimpleRequest.__init__`: effective debug flag (request.py:49-59) - property C20 -/
namespace Poor.Debug

def lowerAscii (s : Str) : Str := s.map Char.toLower

/-- `var = poor_environ.get('poor_Debug'); debug = (var.lower() == 'on') if var else app.debug` -/
def effectiveDebug (override : Option Str) (attr : Bool) : Bool :=
  match override with
  | some (c :: rest) => lowerAscii (c :: rest) == "on".toList
  | _ => attr

end Poor.Debug
