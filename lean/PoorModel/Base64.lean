import PoorModel.Prelude
/-
base64 as the session cookie uses it (session.py:247, 273): `base64.b64encode` and `base64.b64decode`
with their defaults, i.e. `binascii.b2a_base64(newline=False)` and `binascii.a2b_base64(strict_mode=False)`
of CPython 3.12 (`Modules/binascii.c`).  The decoder is the C loop: characters outside the alphabet are
skipped, a pad character ends the input once the current quad is complete, data left in an incomplete
quad is an error.  `(x << k) | y` on disjoint bits is written `x * 2^k + y`.
-/
namespace Poor.Base64

def encChar (i : Nat) : Char :=
  if i < 26 then Char.ofNat (65 + i)
  else if i < 52 then Char.ofNat (97 + (i - 26))
  else if i < 62 then Char.ofNat (48 + (i - 52))
  else if i = 62 then '+' else '/'

def decChar (c : Char) : Option Nat :=
  if 'A' ≤ c ∧ c ≤ 'Z' then some (c.toNat - 65)
  else if 'a' ≤ c ∧ c ≤ 'z' then some (c.toNat - 97 + 26)
  else if '0' ≤ c ∧ c ≤ '9' then some (c.toNat - 48 + 52)
  else if c = '+' then some 62
  else if c = '/' then some 63
  else none

/-- `b64encode` -/
def encode : Bytes → Str
  | [] => []
  | [a] => [encChar (a.toNat / 4), encChar (a.toNat % 4 * 16), '=', '=']
  | [a, b] => [encChar (a.toNat / 4), encChar (a.toNat % 4 * 16 + b.toNat / 16), encChar (b.toNat % 16 * 4), '=']
  | a :: b :: c :: rest =>
    encChar (a.toNat / 4) :: encChar (a.toNat % 4 * 16 + b.toNat / 16) ::
      encChar (b.toNat % 16 * 4 + c.toNat / 64) :: encChar (c.toNat % 64) :: encode rest

/-- the decoder's registers: position in the quad, bits left over, pad characters seen, output so far -/
structure DSt where
  quad : Nat := 0
  left : Nat := 0
  pads : Nat := 0
  out : Bytes := []
deriving Repr

/-- the loop of `a2b_base64` (non-strict): `none` = `binascii.Error` -/
def decodeFrom (s : DSt) : Str → Option Bytes
  | [] => if s.quad = 0 then some s.out else none
  | c :: rest =>
    if c = '=' then
      if s.quad ≥ 2 then
        if s.quad + (s.pads + 1) ≥ 4 then some s.out        -- a pad sequence: no more input is parsed
        else decodeFrom { s with pads := s.pads + 1 } rest
      else decodeFrom s rest
    else match decChar c with
      | none => decodeFrom s rest                            -- not in the alphabet: skipped
      | some v =>
        if s.quad = 0 then decodeFrom { s with quad := 1, left := v, pads := 0 } rest
        else if s.quad = 1 then
          decodeFrom { quad := 2, left := v % 16, pads := 0, out := s.out ++ [UInt8.ofNat (s.left * 4 + v / 16)] } rest
        else if s.quad = 2 then
          decodeFrom { quad := 3, left := v % 4, pads := 0, out := s.out ++ [UInt8.ofNat (s.left * 16 + v / 4)] } rest
        else
          decodeFrom { quad := 0, left := 0, pads := 0, out := s.out ++ [UInt8.ofNat (s.left * 64 + v)] } rest

/-- `b64decode` -/
def decode (s : Str) : Option Bytes := decodeFrom {} s

end Poor.Base64
