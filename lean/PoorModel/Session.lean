import PoorModel.Prelude
/-
Model of poorwsgi.session: `hidden` (XOR with the sha512 key stream), the value pipeline
of PoorSession.write / load, and the cookie attribute state machine
(write / destroy / header).  Property C13.

json, the compression module and base64 are CPython's: they are parameters (`Codec`) whose
round-trip laws are hypotheses of the theorems, sampled against the real modules by the
harness.  The sha512 digest of the secret is the parameter `key` (64 bytes in practice).
-/
namespace Poor.Session

/-- `hidden(text, passwd)`: `text[i] ^ key[i % len(key)]` -/
def hiddenFrom (key : Bytes) : Nat → Bytes → Bytes
  | _, [] => []
  | i, b :: rest => (b ^^^ key.getD (i % key.length) 0) :: hiddenFrom key (i + 1) rest

def hidden (key text : Bytes) : Bytes := hiddenFrom key 0 text

structure Codec (Data : Type) where
  dumps : Data → Bytes                 -- json.dumps(data).encode()
  loads : Bytes → Option Data          -- json.loads; none = raises
  isDict : Data → Bool
  compress : Bytes → Bytes
  decompress : Bytes → Option Bytes    -- none = raises
  b64enc : Bytes → Str
  b64dec : Str → Option Bytes          -- none = raises

variable {Data : Type}

/-- the cookie value `write()` stores -/
def writeValue (c : Codec Data) (key : Bytes) (data : Data) : Str :=
  c.b64enc (c.compress (hidden key (c.dumps data)))

/-- `load()` on the raw cookie value: `ok none` = empty value (data stays as it was),
    `error ()` = SessionError; nothing else can happen -/
def loadValue (c : Codec Data) (key : Bytes) (raw : Str) : Except Unit (Option Data) :=
  if raw.isEmpty then .ok none
  else match c.b64dec raw with
    | none => .error ()
    | some z => match c.decompress z with
      | none => .error ()
      | some h => match c.loads (hidden key h) with
        | none => .error ()
        | some d => if c.isDict d then .ok (some d) else .error ()

/-! ### cookie attributes -/

structure Cfg where
  expires : Int            -- 0 = not configured
  maxAge : Option Int
  domain : Str
  path : Str
  secure : Bool
  sameSite : Option Str
deriving Repr, DecidableEq

/-- the attributes stored on the cookie (they persist between writes) -/
structure Attrs where
  httpOnly : Bool := false
  secure : Bool := false
  domain : Option Str := none
  path : Option Str := none
  sameSite : Option Str := none
  expires : Option Int := none
  maxAge : Option Int := none
deriving Repr, DecidableEq

structure St where
  cfg : Cfg
  attrs : Attrs
deriving Repr, DecidableEq

def St.init (cfg : Cfg) : St := ⟨cfg, {}⟩

/-- `write()`: HttpOnly always, the configured attributes when set -/
def write (s : St) : St :=
  let a := s.attrs
  let a := { a with httpOnly := true }
  let a := if s.cfg.domain.isEmpty then a else { a with domain := some s.cfg.domain }
  let a := if s.cfg.path.isEmpty then a else { a with path := some s.cfg.path }
  let a := if s.cfg.secure then { a with secure := true } else a
  let a := match s.cfg.sameSite with | some v => { a with sameSite := some v } | none => a
  let a := if s.cfg.expires ≠ 0 then { a with expires := some s.cfg.expires } else a
  let a := match s.cfg.maxAge with | some m => { a with maxAge := some m } | none => a
  { s with attrs := a }

/-- `destroy()`: expire the cookie now and for every later write -/
def destroy (s : St) : St :=
  let cfg := { s.cfg with expires := -1, maxAge := s.cfg.maxAge.map fun _ => -1 }
  let a := { s.attrs with expires := some (-1), httpOnly := true }
  let a := match s.cfg.maxAge with | some _ => { a with maxAge := some (-1) } | none => a
  let a := if s.cfg.secure then { a with secure := true } else a
  ⟨cfg, a⟩

inductive Op where
  | load | write | header | destroy
deriving Repr, DecidableEq

/-- `header()` = `write()` then output; `load` does not touch the attributes -/
def step (s : St) : Op → St
  | .load => s
  | .write => write s
  | .header => write s
  | .destroy => destroy s

/-- what a `header()` call emits for the session cookie -/
def headerAttrs (s : St) : Attrs := (write s).attrs

end Poor.Session
