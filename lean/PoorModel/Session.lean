import PoorModel.Prelude
import PoorModel.Json
import PoorModel.Base64
/-
Model of poorwsgi.session: `hidden` (XOR with the sha512 key stream), the value pipeline
of PoorSession.write / load, and the cookie attribute state machine
(write / destroy / header).  Property C13.

json, the compression module and base64 are CPython's: they are parameters (`Codec`) whose
round-trip laws are hypotheses of the theorems, sampled against the real modules by the
harness.  The sha512 digest of the secret is the parameter `key` (64 bytes in practice).
-/
namespace Poor.Session

/-- `hidden(text, passwd)`: `text[i] ^ key[i % len(key)]` -/
def hiddenFrom (key : Bytes) : Nat → Bytes → Bytes
  | _, [] => []
  | i, b :: rest => (b ^^^ key.getD (i % key.length) 0) :: hiddenFrom key (i + 1) rest

def hidden (key text : Bytes) : Bytes := hiddenFrom key 0 text

structure Codec (Data : Type) where
  dumps : Data → Bytes                 -- json.dumps(data).encode()
  loads : Bytes → Option Data          -- json.loads; none = raises
  isDict : Data → Bool
  compress : Bytes → Bytes
  decompress : Bytes → Option Bytes    -- none = raises
  b64enc : Bytes → Str
  b64dec : Str → Option Bytes          -- none = raises

variable {Data : Type}

/-- the cookie value `write()` stores -/
def writeValue (c : Codec Data) (key : Bytes) (data : Data) : Str :=
  c.b64enc (c.compress (hidden key (c.dumps data)))

/-- `load()` on the raw cookie value: `ok none` = empty value (data stays as it was),
    `error ()` = SessionError; nothing else can happen -/
def loadValue (c : Codec Data) (key : Bytes) (raw : Str) : Except Unit (Option Data) :=
  if raw.isEmpty then .ok none
  else match c.b64dec raw with
    | none => .error ()
    | some z => match c.decompress z with
      | none => .error ()
      | some h => match c.loads (hidden key h) with
        | none => .error ()
        | some d => if c.isDict d then .ok (some d) else .error ()

/-! ### cookie attributes -/

structure Cfg where
  expires : Int            -- 0 = not configured
  maxAge : Option Int
  domain : Str
  path : Str
  secure : Bool
  sameSite : Option Str
deriving Repr, DecidableEq

/-- the attributes stored on the cookie (they persist between writes) -/
structure Attrs where
  httpOnly : Bool := false
  secure : Bool := false
  domain : Option Str := none
  path : Option Str := none
  sameSite : Option Str := none
  expires : Option Int := none
  maxAge : Option Int := none
deriving Repr, DecidableEq

structure St where
  cfg : Cfg
  attrs : Attrs
deriving Repr, DecidableEq

def St.init (cfg : Cfg) : St := ⟨cfg, {}⟩

/-- `write()`: HttpOnly always, the configured attributes when set -/
def write (s : St) : St :=
  let a := s.attrs
  let a := { a with httpOnly := true }
  let a := if s.cfg.domain.isEmpty then a else { a with domain := some s.cfg.domain }
  let a := if s.cfg.path.isEmpty then a else { a with path := some s.cfg.path }
  let a := if s.cfg.secure then { a with secure := true } else a
  let a := match s.cfg.sameSite with | some v => { a with sameSite := some v } | none => a
  let a := if s.cfg.expires ≠ 0 then { a with expires := some s.cfg.expires } else a
  let a := match s.cfg.maxAge with | some m => { a with maxAge := some m } | none => a
  { s with attrs := a }

/-- `destroy()`: expire the cookie now and for every later write -/
def destroy (s : St) : St :=
  let cfg := { s.cfg with expires := -1, maxAge := s.cfg.maxAge.map fun _ => -1 }
  let a := { s.attrs with expires := some (-1), httpOnly := true }
  let a := match s.cfg.maxAge with | some _ => { a with maxAge := some (-1) } | none => a
  let a := if s.cfg.secure then { a with secure := true } else a
  ⟨cfg, a⟩

inductive Op where
  | load | write | header | destroy
deriving Repr, DecidableEq

/-- `header()` = `write()` then output; `load` does not touch the attributes -/
def step (s : St) : Op → St
  | .load => s
  | .write => write s
  | .header => write s
  | .destroy => destroy s

/-- what a `header()` call emits for the session cookie -/
def headerAttrs (s : St) : Attrs := (write s).attrs

/-! ### the session object over its life: data, assignments, the cookie value -/

/-- the codec with JSON and base64 made concrete: only the compression module remains a parameter -/
def jsonCodec (compress : Bytes → Bytes) (decompress : Bytes → Option Bytes) : Codec Poor.Json.J :=
  { dumps := Poor.Json.dumpBytes, loads := Poor.Json.loadBytes,
    isDict := fun d => match d with | .obj _ => true | _ => false,
    compress := compress, decompress := decompress,
    b64enc := Poor.Base64.encode, b64dec := Poor.Base64.decode }

/-- a session without compression (`compress=None`): every piece concrete -/
def plainCodec : Codec Poor.Json.J := jsonCodec id some

/-- the session object with its data and the value its cookie currently carries -/
structure DSt (Data : Type) where
  st : St
  data : Data
  value : Str            -- '' until the first write

/-- what a handler does with a session object -/
inductive DOp (Data : Type) where
  | set (d : Data)       -- `session.data = d` / any change of the dictionary
  | write | header | destroy

def dstep (c : Codec Data) (key : Bytes) (s : DSt Data) : DOp Data → DSt Data
  | .set d => { s with data := d }
  | .write => { s with st := write s.st, value := writeValue c key s.data }
  | .header => { s with st := write s.st, value := writeValue c key s.data }      -- `header()` writes, always
  | .destroy => { s with st := destroy s.st }

def drun (c : Codec Data) (key : Bytes) (s : DSt Data) (ops : List (DOp Data)) : DSt Data := ops.foldl (dstep c key) s

/-- the data after a history: the last assignment, the initial data if there was none -/
def lastData (d0 : Data) : List (DOp Data) → Data
  | [] => d0
  | .set d :: ops => lastData d ops
  | _ :: ops => lastData d0 ops

end Poor.Session
