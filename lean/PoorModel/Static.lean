import PoorModel.Prelude
/-
Model of static serving (wsgi.py handler_from_table, file part): `posixpath.normpath`,
the file consulted for a request path, and the visible-entry filter of
results.directory_index.  Property C12.  The decision file / listing / 403 / method gate
over the file-system predicates is `Poor.Route.select`.
-/
namespace Poor.Static

/-- `str.split('/')` -/
def splitSlash : Str → List Str
  | [] => [[]]
  | c :: rest =>
    if c = '/' then [] :: splitSlash rest
    else match splitSlash rest with
      | h :: t => (c :: h) :: t
      | [] => [[c]]

def dotdot : Str := ['.', '.']

/-- one step of the component loop of `posixpath.normpath`; the stack is kept top-first -/
def stepComp (abs : Bool) (stack : List Str) (comp : Str) : List Str :=
  if comp = [] ∨ comp = ['.'] then stack
  else if comp ≠ dotdot ∨ (abs = false ∧ stack = []) ∨ stack.head? = some dotdot then comp :: stack
  else stack.tail

def joinSlash (comps : List Str) : Str := ['/'].intercalate comps

/-- number of leading slashes `normpath` keeps: 0, 1, or 2 (exactly two are preserved) -/
def initialSlashes : Str → Nat
  | '/' :: '/' :: '/' :: _ => 1
  | '/' :: '/' :: _ => 2
  | '/' :: _ => 1
  | _ => 0

/-- `posixpath.normpath` -/
def normpath (s : Str) : Str :=
  if s = [] then ['.'] else
  let init := initialSlashes s
  let stack := (splitSlash s).foldl (stepComp (init != 0)) []
  let path := List.replicate init '/' ++ joinSlash stack.reverse
  if path = [] then ['.'] else path

/-- `path.lstrip('/')` -/
def lstripSlash (s : Str) : Str := s.dropWhile (· = '/')

/-- the file the dispatcher consults: `root + normpath('/' + path.lstrip('/'))` -/
def rfile (root path : Str) : Str := root ++ normpath ('/' :: lstripSlash path)

/-- `directory_index`: which entries of `os.listdir` are shown (before sorting); the parent
    link `..` is added below the document root -/
def visible (names : List Str) (readable : Str → Bool) (belowRoot : Bool) : List Str :=
  ((if belowRoot then names ++ [dotdot] else names).filter fun item =>
    !(item.head? = some '.' && (item.drop 1).head? != some '.') &&   -- dot files
    !(item.getLast? = some '~') &&                                     -- backup files
    readable item)

end Poor.Static
