import PoorModel.Prelude
/-
Model of the header value parsers/renderers of poorwsgi/headers.py:
parse_range (RE_BYTES_RANGE scanner), parse_header/_parseparam, _formatparam,
parse_negotiation/render_negotiation.  Properties C07 (end-to-end), C18.
-/
namespace Poor.HeaderValue

def isDigit (c : Char) : Bool := '0' ≤ c && c ≤ '9'

/-- value of a decimal digit string (`int(s)`); callers guarantee digits only -/
def natOfDigits (s : Str) : Nat := s.foldl (fun acc c => acc * 10 + (c.toNat - 48)) 0

theorem length_dropWhile_le (p : α → Bool) (l : List α) : (l.dropWhile p).length ≤ l.length := by
  induction l with
  | nil => simp
  | cons a l ih => simp only [List.dropWhile]; split <;> simp <;> omega

/-- `RE_BYTES_RANGE.findall(pairs)` for the pattern `(\d*)-(\d*),?`:
    leftmost, non-overlapping matches; a position where no match starts is skipped. -/
def scanRanges : Str → List (Str × Str)
  | [] => []
  | c :: cs =>
    let s := c :: cs
    let d1 := s.takeWhile isDigit
    match h : s.dropWhile isDigit with
    | '-' :: r2 =>
      let d2 := r2.takeWhile isDigit
      let r3 := r2.dropWhile isDigit
      let r4 := match r3 with
        | ',' :: t => t
        | _ => r3
      (d1, d2) :: scanRanges r4
    | _ => scanRanges cs
termination_by s => s.length
decreasing_by
  all_goals simp_wf
  · have h1 := length_dropWhile_le isDigit (c :: cs)
    have h2 := length_dropWhile_le isDigit r2
    rw [h] at h1
    simp only [List.length_cons] at h1
    split
    · rename_i t heq
      rw [heq] at h2; simp only [List.length_cons] at h2; omega
    · omega

/-- CPython refuses `int()` of more than 4300 digits with ValueError -/
def INT_MAX_DIGITS : Nat := 4300

def splitOnEq (s : Str) : List Str :=
  s.splitOn '='

abbrev RangeT := Option Nat × Option Nat

/-- `parse_range`: `none` is the `{}` result (not exactly one `=`, or an integer
    too long for `int`), otherwise the unit and the pairs. -/
def parseRange (value : Str) : Option (Str × List RangeT) :=
  match splitOnEq value with
  | [unit, pairs] =>
    let raw := (scanRanges pairs).filter (fun p => !(p.1.isEmpty && p.2.isEmpty))
    if raw.any (fun p => p.1.length > INT_MAX_DIGITS || p.2.length > INT_MAX_DIGITS) then none
    else
      some (unit, raw.map fun p =>
        ((if p.1.isEmpty then none else some (natOfDigits p.1)),
         (if p.2.isEmpty then none else some (natOfDigits p.2))))
  | _ => none

end Poor.HeaderValue
