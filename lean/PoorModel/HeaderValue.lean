import PoorModel.Prelude
/-
Model of the header value parsers/renderers of poorwsgi/headers.py:
parse_range (RE_BYTES_RANGE scanner), parse_header/_parseparam, _formatparam,
parse_negotiation/render_negotiation.  Properties C07 (end-to-end), C18.
-/
namespace Poor.HeaderValue

def isDigit (c : Char) : Bool := '0' ≤ c && c ≤ '9'

/-- value of a decimal digit string (`int(s)`); callers guarantee digits only -/
def natOfDigits (s : Str) : Nat := ((String.ofList s).toNat?).getD 0

theorem length_dropWhile_le (p : α → Bool) (l : List α) : (l.dropWhile p).length ≤ l.length := by
  induction l with
  | nil => simp
  | cons a l ih => simp only [List.dropWhile]; split <;> simp <;> omega

/-- `RE_BYTES_RANGE.findall(pairs)` for the pattern `(\d*)-(\d*),?`:
    leftmost, non-overlapping matches; a position where no match starts is skipped. -/
def scanRanges : Str → List (Str × Str)
  | [] => []
  | c :: cs =>
    let s := c :: cs
    let d1 := s.takeWhile isDigit
    match h : s.dropWhile isDigit with
    | '-' :: r2 =>
      let d2 := r2.takeWhile isDigit
      let r3 := r2.dropWhile isDigit
      let r4 := match r3 with
        | ',' :: t => t
        | _ => r3
      (d1, d2) :: scanRanges r4
    | _ => scanRanges cs
termination_by s => s.length
decreasing_by
  all_goals simp_wf
  · have h1 := length_dropWhile_le isDigit (c :: cs)
    have h2 := length_dropWhile_le isDigit r2
    rw [h] at h1
    simp only [List.length_cons] at h1
    split
    · rename_i t heq
      rw [heq] at h2; simp only [List.length_cons] at h2; omega
    · omega

/-- CPython refuses `int()` of more than 4300 digits with ValueError -/
def INT_MAX_DIGITS : Nat := 4300

/-- `unit, pairs = value.split("=")`: exactly one `=`, else ValueError (`none`) -/
def splitEq (value : Str) : Option (Str × Str) :=
  match value.dropWhile (· != '=') with
  | '=' :: pairs => if pairs.contains '=' then none else some (value.takeWhile (· != '='), pairs)
  | _ => none

abbrev RangeT := Option Nat × Option Nat

/-- `parse_range`: `none` is the `{}` result (not exactly one `=`, or an integer
    too long for `int`), otherwise the unit and the pairs. -/
def parseRange (value : Str) : Option (Str × List RangeT) :=
  match splitEq value with
  | some (unit, pairs) =>
    let raw := (scanRanges pairs).filter (fun p => !(p.1.isEmpty && p.2.isEmpty))
    if raw.any (fun p => p.1.length > INT_MAX_DIGITS || p.2.length > INT_MAX_DIGITS) then none
    else
      some (unit, raw.map fun p =>
        ((if p.1.isEmpty then none else some (natOfDigits p.1)),
         (if p.2.isEmpty then none else some (natOfDigits p.2))))
  | _ => none

end Poor.HeaderValue

namespace Poor.HeaderValue
open Poor

/-! ### parameterised header values: `_parseparam`, `parse_header`, `_formatparam` -/

/-- `str.isspace()` for the characters `str.strip()` removes -/
def isSpace (c : Char) : Bool :=
  let n := c.toNat
  (9 ≤ n && n ≤ 13) || (28 ≤ n && n ≤ 32) || n = 133 || n = 160 || n = 5760 || (8192 ≤ n && n ≤ 8202)
    || n = 8232 || n = 8233 || n = 8239 || n = 8287 || n = 12288

def strip (s : Str) : Str := ((s.dropWhile isSpace).reverse.dropWhile isSpace).reverse

/-- the inner loop of `_parseparam`: the text up to the next `;` outside quotes (a backslash
    inside quotes hides the next character), and what follows -/
def splitSeg : Bool → Str → Str × Str
  | _, [] => ([], [])
  | true, '\\' :: c :: r => ('\\' :: c :: (splitSeg true r).1, (splitSeg true r).2)
  | true, ['\\'] => (['\\'], [])
  | q, c :: r =>
    if c = '"' then ('"' :: (splitSeg (!q) r).1, (splitSeg (!q) r).2)
    else if c = ';' && !q then ([], ';' :: r)
    else (c :: (splitSeg q r).1, (splitSeg q r).2)

theorem splitSeg_length (q : Bool) (s : Str) : (splitSeg q s).2.length ≤ s.length := by
  fun_induction splitSeg q s <;> simp_all <;> omega

/-- `_parseparam(s)`: the stripped segments -/
def parseParam : Str → List Str
  | ';' :: s => strip (splitSeg false s).1 :: parseParam (splitSeg false s).2
  | _ => []
termination_by s => s.length
decreasing_by
  have := splitSeg_length false s
  simp only [List.length_cons]; omega

/-- `str.replace(a ++ b, r)` for a two-character needle: leftmost, non-overlapping -/
def replacePair (a b r : Char) : Str → Str
  | x :: y :: rest => if x = a ∧ y = b then r :: replacePair a b r rest else x :: replacePair a b r (y :: rest)
  | s => s

/-- `value.replace('\\\\', '\\').replace('\\"', '"')` -/
def unescape (s : Str) : Str := replacePair '\\' '"' '"' (replacePair '\\' '\\' '\\' s)

def lowerAscii (s : Str) : Str := s.map Char.toLower

/-- `pdict[name] = value` -/
def dictSet (d : List (Str × Str)) (k v : Str) : List (Str × Str) :=
  if d.any (fun e => e.1 == k) then d.map fun e => if e.1 == k then (k, v) else e else d ++ [(k, v)]

/-- the value part of a `name=value` segment: `p[i+1:].strip()` -/
def paramValue (p : Str) : Str := strip ((p.dropWhile (· != '=')).drop 1)

/-- `if len(value) >= 2 and value[0] == value[-1] == '"': value = unescape(value[1:-1])` -/
def unquoteIfQuoted (value : Str) : Str :=
  if value.length ≥ 2 && value.head? = some '"' && value.getLast? = some '"'
  then unescape ((value.drop 1).dropLast) else value

/-- one `name=value` parameter segment -/
def parseOne (p : Str) : Option (Str × Str) :=
  if p.contains '=' then
    some (lowerAscii (strip (p.takeWhile (· != '='))), unquoteIfQuoted (paramValue p))
  else none

/-- `parse_header(line)`: the main value and the parameter dictionary (insertion order) -/
def parseHeader (line : Str) : Str × List (Str × Str) :=
  match parseParam (';' :: line) with
  | [] => ([], [])
  | key :: parts =>
    (key, parts.foldl (fun d p => match parseOne p with | some (k, v) => dictSet d k v | none => d) [])

/-- the escaping `_formatparam` applies inside the quotes -/
def escQ (v : Str) : Str :=
  v.flatMap fun c => if c = '\\' then ['\\', '\\'] else if c = '"' then ['\\', '"'] else [c]

/-- `name="value"` as `add_header(..., **{name: value})` renders it (non-empty value) -/
def renderParam (k v : Str) : Str := k ++ "=\"".toList ++ escQ v ++ "\"".toList

/-- a whole parameterised header value: `"; ".join(parts)` with the main value (if given)
    and one `name="value"` part per keyword -/
def renderHeader (main : Option Str) (ps : List (Str × Str)) : Str :=
  "; ".toList.intercalate (main.toList ++ ps.map fun kv => renderParam kv.1 kv.2)

/-! ### negotiation lists -/

def splitOnChar (c : Char) (s : Str) : List Str := s.splitOn c

/-- split at the first occurrence of `;q=` -/
def splitQ : Str → Option (Str × Str)
  | ';' :: 'q' :: '=' :: r => some ([], r)
  | c :: r => (splitQ r).map fun x => (c :: x.1, x.2)
  | [] => none

/-- one item of `parse_negotiation`: the value and the text after the first `;q=` up to
    the next `;q=` (what `float()` is applied to), if any -/
def parseNegoItem (item : Str) : Str × Option Str :=
  match splitQ item with
  | none => (strip item, none)
  | some (v, r) =>
    let q := match splitQ r with | some (q, _) => q | none => r
    (strip v, some q)

def parseNegotiation (value : Str) : List (Str × Option Str) := (value.splitOn ',').map parseNegoItem

/-- one item as `render_negotiation` writes it: `value` or `value;q=quality` -/
def renderNegoItem (v : Str) (q : Option Str) : Str :=
  match q with
  | none => v
  | some q => v ++ (';' :: 'q' :: '=' :: q)

/-- `', '.join(values)` -/
def joinCommaSpace : List Str → Str
  | [] => []
  | [x] => x
  | x :: y :: rest => x ++ ',' :: ' ' :: joinCommaSpace (y :: rest)

/-- `render_negotiation`; the quality is given by its text (`str(q)`) -/
def renderNegotiation (items : List (Str × Option Str)) : Str :=
  joinCommaSpace (items.map fun x => renderNegoItem x.1 x.2)


end Poor.HeaderValue
