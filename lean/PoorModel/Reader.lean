import PoorModel.Prelude
/-
Model of poorwsgi.request.CachedInput (request.py): the block-caching body reader.
Property C09; the `readline` reader also feeds the multipart parser (C08).

The underlying `wsgi.input` is a byte list `src` plus a *short-read script*: the i-th
underlying `read(k)` delivers `min k (script[i] + 1)` bytes (all `k` when the script
is exhausted), and fewer only at the end of `src`.
-/
namespace Poor.Reader

structure St where
  buf  : Bytes
  todo : Nat                 -- declared length minus bytes delivered so far
  src  : Bytes               -- unread part of the underlying stream
  script : List Nat
  log  : List (Nat × Nat)    -- every underlying read: (bytes requested, todo before), newest first
deriving Repr

def St.init (src : Bytes) (n : Nat) (script : List Nat) : St :=
  { buf := [], todo := n, src := src, script := script, log := [] }

/-- `data = file.read(k); todo -= len(data)` -/
def St.under (s : St) (k : Nat) : Bytes × St :=
  let m := match s.script with | [] => k | x :: _ => min k (x + 1)
  let d := s.src.take m
  (d, { s with src := s.src.drop m, script := s.script.tail,
               todo := s.todo - d.length, log := (k, s.todo) :: s.log })

/-- what is still owed to the caller: buffered bytes, then the rest of the declared body -/
def St.pending (s : St) : Bytes := s.buf ++ s.src.take s.todo

/-- `CachedInput.read(size)` (size already resolved: negative means block_size) -/
def read (s : St) (size : Nat) : Bytes × St :=
  let size := min (s.todo + s.buf.length) size
  if s.buf.length ≥ size then
    (s.buf.take size, { s with buf := s.buf.drop size })
  else
    let (d, s') := s.under (size - s.buf.length)
    (s.buf ++ d, { s' with buf := [] })

/-- `__fill(size)`: only called with an empty buffer -/
def St.fill (s : St) (size : Nat) : St :=
  let k := min s.todo size
  if k = 0 then { s with buf := [] }
  else
    let (d, s') := s.under k
    { s' with buf := d }

/-- `bytes.find(b'\r\n', 0, lim)`: index of the first CRLF lying entirely in the first `lim` bytes -/
def findCRLF : Bytes → Nat → Option Nat
  | a :: b :: rest, lim =>
    if lim < 2 then none
    else if a = CR ∧ b = LF then some 0
    else (findCRLF (b :: rest) (lim - 1)).map (· + 1)
  | _, _ => none

/-- top of the loop body: refill an empty buffer -/
def St.prep (s : St) (win : Nat) : St := if s.buf = [] then s.fill win else s

/-- the `while len(line) < size` loop of `readline` -/
def readlineLoop (size : Nat) (line : Bytes) (s : St) : Bytes × St :=
  if h : line.length ≥ size then (line, s)
  else
    if hb : (s.prep (size - line.length)).buf = [] then (line, s.prep (size - line.length))  -- end of input
    else if line.getLast? = some CR ∧ (s.prep (size - line.length)).buf.head? = some LF then
      (line ++ [LF], { s.prep (size - line.length) with buf := (s.prep (size - line.length)).buf.tail })
    else
      match findCRLF (s.prep (size - line.length)).buf (size - line.length) with
      | some p => (line ++ (s.prep (size - line.length)).buf.take (p + 2),
                   { s.prep (size - line.length) with buf := (s.prep (size - line.length)).buf.drop (p + 2) })
      | none => readlineLoop size (line ++ (s.prep (size - line.length)).buf.take (size - line.length))
                   { s.prep (size - line.length) with buf := (s.prep (size - line.length)).buf.drop (size - line.length) }
termination_by size - line.length
decreasing_by
  simp only [List.length_append, List.length_take]
  have : 0 < (s.prep (size - line.length)).buf.length := by
    cases hbb : (s.prep (size - line.length)).buf with
    | nil => exact absurd hbb hb
    | cons a l => simp
  omega

/-- after the loop: a line cut by the size limit does not keep the CR of a CRLF - while more
    input may follow, a trailing CR goes back to the buffer (`sz`: the effective size) -/
def giveBack (sz : Nat) (r : Bytes × St) : Bytes × St :=
  if sz ≤ r.1.length ∧ r.1.length > 1 ∧ r.1.getLast? = some CR ∧ (r.2.buf ≠ [] ∨ r.2.todo > 0) then
    (r.1.dropLast, { r.2 with buf := CR :: r.2.buf })
  else r

/-- `CachedInput.readline(size)` (size already resolved) -/
def readline (s : St) (size : Nat) : Bytes × St :=
  giveBack (min size (s.buf.length + s.todo)) (readlineLoop (min size (s.buf.length + s.todo)) [] s)

/-- resolve a Python size argument: negative means `block_size` -/
def resolve (block : Nat) (size : Int) : Nat := if size < 0 then block else size.toNat

inductive Op where
  | read (size : Int)
  | readline (size : Int)
deriving Repr

def step (block : Nat) (s : St) : Op → Bytes × St
  | .read sz => read s (resolve block sz)
  | .readline sz => readline s (resolve block sz)

/-- run a history of calls; returns the results in order and the final state -/
def run (block : Nat) : St → List Op → List Bytes × St
  | s, [] => ([], s)
  | s, op :: ops =>
    let (r, s1) := step block s op
    let (rs, s2) := run block s1 ops
    (r :: rs, s2)

end Poor.Reader
