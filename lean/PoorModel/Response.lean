import PoorModel.Headers
/-
Model of response construction and emission: poorwsgi.wsgi.to_response,
poorwsgi.response.make_response, the response classes' constructors as far as their
emission differs, BaseResponse.__start_response__ (no-range part) and
NoContentResponse.__start_response__.  Properties C05, C01, C04, C06 (no-body).
-/
namespace Poor.Response
open Poor Poor.Headers

/-- emission family of a response object -/
inductive Cls where
  | base        -- Response, JSON, Text, Redirect, Partial, Generator, StrGenerator, FileObj, File
  | noContent   -- NoContentResponse, EmptyResponse, NotModifiedResponse
  | declined    -- Declined
deriving DecidableEq, Repr

/-- a response object as handed back by user code or built by the framework -/
structure Resp where
  cls : Cls
  status : Nat
  headers : Hs            -- the Headers object's pairs (already latin-1 native strings)
  ctype : Str             -- `content_type` attribute
  body : List Bytes       -- what iterating the body yields (buffer: one chunk)
  clen : Nat              -- `content_length` attribute
deriving Repr, DecidableEq

/-- header collection given to a constructor: `None`, pairs (list/tuple/dict/Headers), or junk -/
inductive HdrArg where
  | none | pairs (h : Hs) | bad
deriving Repr, DecidableEq

/-- positional items 2.. of the tuple form -/
inductive TupItem where
  | ctype (s : Str) | hdrs (h : HdrArg) | status (n : Nat) | junk
deriving Repr

/-- values user callables return -/
inductive Val where
  | str (utf8 : Bytes)             -- text, by its UTF-8 bytes
  | bytes (b : Bytes)
  | json (dumped : Bytes)          -- dict, or list that is empty / whose first item is not bytes
  | listBytes (chunks : List Bytes)   -- non-empty list whose first item is bytes
  | iter (chunks : List Bytes)     -- any other iterable (generator, tuple inside a tuple ...)
  | none
  | junk                           -- int, arbitrary object: not iterable
  | resp (r : Resp)
  | tuple (data : Val) (rest : List TupItem)   -- (data, content_type, headers, status_code, ...)
deriving Repr

inductive Exc where
  | http (code : Nat) (kwBad : Bool) (needsRealm : Bool)   -- abort(code, **kw)
  | httpResp (r : Resp)                                    -- abort(response)
  | conn | sysExit | respErr
  | other (cls : Nat)       -- an `Exception` subclass, by class id
  | base                    -- a `BaseException` that is not an `Exception`
deriving Repr

/-- class id under which framework/library exceptions appear to `isinstance` -/
def Exc.classId : Exc → Option Nat
  | .other c => some c
  | .conn => some 8           -- ConnectionError: an Exception, not a user class
  | .respErr => some 7        -- ResponseError (RuntimeError)
  | .http .. | .httpResp _ => some 6
  | .sysExit | .base => none  -- not Exceptions

def Exc.isException (e : Exc) : Bool := e.classId.isSome

def xPoweredBy : Hs := [("X-Powered-By".toList, "Poor WSGI for Python".toList)]

/-- `BaseResponse.__init__` header handling -/
def initHeaders : HdrArg → Option Hs
  | .none => some xPoweredBy
  | .pairs h => some h
  | .bad => none

/-- status codes known to `http.client.responses` (+ 418); generated check in Gen.Reasons -/
def knownStatus (reasons : List (Nat × String)) (s : Nat) : Bool := (reasons.lookup s).isSome

def htmlType : Str := "text/html; charset=utf-8".toList
def jsonType : Str := "application/json; charset=utf-8".toList

/-- `make_response(data, content_type, headers, status_code)`; `none` = ResponseError -/
def makeResponse (reasons : List (Nat × String)) (data : Val) (ctype : Option Str) (hdrs : HdrArg)
    (status : Nat) : Option Resp :=
  if !knownStatus reasons status then none else
  match initHeaders hdrs with
  | none => none
  | some h =>
    match data, ctype with
    | .str b, some ct | .bytes b, some ct => some ⟨.base, status, h, ct, [b], b.length⟩
    | .json d, _ => some ⟨.base, status, h, jsonType, [d], d.length⟩       -- content_type is ignored
    | .none, _ => some ⟨.noContent, if status = 200 then 204 else status, h, [], [], 0⟩
    | .listBytes cs, some ct | .iter cs, some ct => some ⟨.base, status, h, ct, cs, 0⟩
    | _, _ => none                 -- junk data, or a content type that is not a str

/-- result of coercing a handler's return value -/
inductive Coerced where
  | ok (r : Resp)
  | respErr          -- ResponseError
  | typeErr          -- more than four tuple items: TypeError from the call itself
deriving Repr

/-- `to_response` -/
def toResponse (reasons : List (Nat × String)) : Val → Coerced
  | .resp r => .ok r
  | .tuple data rest =>
    if rest.length > 3 then .typeErr else
    let ct : Option Str := match (rest[0]? : Option TupItem) with
      | none => some htmlType | some (.ctype s) => some s | some _ => none
    let hd : HdrArg := match (rest[1]? : Option TupItem) with
      | none => .none | some (.hdrs h) => h | some _ => .bad
    let st : Option Nat := match (rest[2]? : Option TupItem) with
      | none => some 200 | some (.status n) => some n | some _ => none
    match st, data with
    | _, .tuple _ _ => .respErr
    | some st, d =>
      (match makeResponse reasons d ct hd st with | some r => .ok r | none => .respErr)
    | _, _ => .respErr
  | v => match makeResponse reasons v (some htmlType) .none 200 with
    | some r => .ok r
    | none => .respErr

/-! ### emission -/

structure Emitted where
  status : Nat
  reason : String
  headers : Hs
  body : Bytes
deriving Repr, DecidableEq

def natStr (n : Nat) : Str := (toString n).toList

/-- `response(start_response)` for a response that was not made partial.
    `none` = Declined: nothing is sent, `start_response` is not called. -/
def emit (reasons : List (Nat × String)) (r : Resp) : Option Emitted :=
  let reason := (reasons.lookup r.status).getD ""
  match r.cls with
  | .declined => none
  | .noContent => some ⟨r.status, reason, r.headers, []⟩
  | .base =>
    if r.status = 304 || r.status = 204 then some ⟨r.status, reason, r.headers, []⟩ else
    let h1 := if !r.ctype.isEmpty && !contains r.headers "Content-Type".toList
              then r.headers ++ [("Content-Type".toList, iso r.ctype)] else r.headers
    let h2 := if r.clen ≠ 0 && !contains h1 "Content-Length".toList
              then h1 ++ [("Content-Length".toList, natStr r.clen)] else h1
    some ⟨r.status, reason, h2, r.body.flatten⟩

end Poor.Response
