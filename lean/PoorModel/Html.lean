import PoorModel.Prelude
/-
Escape function, a lexical model of HTML tokenisation and page templates
(results.py).  Properties C15 and C20.

The tokenizer model has four states.  It ignores comments and raw-text elements; the
built-in pages contain no comment and their only raw-text element (`<style>`) holds
literal CSS without `<`, `>` or quotes, on which the simplified machine agrees with
the HTML tokenizer (this is checked dynamically with html.parser by the harness).
-/
namespace Poor.Html

inductive St where
  | data      -- text between tags
  | tag       -- inside `<...>`, outside quoted attribute values
  | attrDQ    -- inside a double-quoted attribute value
  | attrSQ    -- inside a single-quoted attribute value
deriving DecidableEq, Repr

def step : St → Char → St
  | .data, c => if c = '<' then .tag else .data
  | .tag, c => if c = '>' then .data else if c = '"' then .attrDQ else if c = '\'' then .attrSQ else .tag
  | .attrDQ, c => if c = '"' then .tag else .attrDQ
  | .attrSQ, c => if c = '\'' then .tag else .attrSQ

def run (q : St) (s : Str) : St := s.foldl step q

/-- `html_escape` over an escape table (the table itself is generated from results.py) -/
def escapeWith (table : List (Char × String)) (s : Str) : Str :=
  s.flatMap fun c => match table.lookup c with
    | some r => r.toList
    | none => [c]

/-! ### templates -/

/-- what may flow into a hole -/
inductive Cls where
  | escaped    -- request-derived or file-system text passed through html_escape
  | rawTainted -- request-derived / file-system / unclassified text emitted as is
  | token      -- the request method token: request-derived, token characters only
  | trusted    -- server-side value, number, identifier, constant: not request-derived
  | diagnostic -- exception / handler / environment detail (trusted origin, but sensitive)
  | diagEscaped -- diagnostic detail that may embed request data, passed through html_escape
deriving DecidableEq, Repr

/-- is the text in such a hole under the control of the client? -/
def Cls.tainted : Cls → Bool
  | .escaped | .rawTainted | .token | .diagEscaped => true
  | .trusted | .diagnostic => false

/-- sensitive detail that must only appear when debug is on -/
def Cls.diag : Cls → Bool
  | .diagnostic | .diagEscaped => true
  | _ => false

/-- characters a hole of this class can emit -/
def Cls.allows : Cls → Char → Bool
  | .escaped, c | .diagEscaped, c => !(c == '<' || c == '>' || c == '"' || c == '\'')
  | .rawTainted, _ => true
  | .token, c => !(c == '<' || c == '>' || c == '"')
  | .trusted, c | .diagnostic, c => !(c == '<' || c == '>' || c == '"' || c == '\'')

inductive Tpl where
  | lit (s : Str)
  | hole (cls : Cls)
  | seq (a b : Tpl)
  | alt (a b : Tpl)            -- `if/else` on anything but the debug flag
  | ifDebug (a b : Tpl)        -- `if req.debug: a else: b`
  | star (a : Tpl)             -- loop / join: zero or more repetitions
  | empty
deriving Repr, DecidableEq

/-- a rendered character: the character, whether a client controls it, whether it is diagnostic -/
structure RC where
  c : Char
  tainted : Bool
  diag : Bool
deriving Repr, DecidableEq

def litRC (s : Str) : List RC := s.map fun c => ⟨c, false, false⟩
def holeRC (cls : Cls) (s : Str) : List RC := s.map fun c => ⟨c, cls.tainted, cls.diag⟩

/-- all renderings of a template for a given debug flag: every hole holds any text its
    class can emit, every loop runs any number of times -/
inductive Renders (debug : Bool) : Tpl → List RC → Prop where
  | lit (s : Str) : Renders debug (.lit s) (litRC s)
  | hole (cls : Cls) (x : Str) (h : ∀ c ∈ x, cls.allows c = true) : Renders debug (.hole cls) (holeRC cls x)
  | seq {a b x y} : Renders debug a x → Renders debug b y → Renders debug (.seq a b) (x ++ y)
  | altL {a b x} : Renders debug a x → Renders debug (.alt a b) x
  | altR {a b y} : Renders debug b y → Renders debug (.alt a b) y
  | dbgOn {a b x} : debug = true → Renders debug a x → Renders debug (.ifDebug a b) x
  | dbgOff {a b y} : debug = false → Renders debug b y → Renders debug (.ifDebug a b) y
  | starNil {a} : Renders debug (.star a) []
  | starCons {a x y} : Renders debug a x → Renders debug (.star a) y → Renders debug (.star a) (x ++ y)
  | empty : Renders debug .empty []

/-- the dynamic claim: reading the page, no client-controlled character is consumed inside
    a tag (outside quotes) and none changes the tokenizer state - so no element, attribute
    or attribute-value boundary originates from request data.  Returns the final state. -/
def inertRun : St → List RC → Option St
  | q, [] => some q
  | q, r :: rest =>
    if r.tainted && (q == .tag || step q r.c != q) then none
    else inertRun (step q r.c) rest

/-- can a hole of class `cls` sit in state `q`?  tainted classes: not inside a tag, and no
    character of the class is structural there; all classes: the state is preserved -/
def holeOk (cls : Cls) (q : St) : Bool :=
  match cls, q with
  | .rawTainted, _ => false
  | .escaped, .tag | .diagEscaped, .tag | .token, .tag => false
  | .token, .attrSQ => false
  | _, _ => true

/-- static check: the state after the template when started in `q`; `none` = unsafe.
    Checked for both values of the debug flag at once. -/
def post : Tpl → St → Option St
  | .lit s, q => some (run q s)
  | .hole cls, q => if holeOk cls q then some q else none
  | .seq a b, q => (post a q).bind (post b)
  | .alt a b, q | .ifDebug a b, q =>
    match post a q, post b q with
    | some x, some y => if x = y then some x else none
    | _, _ => none
  | .star a, q =>
    match post a q with
    | some q' => if q' = q then some q else none
    | none => none
  | .empty, q => some q

/-- no diagnostic hole is reachable with debug off -/
def diagFreeOff : Tpl → Bool
  | .lit _ => true
  | .hole cls => !cls.diag
  | .seq a b => diagFreeOff a && diagFreeOff b
  | .alt a b => diagFreeOff a && diagFreeOff b
  | .ifDebug _ b => diagFreeOff b
  | .star a => diagFreeOff a
  | .empty => true

end Poor.Html
