import PoorModel.Prelude
/-
HTTP dates (headers.py:20, 147-187): `time_to_http` = `datetime.fromtimestamp(int(t), utc)
.strftime("%a, %d %b %Y %X GMT")`, `http_to_time` = `strptime` with the same format, `.timestamp()`.

The calendar arithmetic is CPython's (`Lib/_pydatetime.py`: `_ord2ymd`, `_ymd2ord`,
`_days_before_year`, `_days_before_month`), over proleptic Gregorian ordinals (0001-01-01 = 1).
`strftime` is modelled for the C locale.  `strptime` is modelled for the canonical shape only
(fixed columns, ASCII digits, exact-case names, any of the seven day names - the real one does not
cross-check the day name either); every other shape is `unsupported` (the real parser is more
lenient: case-insensitive names, one-digit fields, Unicode digits).
-/
namespace Poor.Date

def isLeap (y : Nat) : Bool := y % 4 == 0 && (y % 100 != 0 || y % 400 == 0)

/-- `_days_before_year`: days before January 1st of year `y` (`y ≥ 1`) -/
def daysBeforeYear (y : Nat) : Nat := (y - 1) * 365 + (y - 1) / 4 - (y - 1) / 100 + (y - 1) / 400

/-- `_DAYS_BEFORE_MONTH` plus the leap day -/
def daysBeforeMonth (leap : Bool) (m : Nat) : Nat :=
  (match m with
   | 1 => 0 | 2 => 31 | 3 => 59 | 4 => 90 | 5 => 120 | 6 => 151 | 7 => 181 | 8 => 212 | 9 => 243
   | 10 => 273 | 11 => 304 | _ => 334) + (if m > 2 && leap then 1 else 0)

def daysInMonth (leap : Bool) (m : Nat) : Nat :=
  match m with
  | 2 => if leap then 29 else 28
  | 4 => 30 | 6 => 30 | 9 => 30 | 11 => 30
  | _ => 31

/-- `_ymd2ord` -/
def ymd2ord (y m d : Nat) : Nat := daysBeforeYear y + daysBeforeMonth (isLeap y) m + d

/-- the month/day step of `_ord2ymd`: day-of-year `n` (0-based) to (month, day) -/
def monthDay (leap : Bool) (n : Nat) : Nat × Nat :=
  let month := (n + 50) / 32
  let preceding := daysBeforeMonth leap month
  if preceding > n then (month - 1, n - (preceding - daysInMonth leap (month - 1)) + 1)
  else (month, n - preceding + 1)

/-- `_ord2ymd` -/
def ord2ymd (ord : Nat) : Nat × Nat × Nat :=
  let n := ord - 1
  let n400 := n / 146097
  let n := n % 146097
  let n100 := n / 36524
  let n := n % 36524
  let n4 := n / 1461
  let n := n % 1461
  let n1 := n / 365
  let n := n % 365
  let year := n400 * 400 + n100 * 100 + n4 * 4 + n1 + 1
  if n1 == 4 || n100 == 4 then (year - 1, 12, 31)
  else
    let leap := n1 == 3 && (n4 != 24 || n100 == 3)
    let md := monthDay leap n
    (year, md.1, md.2)

/-- ordinal of 1970-01-01 -/
def EPOCH_ORD : Nat := 719163

structure Civil where
  year : Nat
  month : Nat
  day : Nat
  hour : Nat
  minute : Nat
  second : Nat
  wday : Nat        -- Monday = 0
deriving Repr, DecidableEq

/-- the civil time from a calendar date, the second of the day and the ordinal -/
def civilFrom (ymd : Nat × Nat × Nat) (s ord : Nat) : Civil :=
  ⟨ymd.1, ymd.2.1, ymd.2.2, s / 3600, s % 3600 / 60, s % 60, (ord + 6) % 7⟩

/-- `datetime.fromtimestamp(t, utc)` for `t ≥ 0` -/
def civilOf (t : Nat) : Civil :=
  civilFrom (ord2ymd (t / 86400 + EPOCH_ORD)) (t % 86400) (t / 86400 + EPOCH_ORD)

/-- `datetime(...).replace(tzinfo=utc).timestamp()` for dates from 1970 on -/
def timestampOf (y m d hh mm ss : Nat) : Nat :=
  (ymd2ord y m d - EPOCH_ORD) * 86400 + hh * 3600 + mm * 60 + ss

def dayNames : List Str := ["Mon", "Tue", "Wed", "Thu", "Fri", "Sat", "Sun"].map String.toList
def monthNames : List Str :=
  ["Jan", "Feb", "Mar", "Apr", "May", "Jun", "Jul", "Aug", "Sep", "Oct", "Nov", "Dec"].map String.toList

def digit (n : Nat) : Char := Char.ofNat (48 + n % 10)
def pad2 (n : Nat) : Str := [digit (n / 10), digit n]
def pad4 (n : Nat) : Str := [digit (n / 1000), digit (n / 100), digit (n / 10), digit n]

/-- `strftime("%a, %d %b %Y %X GMT")`, C locale, years 1000..9999 -/
def render (c : Civil) : Str :=
  dayNames.getD c.wday [] ++ [',', ' '] ++ pad2 c.day ++ [' '] ++ monthNames.getD (c.month - 1) [] ++ [' '] ++
    pad4 c.year ++ [' '] ++ pad2 c.hour ++ [':'] ++ pad2 c.minute ++ [':'] ++ pad2 c.second ++ [' ', 'G', 'M', 'T']

/-- `time_to_http(t)` -/
def timeToHttp (t : Nat) : Str := render (civilOf t)

def digitVal (c : Char) : Option Nat :=
  if '0' ≤ c ∧ c ≤ '9' then some (c.toNat - 48) else none

def num2 (a b : Char) : Option Nat := do
  let x ← digitVal a
  let y ← digitVal b
  pure (x * 10 + y)

def num4 (a b c d : Char) : Option Nat := do
  let x ← num2 a b
  let y ← num2 c d
  pure (x * 100 + y)

inductive PRes where
  | ok (t : Nat)
  | error            -- `ValueError`
  | unsupported      -- a shape outside the modelled (canonical) one
deriving Repr, DecidableEq

def nameIdx (names : List Str) (s : Str) : Option Nat :=
  let i := names.findIdx (· == s)
  if i < names.length then some i else none

/-- `http_to_time(s)` on the canonical shape -/
def httpToTime (s : Str) : PRes :=
  match s with
  | [w1, w2, w3, ',', ' ', d1, d2, ' ', m1, m2, m3, ' ', y1, y2, y3, y4, ' ', h1, h2, ':', n1, n2, ':', s1, s2,
     ' ', 'G', 'M', 'T'] =>
    match nameIdx dayNames [w1, w2, w3], nameIdx monthNames [m1, m2, m3], num2 d1 d2, num4 y1 y2 y3 y4,
          num2 h1 h2, num2 n1 n2, num2 s1 s2 with
    | some _, some mi, some d, some y, some hh, some mm, some ss =>
      if ss ≥ 60 then .unsupported                 -- 60/61 pass the pattern; what follows is not modelled
      else if y < 1970 then .unsupported           -- year 0 is an error, 1..1969 give negative timestamps
      else if d = 0 ∨ d > daysInMonth (isLeap y) (mi + 1) ∨ hh ≥ 24 ∨ mm ≥ 60 then .error
      else .ok (timestampOf y (mi + 1) d hh mm ss)
    | _, _, _, _, _, _, _ => .unsupported
  | _ => .unsupported

end Poor.Date
