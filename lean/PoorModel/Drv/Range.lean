import PoorModel.Range
import PoorModel.HeaderValue
/- line-protocol front end for the Range model (C06, C07) -/
namespace Poor.Drv.Range
open Poor Poor.Range

def parseOptNat (s : String) : Option (Option Nat) :=
  if s = "_" then some none else s.toNat?.map some

def parseRangeTok (s : String) : Option RangeT :=
  match s.splitOn ":" with
  | [a, b] => do
    let x ← parseOptNat a
    let y ← parseOptNat b
    pure (x, y)
  | _ => none

def parseRanges (s : String) : Option (List RangeT) :=
  if s = "none" then some [] else (s.splitOn ";").mapM parseRangeTok

def parseChunks (s : String) : Option (List Bytes) :=
  if s = "none" then some [] else (s.splitOn "/").mapM hexDecode

def showOut : Option Out → String
  | none => "EXC:TypeError"
  | some o =>
    toString o.status ++ " " ++
    (match o.contentRange with | none => "-" | some s => hexEncode s.toUTF8.toList) ++ " " ++
    showOptNat o.contentLength ++ " " ++ hexEncode o.body

def handle : List String → String
  | ["buf", body, rs] =>
    match hexDecode body, parseRanges rs with
    | some b, some r => showOut (respond (.buffer b) r)
    | _, _ => "bad-op"
  | ["file", content, pos, seekable, sized, rs] =>
    match hexDecode content, pos.toNat?, parseRanges rs with
    | some c, some p, some r => showOut (respond (.file c p (seekable = "1") (sized = "1")) r)
    | _, _, _ => "bad-op"
  | ["gen", declared, chunks, rs] =>
    match declared.toNat?, parseChunks chunks, parseRanges rs with
    | some d, some cs, some r => showOut (respond (.gen cs d) r)
    | _, _, _ => "bad-op"
  | ["hdr", body, hdr] =>
    match hexDecode body, strDecode hdr with
    | some b, some h =>
      let rs := match HeaderValue.parseRange h with
        | some (unit, pairs) => if unit = "bytes".toList then pairs else []
        | none => []
      showOut (respond (.buffer b) rs)
    | _, _ => "bad-op"
  | "writes" :: init :: ws =>
    match hexDecode init, ws.mapM hexDecode with
    | some i, some l =>
      let b := l.foldl Buf.write (Buf.init i)
      toString b.contentLength ++ " " ++ hexEncode b.data
    | _, _ => "bad-op"
  | _ => "bad-op"

end Poor.Drv.Range
