import PoorModel.Wsgi
import PoorModel.Gen.Reasons
/- line-protocol front end for the request ladder (C01, C03, C04, C05) -/
namespace Poor.Drv.Wsgi
open Poor Poor.Response Poor.Wsgi Poor.Headers

def parseHs (t : String) : Option Hs :=
  if t = "0" then some [] else
  (t.splitOn "+").mapM fun kv =>
    match kv.splitOn "=" with
    | [k, v] => do pure ((← strDecode k), (← strDecode v))
    | _ => none

def parseChunks (t : String) : Option (List Bytes) :=
  if t = "-" then some [] else (t.splitOn "/").mapM hexDecode

def parseResp (t : String) : Option Resp :=
  match t.splitOn "," with
  | [cls, st, hs, ct, body, clen] => do
    let c ← (match cls with | "b" => some Cls.base | "n" => some Cls.noContent | "d" => some Cls.declined | _ => none)
    pure ⟨c, ← st.toNat?, ← parseHs hs, ← strDecode ct, ← parseChunks body, ← clen.toNat?⟩
  | _ => none

def parseHdrArg (t : String) : Option HdrArg :=
  if t = "-" then some .none else if t = "!" then some .bad else (parseHs t).map .pairs

def parseItem (t : String) : Option TupItem :=
  match t.toList with
  | 'c' :: r => (strDecode (String.ofList r)).map .ctype
  | 'h' :: r => (parseHdrArg (String.ofList r)).map .hdrs
  | 's' :: r => (String.ofList r).toNat?.map .status
  | ['x'] => some .junk
  | _ => none

def parseSimpleVal (t : String) : Option Val :=
  match t.toList with
  | 'S' :: r => (hexDecode (String.ofList r)).map .str
  | 'B' :: r => (hexDecode (String.ofList r)).map .bytes
  | 'J' :: r => (hexDecode (String.ofList r)).map .json
  | 'L' :: r => (parseChunks (String.ofList r)).map .listBytes
  | 'I' :: r => (parseChunks (String.ofList r)).map .iter
  | ['N'] => some .none
  | ['X'] => some .junk
  | 'R' :: r => (parseResp (String.ofList r)).map .resp
  | _ => none

def parseVal (t : String) : Option Val :=
  match t.toList with
  | 'T' :: r =>
    match (String.ofList r).splitOn "|" with
    | d :: items => do
      let dv ← (if d.startsWith "T" then some (Val.tuple .none []) else parseSimpleVal d)
      pure (.tuple dv (← items.mapM parseItem))
    | [] => none
  | _ => parseSimpleVal t

def parseBeh (t : String) : Option Beh :=
  match t.splitOn "~" with
  | ["ret", v] => (parseVal v).map .ret
  | ["ab", code, kw, nr] => do pure (.raise (.http (← code.toNat?) (kw = "1") (nr = "1")))
  | ["abr", r] => (parseResp r).map fun x => .raise (.httpResp x)
  | ["exc", c] => c.toNat?.map fun n => .raise (.other n)
  | ["sysexit"] => some (.raise .sysExit)
  | ["conn"] => some (.raise .conn)
  | ["base"] => some (.raise .base)
  | ["same"] => some .same
  | _ => none

def parseSite (t : String) : Option Site :=
  match t.toList with
  | ['e'] => some .endpoint
  | 'b' :: r => (String.ofList r).toNat?.map .before
  | 's' :: r => (String.ofList r).toNat?.map .status
  | 'x' :: r => (String.ofList r).toNat?.map .exch
  | _ => none

def parseRoute : String → Option Route
  | "hit" => some .hit | "wrong" => some .wrongMethod | "file" => some .file
  | "dir" => some .dirIndex | "forb" => some .forbidden | "dbg" => some .debugInfo
  | "default" => some .default | "nf" => some .notFound | _ => none

def parseNats (t : String) : Option (List Nat) :=
  if t = "none" then some [] else (t.splitOn ",").mapM String.toNat?

def defaultBeh : Site → Beh
  | _ => .ret .none

def parseAfterIdx (t : String) : Option Nat :=
  match t.toList with
  | 'a' :: r => (String.ofList r).toNat?
  | _ => none

def mkPost (entries : List (Nat × Beh)) : AfterProg := fun j =>
  match entries.find? (fun e => e.1 = j) with
  | some e => e.2
  | none => .same

def mkProg (entries : List (Site × Beh)) : Prog := fun s =>
  match entries.find? (fun e => e.1 = s) with
  | some e => e.2
  | none => defaultBeh s

def showEv : Ev → String
  | .before i => "b" ++ toString i
  | .endpoint => "e"
  | .builtinDispatch _ => "d"
  | .status c => "s" ++ toString c
  | .page c => "p" ++ toString c
  | .exch i => "x" ++ toString i
  | .after j => "a" ++ toString j

def showHs (h : Hs) : String :=
  if h.isEmpty then "0" else String.intercalate "+" (h.map fun (k, v) => strEncode k ++ "=" ++ strEncode v)

def showOutcome : Outcome → String
  | .silent => "silent"
  | .answered e => toString e.status ++ " " ++ hexEncode e.reason.toUTF8.toList ++ " " ++ showHs e.headers
      ++ " " ++ hexEncode e.body

def kv (toks : List String) (k : String) : Option String :=
  toks.findSome? fun t => if t.startsWith (k ++ "=") then some ((t.drop (k.length + 1)).toString) else none

/-- `route=.. ctor=.. nb=.. na=.. us=.. eh=.. digest=.. prog=site:beh;...` -/
def handle (toks : List String) : String :=
  let r := do
    let route ← parseRoute (← kv toks "route")
    let ctorS ← kv toks "ctor"
    let ctor : Option Exc ← (if ctorS = "ok" then some none else
      match parseBeh ctorS with | some (.raise e) => some (some e) | _ => none)
    let nb ← (← kv toks "nb").toNat?
    let na ← (← kv toks "na").toNat?
    let us ← parseNats (← kv toks "us")
    let eh ← parseNats (← kv toks "eh")
    let digest := (kv toks "digest") = some "1"
    let progS ← kv toks "prog"
    let raw : List (String × Beh) ← (if progS = "none" then some [] else
      (progS.splitOn ";").mapM fun (e : String) =>
        match e.splitOn ":" with
        | [s, b] => do pure (s, (← parseBeh b))
        | _ => none)
    let entries ← (raw.filter fun (e : String × Beh) => (parseAfterIdx e.1).isNone).mapM fun (e : String × Beh) => do pure ((← parseSite e.1), e.2)
    let posts := raw.filterMap fun (e : String × Beh) => (parseAfterIdx e.1).map fun j => (j, e.2)
    let app : App := { nBefore := nb, nAfter := na, userStatus := us, excHandlers := eh,
                       builtinPages := Gen.Reasons.builtinPages, digestAuth := digest,
                       reasons := Gen.Reasons.table }
    let (t, out) := run app (mkProg entries) (mkPost posts) ctor route
    let tr := String.intercalate "," ((t.filter fun (e : Ev) => !(e matches Ev.page _) && !(e matches Ev.builtinDispatch _)).map showEv)
    pure ((if tr.isEmpty then "-" else tr) ++ " " ++ showOutcome out)
  r.getD "bad-op"

/-- `C05 val <val>`: coercion + emission of a handler return value -/
def handleC05 : List String → String
  | ["val", v] =>
    match parseVal v with
    | some val =>
      match toResponse Gen.Reasons.table val with
      | .ok r => (match emit Gen.Reasons.table r with
          | some e => showOutcome (.answered e)
          | none => "silent")
      | .respErr => "ResponseError"
      | .typeErr => "TypeError"
    | none => "bad-op"
  | _ => "bad-op"

end Poor.Drv.Wsgi
