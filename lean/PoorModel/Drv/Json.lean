import PoorModel.Json
/-
Line protocol for the JSON codec model:
  `load <hex utf-8 text>`      -> canonical value | `error` | `float` (a float somewhere in it)
  `dump <canonical value>`     -> hex of the text | `float`
canonical value: `n` `t` `f` `i<int>` `F` `s<cp.cp...>` `[v,v]` `{s..:v,s..:v}` - one token, no blanks
-/
namespace Poor.Drv.Json
open Poor Poor.Json

mutual
def showJ : J → String
  | .null => "n"
  | .bool true => "t"
  | .bool false => "f"
  | .int i => "i" ++ toString i
  | .float => "F"
  | .str s => "s" ++ ".".intercalate (s.map toString)
  | .arr l => "[" ++ showList l ++ "]"
  | .obj l => "{" ++ showMembers l ++ "}"
def showList : List J → String
  | [] => ""
  | [x] => showJ x
  | x :: xs => showJ x ++ "," ++ showList xs
def showMembers : List (CpStr × J) → String
  | [] => ""
  | [(k, v)] => "s" ++ ".".intercalate (k.map toString) ++ ":" ++ showJ v
  | (k, v) :: r => "s" ++ ".".intercalate (k.map toString) ++ ":" ++ showJ v ++ "," ++ showMembers r
end

def isNumCh (c : Char) : Bool := c.isDigit || c = '-'

def readCps (s : List Char) : Option (CpStr × List Char) :=
  let body := s.takeWhile fun c => c.isDigit || c = '.'
  let rest := s.dropWhile fun c => c.isDigit || c = '.'
  if body.isEmpty then some ([], rest) else
  let parts := (String.ofList body).splitOn "."
  (parts.mapM String.toNat?).map fun l => (l, rest)

mutual
def readJ : Nat → List Char → Option (J × List Char)
  | 0, _ => none
  | f + 1, s =>
    match s with
    | 'n' :: r => some (.null, r)
    | 't' :: r => some (.bool true, r)
    | 'f' :: r => some (.bool false, r)
    | 'F' :: r => some (.float, r)
    | 'i' :: r => ((String.ofList (r.takeWhile isNumCh)).toInt?).map fun i => (.int i, r.dropWhile isNumCh)
    | 's' :: r => (readCps r).map fun (k, r') => (.str k, r')
    | '[' :: ']' :: r => some (.arr [], r)
    | '[' :: r => readItems f r []
    | '{' :: '}' :: r => some (.obj [], r)
    | '{' :: r => readPairs f r []
    | _ => none
def readItems : Nat → List Char → List J → Option (J × List Char)
  | 0, _, _ => none
  | f + 1, s, acc =>
    match readJ f s with
    | some (v, ',' :: r) => readItems f r (v :: acc)
    | some (v, ']' :: r) => some (.arr (acc.reverse ++ [v]), r)
    | _ => none
def readPairs : Nat → List Char → List (CpStr × J) → Option (J × List Char)
  | 0, _, _ => none
  | f + 1, s, acc =>
    match s with
    | 's' :: r =>
      match readCps r with
      | some (k, ':' :: r1) =>
        match readJ f r1 with
        | some (v, ',' :: r2) => readPairs f r2 ((k, v) :: acc)
        | some (v, '}' :: r2) => some (.obj (acc.reverse ++ [(k, v)]), r2)
        | _ => none
      | _ => none
    | _ => none
end

def handle : List String → String
  | ["load", x] =>
    match hexDecode x with
    | some raw =>
      match loadBytes raw with
      | some v => if hasFloat v then "float" else showJ v
      | none => "error"
    | none => "bad-op"
  | ["dump", x] =>
    match readJ (x.length + 1) x.toList with
    | some (v, []) => if hasFloat v then "float" else hexEncode (dumpBytes v)
    | _ => "bad-op"
  | _ => "bad-op"

end Poor.Drv.Json
