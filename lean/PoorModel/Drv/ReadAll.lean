import PoorModel.ReadAll
/- line-protocol front end for read_length (C10): `RL <src hex> <length> <script>` -> `<data hex> <bytes left> <sizes asked>` -/
namespace Poor.Drv.ReadAll
open Poor Poor.ReadAll

def parseList (s : String) : Option (List Nat) :=
  if s = "none" then some [] else (s.splitOn ",").mapM String.toNat?

def handle : List String → String
  | [src, n, script] =>
    match hexDecode src, n.toNat?, parseList script with
    | some src, some n, some script =>
      let (d, i) := readLength { src := src, script := script } n
      hexEncode d ++ " " ++ toString i.src.length ++ " " ++
        String.intercalate "," (i.asked.reverse.map toString)
    | _, _, _ => "bad-op"
  | _ => "bad-op"

end Poor.Drv.ReadAll
