import PoorModel.Sched
import PoorModel.Gen.Shared
namespace Poor.Drv.Sched
open Poor

def handle : List String → String
  | ["inventory"] => String.intercalate " " Gen.Shared.mutables
  | ["writers"] => String.intercalate " " (Gen.Shared.writes.map fun w => w.1 ++ "<-" ++ w.2.1)
  | _ => "bad-op"

end Poor.Drv.Sched
