import PoorModel.PwFile
/- line-protocol front end for the password file (C11): `PW load <text hex>` -> the table `find` sees, or `error` -/
namespace Poor.Drv.PwFile
open Poor Poor.PwFile

/-- the table as `find` sees it: one line per (realm, user), the last entry wins; sorted for comparison -/
def table (es : List Entry) : List (Str × Str × Str) :=
  let keys := (es.map fun e => (e.realm, e.user)).eraseDups
  keys.filterMap fun (r, u) => (find es r u).map fun d => (r, u, d)

def handle : List String → String
  | ["load", text] =>
    match strDecode text with
    | some t =>
      match load t with
      | some es =>
        let rows := (table es).map fun (r, u, d) => strEncode r ++ ":" ++ strEncode u ++ ":" ++ strEncode d
        let sorted := rows.toArray.qsort (· < ·) |>.toList
        if sorted.isEmpty then "empty" else String.intercalate "," sorted
      | none => "error"
    | none => "bad-op"
  | _ => "bad-op"

end Poor.Drv.PwFile
