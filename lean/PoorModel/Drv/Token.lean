import PoorModel.Token
namespace Poor.Drv.Token
open Poor Poor.Token

def handle : List String → String
  | ["verify", T, t0, t1, s0, c0, s1, c1] =>
    match natOpt T, t0.toNat?, t1.toNat?, strDecode s0, strDecode c0, strDecode s1, strDecode c1 with
    | some T, some t0, some t1, some s0, some c0, some s1, some c1 =>
      let tok := getToken (fun x => x) s0 c0 T t0
      if checkToken (fun x => x) tok s1 c1 T t1 then "1" else "0"
    | _, _, _, _, _, _, _ => "bad-op"
  | _ => "bad-op"

end Poor.Drv.Token
