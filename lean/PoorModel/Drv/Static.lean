import PoorModel.Static
namespace Poor.Drv.Static
open Poor Poor.Static

def handle : List String → String
  | ["norm", p] => match strDecode p with | some s => strEncode (normpath s) | none => "bad-op"
  | ["rfile", root, p] =>
    match strDecode root, strDecode p with
    | some r, some s => strEncode (rfile r s)
    | _, _ => "bad-op"
  | _ => "bad-op"

end Poor.Drv.Static
