import PoorModel.Route
/- line-protocol front end for the registry / dispatcher model (C02, C19, gate of C20) -/
namespace Poor.Drv.Route
open Poor Poor.Route

def showErr : Err → String
  | .keyError => "KeyError" | .valueError => "ValueError" | .runtimeError => "RuntimeError" | .reError => "error"

def parseConv (t : String) : Conv :=
  match t with
  | "int" => .int | "float" => .float | "uuid" => .uuid | "str" => .str
  | t => match (t.drop 1).toString.toNat? with | some n => .user n | none => .str

def showConv : Conv → String
  | .int => "int" | .float => "float" | .str => "str" | .uuid => "uuid" | .user n => "u" ++ toString n

def showInner (d : List (Nat × Nat)) : String :=
  let sorted := d.mergeSort fun a b => a.1 ≤ b.1
  String.intercalate "," (sorted.map fun (b, f) => toString b ++ "=" ++ toString f)

def sortStr (l : List String) : List String := l.mergeSort fun a b => a ≤ b

def showViews (r : Reg) : String :=
  let b := String.intercalate "," (r.before.map toString)
  let a := String.intercalate "," (r.after.map toString)
  let d := showInner r.dhandlers
  let h := String.intercalate ";" (sortStr (r.handlers.map fun (p, inner) => strEncode p ++ "{" ++ showInner inner ++ "}"))
  let rr := String.intercalate ";" (r.rhandlers.map fun (p, inner) =>
    let sorted := inner.mergeSort fun x y => x.1 ≤ y.1
    strEncode p ++ "{" ++ String.intercalate "," (sorted.map fun (bit, rh) =>
      toString bit ++ "=" ++ toString rh.fn ++ "/" ++
      String.intercalate "+" (rh.convs.map fun (n, c) => strEncode n ++ "~" ++ showConv c) ++ "/" ++
      (match rh.rule with | some u => strEncode u | none => "-")) ++ "}")
  let s := String.intercalate ";" (sortStr ((r.shandlers.filter fun e => !e.2.isEmpty).map fun (c, inner) =>
    toString c ++ "{" ++ showInner inner ++ "}"))
  let e := String.intercalate ";" ((r.ehandlers.filter fun e => !e.2.isEmpty).map fun (c, inner) =>
    toString c ++ "{" ++ showInner inner ++ "}")
  "B[" ++ b ++ "]A[" ++ a ++ "]D{" ++ d ++ "}H{" ++ h ++ "}R{" ++ rr ++ "}S{" ++ s ++ "}E{" ++ e ++ "}"

def showArg (a : Arg) : String :=
  showConv a.conv ++ "=" ++ (match a.text with | some t => strEncode t | none => "-")

def showSel : Sel → String
  | .static fn => "static:" ++ toString fn
  | .wrongMethod => "405"
  | .pattern fn args names rule =>
    "pattern:" ++ toString fn ++ ":" ++ String.intercalate "," (args.map showArg) ++ ":" ++
      String.intercalate "," (names.map strEncode) ++ ":" ++ strEncode rule
  | .file => "file" | .dirIndex => "dir" | .forbidden => "403" | .debugInfo => "dbg"
  | .default fn => "default:" ++ toString fn
  | .notFound => "404"
  | .unsupported => "unsupported"

def res (x : Except Err Reg) (r : Reg) : Reg × String :=
  match x with
  | .ok r' => (r', "ok")
  | .error e => (r, showErr e)

def stepOp (r : Reg) (tok : String) : Reg × String :=
  match tok.splitOn ":" with
  | ["sr", u, fn, mask] =>
    (match strDecode u, fn.toNat?, mask.toNat? with
     | some u, some fn, some mask =>
       (match compileText r.filters u with
        | some pat => if hasGroup u && !parseable pat then (r, "unsupported") else res (setRoute r u fn mask) r
        | none => res (setRoute r u fn mask) r)
     | _, _, _ => (r, "bad-op"))
  | ["pr", u, bit] =>
    (match strDecode u, bit.toNat? with
     | some u, some bit => res (popRoute r u bit) r
     | _, _ => (r, "bad-op"))
  | ["ir", u] =>
    (match strDecode u with
     | some u => (match isRoute r u with | .ok b => (r, if b then "1" else "0") | .error e => (r, showErr e))
     | none => (r, "bad-op"))
  | ["sx", p, fn, mask] =>
    (match strDecode p, fn.toNat?, mask.toNat? with
     | some p, some fn, some mask =>
       if parseable p then (setRegular r p fn mask [] none, "ok") else (r, "unsupported")
     | _, _, _ => (r, "bad-op"))
  | ["px", p, bit] =>
    (match strDecode p, bit.toNat? with
     | some p, some bit => res (popRegular r p bit) r
     | _, _ => (r, "bad-op"))
  | ["ix", p] =>
    (match strDecode p with
     | some p => (r, if (dget r.rhandlers p).isSome then "1" else "0")
     | none => (r, "bad-op"))
  | ["sd", fn, mask] =>
    (match fn.toNat?, mask.toNat? with
     | some fn, some mask => (setDefault r fn mask, "ok")
     | _, _ => (r, "bad-op"))
  | ["pd", bit] => (match bit.toNat? with | some b => res (popDefault r b) r | none => (r, "bad-op"))
  | ["ss", c, fn, mask] =>
    (match c.toNat?, fn.toNat?, mask.toNat? with
     | some c, some fn, some mask => (setState r c fn mask, "ok")
     | _, _, _ => (r, "bad-op"))
  | ["ps", c, bit] =>
    (match c.toNat?, bit.toNat? with | some c, some b => res (popState r c b) r | _, _ => (r, "bad-op"))
  | ["se", c, fn, mask] =>
    (match c.toNat?, fn.toNat?, mask.toNat? with
     | some c, some fn, some mask => (setError r c fn mask, "ok")
     | _, _, _ => (r, "bad-op"))
  | ["pe", c, bit] =>
    (match c.toNat?, bit.toNat? with | some c, some b => res (popError r c b) r | _, _ => (r, "bad-op"))
  | ["ab", fn] => (match fn.toNat? with
      | some f => (match addHook r.before f with | .ok l => ({ r with before := l }, "ok") | .error e => (r, showErr e))
      | none => (r, "bad-op"))
  | ["pb", fn] => (match fn.toNat? with
      | some f => (match popHook r.before f with | .ok l => ({ r with before := l }, "ok") | .error e => (r, showErr e))
      | none => (r, "bad-op"))
  | ["aa", fn] => (match fn.toNat? with
      | some f => (match addHook r.after f with | .ok l => ({ r with after := l }, "ok") | .error e => (r, showErr e))
      | none => (r, "bad-op"))
  | ["pa", fn] => (match fn.toNat? with
      | some f => (match popHook r.after f with | .ok l => ({ r with after := l }, "ok") | .error e => (r, showErr e))
      | none => (r, "bad-op"))
  | ["sf", n, re, cv] =>
    (match strDecode n, strDecode re with
     | some n, some re => (setFilter r n re (parseConv cv), "ok")
     | _, _ => (r, "bad-op"))
  | ["v"] => (r, showViews r)
  | ["q", m, p, envs] =>
    (match strDecode p with
     | some path =>
       let bits : List Bool := envs.toList.map fun c => c == '1'
       let env : Env := ⟨bits.getD 0 false, bits.getD 1 false, bits.getD 2 false, bits.getD 3 false,
                         bits.getD 4 false, bits.getD 5 false⟩
       (r, showSel (select r env (methodBit m) path))
     | none => (r, "bad-op"))
  | _ => (r, "bad-op")

def handle (ops : List String) : String :=
  let (_, outs) := ops.foldl (fun (acc : Reg × List String) tok =>
    let (r', o) := stepOp acc.1 tok
    (r', acc.2 ++ [o])) ({}, [])
  String.intercalate " " outs

/-- `RE <patternhex> <subjecthex>`: the regex fragment against CPython's re -/
def handleRe : List String → String
  | [p, s] =>
    match strDecode p, strDecode s with
    | some p, some s =>
      (match matchPat p s with
       | .error () => "unsupported"
       | .ok none => "none"
       | .ok (some (groups, _)) =>
         "match:" ++ String.intercalate "," (groups.map fun g => match g with | some t => strEncode t | none => "-"))
    | _, _ => "bad-op"
  | _ => "bad-op"

end Poor.Drv.Route
