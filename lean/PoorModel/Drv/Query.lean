import PoorModel.Query
import PoorModel.Drv.HeaderValue
namespace Poor.Drv.Query
open Poor Poor.Query
open Poor.Drv.HeaderValue (showPairs parsePairs)

def showV : Option V → String
  | none => "-"
  | some (.one s) => "1:" ++ strEncode s
  | some (.many l) => "n:" ++ String.intercalate "," (l.map strEncode)

def showList (l : List Str) : String := "[" ++ String.intercalate "," (l.map strEncode) ++ "]"

def showOptStr : Option Str → String
  | none => "-"
  | some s => strEncode s

def boolOf (t : String) : Bool := t = "1"

/-! JSON values travel as a comma separated prefix code:
    `n` null, `t`/`f`, `#hex` number text, `shex` string, `aN` array of N items, `oN` object of N
    (key, value) entries (key as hex) -/

partial def parseJ : List String → Option (J × List String)
  | [] => none
  | t :: rest =>
    match t.toList with
    | ['n'] => some (.null, rest)
    | ['t'] => some (.bool true, rest)
    | ['f'] => some (.bool false, rest)
    | '#' :: h => (strDecode (String.ofList h)).map fun s => (.num s, rest)
    | 's' :: h => (strDecode (String.ofList h)).map fun s => (.str s, rest)
    | 'a' :: n => do
      let k ← (String.ofList n).toNat?
      let rec items (k : Nat) (toks : List String) (acc : List J) : Option (List J × List String) :=
        match k with
        | 0 => some (acc.reverse, toks)
        | k + 1 => do
          let (v, toks') ← parseJ toks
          items k toks' (v :: acc)
      let (l, rest') ← items k rest []
      pure (.arr l, rest')
    | 'o' :: n => do
      let k ← (String.ofList n).toNat?
      let rec entries (k : Nat) (toks : List String) (acc : List (Str × J)) :
          Option (List (Str × J) × List String) :=
        match k with
        | 0 => some (acc.reverse, toks)
        | k + 1 =>
          match toks with
          | kt :: toks1 => do
            let key ← strDecode kt
            let (v, toks') ← parseJ toks1
            entries k toks' ((key, v) :: acc)
          | [] => none
      let (l, rest') ← entries k rest []
      pure (.obj l, rest')
    | _ => none

partial def showJ : J → String
  | .null => "n"
  | .bool true => "t"
  | .bool false => "f"
  | .num s => "#" ++ strEncode s
  | .str s => "s" ++ strEncode s
  | .arr l => String.intercalate "," (("a" ++ toString l.length) :: l.map showJ)
  | .obj l => String.intercalate "," (("o" ++ toString l.length) :: l.map fun (k, v) => strEncode k ++ "," ++ showJ v)

def showOptJ : Option J → String
  | none => "-"
  | some v => showJ v

def showQ (r : Except QErr Pairs) : String :=
  match r with
  | .ok ps => showPairs ps
  | .error .valueError => "ValueError"
  | .error .undecodable => "unsupported"

def strList (t : String) : Option (List Str) :=
  if t = "none" then some [] else (t.splitOn ",").mapM strDecode

def handle : List String → String
  | ["unq", s] =>
    match strDecode s with
    | some s => (match unquote s with | some r => strEncode r | none => "unsupported")
    | none => "bad-op"
  | ["qsl", keep, strict, qs] =>
    match strDecode qs with
    | some qs => showQ (parseQsl (boolOf keep) (boolOf strict) qs)
    | none => "bad-op"
  | ["enc", ps] =>
    match parsePairs ps with
    | some ps => strEncode (urlencode ps)
    | none => "bad-op"
  | ["args", keep, strict, qs, key] =>
    match strDecode qs, strDecode key with
    | some qs, some k =>
      (match reqArgs (boolOf keep) (boolOf strict) qs with
       | .ok d =>
         showList (d.map (·.1)) ++ " " ++ showV (argsGetvalue d k) ++ " " ++ showOptStr (argsGetfirst d k)
           ++ " " ++ showList (argsGetlist d k)
       | .error .valueError => "ValueError"
       | .error .undecodable => "unsupported")
    | _, _ => "bad-op"
  | ["form", keep, strict, qs, key] =>
    match strDecode qs, strDecode key with
    | some qs, some k =>
      (match parseQsl (boolOf keep) (boolOf strict) qs with
       | .ok ps =>
         showList (fsKeys ps) ++ " " ++ showV (fsGetvalue ps k) ++ " " ++ showOptStr (fsGetfirst ps k)
           ++ " " ++ showList (fsGetlist ps k)
       | .error .valueError => "ValueError"
       | .error .undecodable => "unsupported")
    | _, _ => "bad-op"
  | ["json", v, key] =>
    match parseJ (v.splitOn ","), strDecode key with
    | some (j, []), some k =>
      (match j with
       | .obj o => "dict " ++ showOptJ (jdGetvalue o k) ++ " " ++ showOptJ (jdGetfirst o k) ++ " "
           ++ showJ (.arr (jdGetlist o k))
       | .arr l => "list " ++ showOptJ (jlGetfirst l) ++ " " ++ showOptJ (jlGetfirst l) ++ " "
           ++ showJ (.arr (jlGetlist l))
       | v => "scalar " ++ showJ v)
    | _, _ => "bad-op"
  | [op, ad, aj, af, ds, jt, ft, cl, h09, mime, body] =>
    match ds.toInt?, strList jt, strList ft, cl.toInt?, strDecode mime, hexDecode body with
    | some ds, some jt, some ft, some cl, some mime, some body =>
      let c : Cfg := { autoData := boolOf ad, autoJson := boolOf aj, autoForm := boolOf af, dataSize := ds,
                       jsonTypes := jt, formTypes := ft }
      if op = "plan" then
        match plan c cl (boolOf h09) mime with | .json => "json" | .form => "form" | .none => "none"
      else if op = "taken" then
        match taken c cl (boolOf h09) mime body with | some b => toString b.length | none => "unsupported"
      else if op = "data" then
        match data c cl body with | some b => hexEncode b | none => "-"
      else "bad-op"
    | _, _, _, _, _, _ => "bad-op"
  | ["reads", cl, src, ops] =>
    -- `reads <content-length> <stream hex> <k,k,..>` (`-` = read without size)
    match cl.toNat?, hexDecode src, (if ops = "none" then some [] else (ops.splitOn ",").mapM natOpt) with
    | some cl, some src, some ks =>
      let r := reqReads ⟨cl, src⟩ ks
      String.intercalate "," (r.1.map hexEncode) ++ " left " ++ toString r.2.src.length
    | _, _, _ => "bad-op"
  | ["hdr", env, name] =>
    match parsePairs env, strDecode name with
    | some env, some n => showOptStr (Headers.getItem (reqHeaders env) n)
    | _, _ => "bad-op"
  | ["hdrs", env] =>
    match parsePairs env with
    | some env => showPairs (reqHeaders env)
    | _ => "bad-op"
  | _ => "bad-op"

end Poor.Drv.Query
