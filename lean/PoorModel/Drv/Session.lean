import PoorModel.Session
import PoorModel.Base64
import PoorModel.Drv.Json
namespace Poor.Drv.Session
open Poor Poor.Session

def parseOptInt (t : String) : Option (Option Int) :=
  if t = "-" then some none else t.toInt?.map some

def showAttrs (a : Attrs) : String :=
  let opt (o : Option Str) := match o with | some v => strEncode v | none => "-"
  let oi (o : Option Int) := match o with | some v => toString v | none => "-"
  "H=" ++ (if a.httpOnly then "1" else "0") ++ " S=" ++ (if a.secure then "1" else "0") ++
  " D=" ++ opt a.domain ++ " P=" ++ opt a.path ++ " SS=" ++ opt a.sameSite ++
  " E=" ++ oi a.expires ++ " M=" ++ oi a.maxAge

/-- `hidden <keyhex> <texthex>` | `attrs <expires> <maxage|-> <domain> <path> <secure> <samesite|-> <ops l,w,h,d>` -/
def handle : List String → String
  | ["hidden", k, t] =>
    match hexDecode k, hexDecode t with
    | some k, some t => hexEncode (hidden k t)
    | _, _ => "bad-op"
  | ["attrs", e, m, d, p, sec, ss, ops] =>
    match e.toInt?, parseOptInt m, strDecode d, strDecode p with
    | some e, some m, some d, some p =>
      let ssv : Option Str := if ss = "-" then none else strDecode ss
      let cfg : Cfg := ⟨e, m, d, p, sec = "1", ssv⟩
      let opl := (ops.splitOn ",").filterMap fun o =>
        match o with | "l" => some Op.load | "w" => some Op.write | "h" => some Op.header | "d" => some Op.destroy | _ => none
      -- report the attributes emitted by every `header` call
      let (_, outs) := opl.foldl (fun (acc : St × List String) op =>
        let s' := step acc.1 op
        (s', if op == .header then acc.2 ++ [showAttrs s'.attrs] else acc.2)) (St.init cfg, [])
      if outs.isEmpty then "-" else String.intercalate " | " outs
    | _, _, _, _ => "bad-op"
  | "cookie" :: k :: ops =>
    -- `cookie <key stream hex> <op>...`: `s<canonical value>` assigns the data, `w` write(), `h` header(), `d` destroy();
    -- the cookie value after every `w` / `h`, for a session without compression
    match hexDecode k with
    | none => "bad-op"
    | some key =>
      let parsed := ops.mapM fun (o : String) =>
        if o = "w" then some (DOp.write : DOp Poor.Json.J) else if o = "h" then some .header else if o = "d" then some .destroy
        else match o.toList with
          | 's' :: rest =>
            let tok := String.ofList rest
            (match Poor.Drv.Json.readJ (tok.length + 1) rest with
             | some (v, []) => some (.set v)
             | _ => none)
          | _ => none
      match parsed with
      | none => "bad-op"
      | some opl =>
        let s0 : DSt Poor.Json.J := ⟨St.init ⟨0, none, [], [], false, none⟩, .obj [], []⟩
        let (_, outs) := opl.foldl (fun (acc : DSt Poor.Json.J × List String) op =>
          let s' := dstep plainCodec key acc.1 op
          match op with
          | .write | .header => (s', acc.2 ++ [String.ofList s'.value])
          | _ => (s', acc.2)) (s0, [])
        if outs.isEmpty then "-" else String.intercalate "|" outs
  | ["b64e", x] =>
    match hexDecode x with
    | some b => strEncode (Poor.Base64.encode b)
    | none => "bad-op"
  | ["b64d", x] =>
    match hexDecode x with
    | some b =>
      -- the argument is the byte string handed to `b64decode`
      (match Poor.Base64.decode (b.map fun u => Char.ofNat u.toNat) with
       | some r => "ok " ++ hexEncode r
       | none => "Error")
    | none => "bad-op"
  | _ => "bad-op"

end Poor.Drv.Session
