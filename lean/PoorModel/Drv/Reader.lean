import PoorModel.Reader
/- line-protocol front end for the Reader model (C09) -/
namespace Poor.Drv.Reader
open Poor Poor.Reader

def parseOp (s : String) : Option Op :=
  match s.splitOn ":" with
  | ["r", n] => n.toInt?.map Op.read
  | ["l", n] => n.toInt?.map Op.readline
  | _ => none

def parseList (s : String) (f : String → Option α) : Option (List α) :=
  if s = "none" then some [] else (s.splitOn ",").mapM f

/-- run ops, reporting per call the result and the number of underlying reads it made -/
def runLog (block : Nat) : St → List Op → List (Bytes × Nat) × St
  | s, [] => ([], s)
  | s, op :: ops =>
    let (r, s1) := step block s op
    let cnt := s1.log.length - s.log.length
    let (rs, s2) := runLog block s1 ops
    ((r, cnt) :: rs, s2)

def handle : List String → String
  | [src, n, block, script, ops] =>
    match hexDecode src, n.toNat?, block.toNat?, parseList script String.toNat?, parseList ops parseOp with
    | some src, some n, some block, some script, some ops =>
      let (rs, s) := runLog block (St.init src n script) ops
      let a := String.intercalate "/" (rs.map fun (r, c) => hexEncode r ++ ":" ++ toString c)
      let b := String.intercalate "," (s.log.reverse.map fun (k, _) => toString k)
      (if a.isEmpty then "-" else a) ++ " " ++ (if b.isEmpty then "-" else b)
    | _, _, _, _, _ => "bad-op"
  | _ => "bad-op"

end Poor.Drv.Reader
