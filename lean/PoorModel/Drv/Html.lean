import PoorModel.Html
import PoorModel.Debug
import PoorModel.Gen.Escape
namespace Poor.Drv.Html
open Poor Poor.Html

def handleC15 : List String → String
  | ["escape", s] =>
    match strDecode s with
    | some t => strEncode (escapeWith Gen.Escape.table t)
    | none => "bad-op"
  | _ => "bad-op"

def handleC20 : List String → String
  | ["debug", ov, attr] =>
    let o : Option (Option Str) := if ov = "-" then some none else (strDecode ov).map some
    match o with
    | some o => if Debug.effectiveDebug o (attr = "1") then "1" else "0"
    | none => "bad-op"
  | _ => "bad-op"

end Poor.Drv.Html
