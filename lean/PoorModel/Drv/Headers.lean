import PoorModel.Headers
namespace Poor.Drv.Headers
open Poor Poor.Headers

/-- an argument: a string, Python `None` (`-`), or a non-string object (`!`) -/
inductive Arg where
  | str (s : Str) | none | bad

def parseArg (t : String) : Option Arg :=
  if t = "-" then some .none else if t = "!" then some .bad else (strDecode t).map .str

def showItems (h : Hs) : String :=
  if h.isEmpty then "none" else
  String.intercalate "," (h.map fun (k, v) => strEncode k ++ "=" ++ strEncode v)

def parsePairs (t : String) : Option Hs :=
  if t = "none" then some [] else
  (t.splitOn ",").mapM fun kv =>
    match kv.splitOn "=" with
    | [k, v] => do pure ((← strDecode k), (← strDecode v))
    | _ => Option.none

def parseParams (t : String) : Option (List (Str × Option Arg)) :=
  if t = "none" then some [] else
  (t.splitOn ";").mapM fun kv =>
    match kv.splitOn "=" with
    | [k, v] => do pure ((← strDecode k), some (← parseArg v))
    | _ => Option.none

def showErr : Err → String
  | .keyError => "KeyError" | .valueError => "ValueError" | .typeError => "TypeError"

def isAscii (s : Str) : Bool := s.all fun c => c.toNat < 128

/-- one operation: returns the new state and the observable result -/
def stepOp (h : Hs) (tok : String) : Hs × String :=
  match tok.splitOn ":" with
  | ["len"] => (h, toString h.length)
  | [op, n] =>
    match parseArg n with
    | some (.str name) =>
      if !isAscii name then (h, "unsupported") else
      match op with
      | "get" => (h, match getItem h name with | some v => strEncode v | Option.none => "-")
      | "in" => (h, if contains h name then "1" else "0")
      | "all" => (h, "[" ++ String.intercalate "," ((getAll h name).map strEncode) ++ "]")
      | "del" => (delItem h name, "ok")
      | _ => (h, "bad-op")
    | some _ => (h, "TypeError")
    | Option.none => (h, "bad-op")
  | [op, n, v] =>
    match parseArg n, parseArg v with
    | some (.str name), some (.str value) =>
      if !isAscii name then (h, "unsupported") else
      match op with
      | "add" => match add h name value with | .ok h' => (h', "ok") | .error e => (h, showErr e)
      | "set" => match setItem h name value with | .ok h' => (h', "ok") | .error e => (h, showErr e)
      | "sd" => match setDefault h name value with
        | .ok (h', r) => (h', strEncode r) | .error e => (h, showErr e)
      | _ => (h, "bad-op")
    | some (.str name), some _ =>      -- non-string / None value
      if !isAscii name then (h, "unsupported") else
      match op with
      | "add" =>
        if key name != setCookieKey && contains h name then (h, "KeyError")
        else (h, if v = "-" then "ValueError" else "TypeError")
      | "set" => (delItem h name, if v = "-" then "ValueError" else "TypeError")
      | "sd" => match getItem h name with
        | some r => (h, strEncode r)
        | Option.none => (h, if v = "-" then "ValueError" else "TypeError")
      | _ => (h, "bad-op")
    | some _, some _ => (h, "TypeError")
    | _, _ => (h, "bad-op")
  | ["addh", n, v, ps] =>
    match parseArg n, parseArg v, parseParams ps with
    | some name, some value, some params =>
      -- evaluation order of add_header: value, then each keyword, then the name
      if value matches .bad then (h, "TypeError")
      else if params.any (fun p => p.2 matches some .bad) then (h, "TypeError")
      else
        let vs : Option Str := match value with | .str s => some s | _ => Option.none
        let pl : List (Str × Option Str) := params.map fun (k, a) =>
          (k, match a with | some (.str s) => some s | _ => Option.none)
        if vs.isNone && pl.isEmpty then (h, "ValueError")
        else match name with
          | .str nm =>
            if !isAscii nm then (h, "unsupported") else
            match addHeader h nm vs pl with
            | .ok h' => (h', "ok") | .error e => (h, showErr e)
          | _ => (h, "TypeError")
    | _, _, _ => (h, "bad-op")
  | _ => (h, "bad-op")

def handle : List String → String
  | strict :: pairs :: ops =>
    match parsePairs pairs with
    | some ps =>
      if !(ps.all fun kv => isAscii kv.1) then "unsupported" else
      let h0 := construct ps (strict = "1")
      let (_, outs) := ops.foldl (fun (acc : Hs × List String) tok =>
        let (h', r) := stepOp acc.1 tok
        (h', acc.2 ++ [r ++ "@" ++ showItems h'])) (h0, [showItems h0])
      String.intercalate " " outs
    | Option.none => "bad-op"
  | _ => "bad-op"

end Poor.Drv.Headers
