import PoorModel.Digest
import PoorModel.Drv.HeaderValue
namespace Poor.Drv.Digest
open Poor Poor.Digest
open Poor.Drv.HeaderValue (showPairs parsePairs)

/-- the stand-in hash of the correspondence runs: `h` followed by the hex of the UTF-8 bytes
    (injective; the harness installs the same function in the implementation) -/
def toy (s : Str) : Str := 'h' :: (hexEncode (String.ofList s).toUTF8.toList).toList

def optStr (t : String) : Option (Option Str) :=
  if t = "-" then some none else (strDecode t).map some

def parseUsers (t : String) : Option (List ((Str × Str) × Str)) :=
  if t = "none" then some [] else
  (t.splitOn ",").mapM fun e =>
    match e.splitOn "/" with
    | [r, u, h] => do pure (((← strDecode r), (← strDecode u)), (← strDecode h))
    | _ => none

def handle : List String → String
  | ["scan", h] =>
    match strDecode h with
    | some h => showPairs (scanAuth (HeaderValue.strip h))
    | none => "bad-op"
  | ["dict", h] =>
    match strDecode h with
    | some h =>
      (match authDict h with
       | some d => showPairs (d.map fun e =>
           if e.1 == "type".toList then (e.1, if e.2 == "Digest".toList then e.2 else "other".toList) else e)
       | none => "unsupported")
    | none => "bad-op"
  | ["gate", alg, qop, opq, users, secret, timeout, method, path, query, agent, now, realm, requser, hdr] =>
    match strDecode alg, strDecode qop, strDecode opq, parseUsers users, strDecode secret, natOpt timeout,
          strDecode method, strDecode path, strDecode query, strDecode agent, now.toNat?, strDecode realm, optStr requser,
          optStr hdr with
    | some alg, some qop, some opq, some users, some secret, some timeout, some method, some path, some query,
      some agent, some now, some realm, some requser, some hdr =>
      let app : App := { algorithm := alg, qop := qop, opaq := opq, users := users, secret := secret, timeout := timeout }
      let rq : Rq := { method := method, path := path, query := query, agent := agent, now := now }
      let d : Option (Option Dict) := match hdr with | none => some none | some h => (authDict h).map some
      (match d with
       | none => "unsupported"
       | some d =>
         -- percent-escapes that are not UTF-8 (CPython substitutes U+FFFD) are outside the model
         let undec := (comparePath rq).isNone || (match d with
           | some dd => (match dget dd "uri" with | some u => (Query.unquote u).isNone | none => false)
           | none => false)
         if undec then "unsupported" else
         match gate toy toy app rq realm requser d with
         | .run u => "run " ++ strEncode u
         | .unauthorized true => "401 stale"
         | .unauthorized false => "401 fresh"
         | .error => "error")
    | _, _, _, _, _, _, _, _, _, _, _, _, _, _ => "bad-op"
  | _ => "bad-op"

end Poor.Drv.Digest
