import PoorModel.HeaderValue
import PoorModel.Date
namespace Poor.Drv.HeaderValue
open Poor Poor.HeaderValue

def isAsciiStr (s : Str) : Bool := s.all fun c => c.toNat < 128

def showPairs (ps : List (Str × Str)) : String :=
  if ps.isEmpty then "none" else String.intercalate "," (ps.map fun (k, v) => strEncode k ++ "=" ++ strEncode v)

def parsePairs (t : String) : Option (List (Str × Str)) :=
  if t = "none" then some [] else
  (t.splitOn ",").mapM fun kv =>
    match kv.splitOn "=" with
    | [k, v] => do pure ((← strDecode k), (← strDecode v))
    | _ => none

def showRangeOpt : Option Nat → String
  | none => "_" | some n => toString n

def handle : List String → String
  | ["hdr", line] =>
    match strDecode line with
    | some l =>
      let (main, ps) := parseHeader l
      if ps.all (fun kv => isAsciiStr kv.1) then strEncode main ++ "|" ++ showPairs ps else "unsupported"
    | none => "bad-op"
  | ["render", main, ps] =>
    match strDecode main, parsePairs ps with
    | some m, some ps => strEncode (renderHeader (if m.isEmpty then none else some m) ps)
    | _, _ => "bad-op"
  | ["nego", v] =>
    match strDecode v with
    | some v => String.intercalate "," ((parseNegotiation v).map fun (x, q) =>
        strEncode x ++ ";" ++ (match q with | some t => strEncode t | none => "-"))
    | none => "bad-op"
  | ["negor", items] =>
    -- `negor v;q,v;q` (hex fields, `-` = no quality): what render_negotiation writes
    let parsed := (items.splitOn ",").mapM fun it =>
      match it.splitOn ";" with
      | [v, q] => do
        let v ← strDecode v
        let q ← (if q = "-" then some none else (strDecode q).map some)
        pure (v, q)
      | _ => none
    match parsed with
    | some l => strEncode (renderNegotiation l)
    | none => "bad-op"
  | ["range", v] =>
    match strDecode v with
    | some v =>
      (match parseRange v with
       | none => "none"
       | some (unit, rs) => strEncode unit ++ "|" ++ (if rs.isEmpty then "none" else
           String.intercalate ";" (rs.map fun (a, b) => showRangeOpt a ++ ":" ++ showRangeOpt b)))
    | none => "bad-op"
  | ["date", ts] =>
    match ts.toNat? with
    | some t => strEncode (Poor.Date.timeToHttp t)
    | none => "bad-op"
  | ["dparse", v] =>
    match strDecode v with
    | some s =>
      (match Poor.Date.httpToTime s with
       | .ok t => "ok " ++ toString t
       | .error => "ValueError"
       | .unsupported => "unsupported")
    | none => "bad-op"
  | ["civil", ord] =>
    match ord.toNat? with
    | some o => let r := Poor.Date.ord2ymd o
                s!"{r.1} {r.2.1} {r.2.2} {Poor.Date.ymd2ord r.1 r.2.1 r.2.2}"
    | none => "bad-op"
  | _ => "bad-op"

end Poor.Drv.HeaderValue
