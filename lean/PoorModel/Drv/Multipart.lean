import PoorModel.Multipart
namespace Poor.Drv.Multipart
open Poor Poor.Multipart

def showOpt : Option Str → String
  | none => "-"
  | some s => strEncode s

def showPart (p : Part) : String :=
  showOpt p.name ++ "|" ++ showOpt p.filename ++ "|" ++ strEncode p.ctype ++ "|" ++ (if p.isFile then "F" else "T")
    ++ "|" ++ hexEncode p.value

def showRes : Res (List Part) → String
  | .ok ps => if ps.isEmpty then "ok" else "ok " ++ String.intercalate ";" (ps.map showPart)
  | .valueError => "ValueError"
  | .unsupported => "unsupported"

def handle : List String → String
  | ["parse", ib, body, how, limit] =>
    match hexDecode ib, hexDecode body, natOpt limit with
    | some ib, some body, some limit =>
      let body := match limit with | some n => body.take n | none => body
      let fuel := body.length + 3
      if how = "lf" then showRes (parseMultipart lfReader ib fuel body)
      else match how.splitOn ":" with
        | ["cached", b] =>
          match b.toNat? with
          | some _block => showRes (parseMultipart cachedReader ib fuel (Reader.St.init body body.length []))
          | none => "bad-op"
        | _ => "bad-op"
    | _, _, _ => "bad-op"
  | ["lines", body, cap] =>
    match hexDecode body, natOpt cap with
    | some body, some cap =>
      let rec go (fuel : Nat) (r : Bytes) (acc : List String) : List String :=
        match fuel with
        | 0 => acc.reverse
        | f + 1 => match lfLine cap r with
          | ([], _) => acc.reverse
          | (l, r') => go f r' (hexEncode l :: acc)
      String.intercalate "," (go (body.length + 1) body [])
    | _, _ => "bad-op"
  | _ => "bad-op"

end Poor.Drv.Multipart
