import PoorModel.Prelude
/-
Model of poorwsgi.fieldstorage.read_length (fieldstorage.py): a body that arrives in pieces is read
to its declared length.  Used by the `auto_data` buffer of `Request.__init__`, by `Request.read` and by
the urlencoded form reader (property C10).

The input is a byte list `src` plus a *short-read script*, as in `Poor.Reader`: the i-th `read(k)`
delivers `min k (script[i] + 1)` bytes (all `k` once the script is exhausted), and fewer only at the
end of `src`.
-/
namespace Poor.ReadAll

structure In where
  src    : Bytes               -- unread part of the input
  script : List Nat
  asked  : List Nat := []      -- sizes of the reads made so far, newest first
deriving Repr

/-- how many bytes the next `read(k)` may deliver -/
def In.grant (i : In) (k : Nat) : Nat :=
  match i.script with
  | [] => k
  | x :: _ => min k (x + 1)

/-- `data = read(k)` -/
def In.read (i : In) (k : Nat) : Bytes × In :=
  (i.src.take (i.grant k), { src := i.src.drop (i.grant k), script := i.script.tail, asked := k :: i.asked })

/-- `while data and len(data) < length: more = read(length - len(data)); if not more: break; data += more` -/
def loop (length : Nat) (data : Bytes) (i : In) : Bytes × In :=
  if h : data ≠ [] ∧ data.length < length then
    if (i.read (length - data.length)).1 = [] then (data, (i.read (length - data.length)).2)
    else loop length (data ++ (i.read (length - data.length)).1) (i.read (length - data.length)).2
  else (data, i)
termination_by length - data.length
decreasing_by
  rename_i hm
  have : 0 < (i.read (length - data.length)).1.length := by
    cases hc : (i.read (length - data.length)).1 with
    | nil => exact absurd hc hm
    | cons a l => simp
  simp only [List.length_append]
  omega

/-- `read_length(read, length)` for a length that is not negative (a negative one is a plain `read(-1)`) -/
def readLength (i : In) (length : Nat) : Bytes × In :=
  loop length (i.read length).1 (i.read length).2

end Poor.ReadAll
