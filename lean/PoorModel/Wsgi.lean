import PoorModel.Response
/-
Model of `Application.__request__` (wsgi.py) with its callees: dispatch exits of
handler_from_table/handler_from_default with the before hooks, state_from_table,
error_from_table, the exception ladder, the after hooks and emission.
Properties C01, C03, C04 (and the dispatcher gate of C20).

User callables are an *oracle*: `Prog` maps every call site to a behaviour; theorems
quantify over all programs.
-/
namespace Poor.Wsgi
open Poor Poor.Response Poor.Headers

/-- what a user callable does when called -/
inductive Beh where
  | ret (v : Val)
  | raise (e : Exc)
  | same               -- after hooks only: hand back the response that was passed in
deriving Repr

/-- which exit of `handler_from_table` the request takes (computed by `select`, see C02) -/
inductive Route where
  | hit            -- static or pattern route registered for the method
  | wrongMethod    -- static path registered for other methods only: 405
  | file           -- readable regular file under the document root
  | dirIndex       -- readable directory, indexing on
  | forbidden      -- under the document root but neither: 403
  | debugInfo      -- /debug-info with debug on
  | default        -- per-method default handler
  | notFound       -- 404
deriving DecidableEq, Repr

/-- call sites of user code -/
inductive Site where
  | before (i : Nat)
  | endpoint
  | status (code : Nat)
  | exch (i : Nat)         -- i-th registered exception handler
deriving DecidableEq, Repr

abbrev Prog := Site → Beh

/-- behaviour of the j-th after-response hook (kept apart from `Prog`: nothing that
    happens before the after-hook loop can consult it) -/
abbrev AfterProg := Nat → Beh

/-- trace of what ran, in order (self-recorded by the harness on the implementation) -/
inductive Ev where
  | before (i : Nat)
  | endpoint
  | builtinDispatch (r : Route)     -- file / directory / debug page served by the framework
  | status (code : Nat)             -- user status handler
  | page (code : Nat)               -- built-in page for `code` (501 page: `page 501`)
  | exch (i : Nat)
  | after (j : Nat)
deriving DecidableEq, Repr

structure App where
  nBefore : Nat
  nAfter : Nat
  userStatus : List Nat            -- codes with a user handler registered for the request's method
  excHandlers : List Nat           -- class ids, in registration order, registered for the method
  builtinPages : List Nat          -- `default_states` keys
  digestAuth : Bool                -- auth_type == 'Digest' (built-in 401 then needs a realm)
  reasons : List (Nat × String)
deriving Repr

/-- `isinstance(error, cls)` over class ids: 9 = `Exception` itself (matches every
    Exception), 0 = base class, 1 = derived from 0, others unrelated -/
def isInstance (err cls : Nat) : Bool := cls = 9 || err = cls || (err = 1 && cls = 0)

abbrev Trace := List Ev

/-- built-in page for `code` as a response (`internal_server_error` is total after the fix);
    the body is a tag, its length stands for the real page length -/
def pageTag (name : String) : Bytes := ("page:" ++ name).toUTF8.toList

def pageResp (code : Nat) : Resp :=
  ⟨.base, code, xPoweredBy, htmlType, [pageTag (toString code)], (pageTag (toString code)).length⟩

def notModifiedResp : Resp :=
  ⟨.noContent, 304, xPoweredBy ++ [("Date".toList, "x".toList)], [], [], 0⟩

/-- `HTTPException.make_response()` -/
def excMakeResponse : Exc → Option Resp
  | .httpResp r => some r
  | .http 0 _ _ => some ⟨.declined, 200, [], [], [], 0⟩
  | .http 200 _ _ => some ⟨.noContent, 204, xPoweredBy, [], [], 0⟩     -- EmptyResponse()
  | _ => none

/-- like `call`, but the event is recorded even when the callable raises -/
def callT (p : Prog) (s : Site) (e : Ev) : Trace → Trace × Except Exc Val := fun t =>
  (t ++ [e], match p s with | .ret v => .ok v | .raise x => .error x | .same => .ok .none)

/-- result of an internal step: trace so far and value or exception -/
abbrev R (α : Type) := Trace × Except Exc α

def R.ok (t : Trace) (a : α) : R α := (t, .ok a)
def R.err (t : Trace) (e : Exc) : R α := (t, .error e)

/-- `state_from_table(req, code, **kw)`; returns the *raw* value (callers coerce it) -/
def stateFromTable (app : App) (p : Prog) (code : Nat) (kwBad needsRealm : Bool) (t : Trace) : R Val :=
  if app.userStatus.contains code then
    match callT p (.status code) (.status code) t with
    | (t1, .ok v) => R.ok t1 v
    | (t1, .error e) =>
      match e with
      | .http .. | .httpResp _ =>
        match excMakeResponse e with
        | some r => R.ok t1 (.resp r)
        | none => R.ok (t1 ++ [.page 500]) (.resp (pageResp 500))
      | _ => if e.isException then R.ok (t1 ++ [.page 500]) (.resp (pageResp 500)) else R.err t1 e
  else if app.builtinPages.contains code then
    if kwBad then R.err (t ++ [.page code]) (.other 5)                 -- handler(req, **kw): TypeError
    else if code = 401 && app.digestAuth && needsRealm then R.err (t ++ [.page code]) (.other 5)  -- RuntimeError
    else if code = 304 then R.ok (t ++ [.page 304]) (.resp notModifiedResp)
    else if code = 401 && app.digestAuth then      -- Digest challenge: Response(headers={'WWW-Authenticate': ..})
      R.ok (t ++ [.page 401]) (.resp { pageResp 401 with headers := [("WWW-Authenticate".toList, "x".toList)] })
    else R.ok (t ++ [.page code]) (.resp (pageResp code))
  else R.ok (t ++ [.page 501]) (.resp (pageResp 501))

def coerce (app : App) (t : Trace) (v : Val) : R Resp :=
  match toResponse app.reasons v with
  | .ok r => R.ok t r
  | .respErr => R.err t .respErr
  | .typeErr => R.err t (.other 5)

/-- first registered exception handler whose class matches -/
def findExcHandler (app : App) (e : Exc) : Option Nat :=
  match e.classId with
  | none => none
  | some c => (List.range app.excHandlers.length).find? fun i =>
      match app.excHandlers[i]? with
      | some cls => isInstance c cls
      | none => false

/-- `error_from_table(req, err)`: `none` = no handler registered -/
def errorFromTable (app : App) (p : Prog) (err : Exc) (t : Trace) : R (Option Resp) :=
  match findExcHandler app err with
  | none => R.ok t none
  | some i =>
    match callT p (.exch i) (.exch i) t with
    | (t1, .ok v) =>
      match coerce app t1 v with
      | (t2, .ok r) => R.ok t2 (some r)
      | (t2, .error _) => R.ok (t2 ++ [.page 500]) (some (pageResp 500))    -- ResponseError: except Exception
    | (t1, .error e) =>
      match e with
      | .http code kw nr =>
        match excMakeResponse e with
        | some r => R.ok t1 (some r)
        | none =>
          match stateFromTable app p code kw nr t1 with
          | (t2, .ok v) => (match coerce app t2 v with
              | (t3, .ok r) => R.ok t3 (some r)
              | (t3, .error x) => R.err t3 x)
          | (t2, .error x) => R.err t2 x
      | .httpResp r => R.ok t1 (some r)
      | _ => if e.isException then R.ok (t1 ++ [.page 500]) (some (pageResp 500)) else R.err t1 e

/-- `to_response(state_from_table(request, 500))` -/
def fallback500 (app : App) (p : Prog) (t : Trace) : R Resp :=
  match stateFromTable app p 500 false false t with
  | (t1, .ok v) => coerce app t1 v
  | (t1, .error e) => R.err t1 e

/-- the `try: ... except BaseException: internal_server_error(request)` guards -/
def guarded (x : R Resp) : Trace × Resp :=
  match x with
  | (t, .ok r) => (t, r)
  | (t, .error _) => (t ++ [.page 500], pageResp 500)

/-- error_from_table(...) or to_response(state_from_table(500)), guarded -/
def errorResponse (app : App) (p : Prog) (err : Exc) (t : Trace) : Trace × Resp :=
  guarded <|
    match errorFromTable app p err t with
    | (t1, .ok (some r)) => R.ok t1 r
    | (t1, .ok none) => fallback500 app p t1
    | (t1, .error e) => R.err t1 e

/-- before hooks `i, i+1, ..` up to `n`: stop at the first that raises -/
def runBefore (p : Prog) : Nat → Nat → Trace → R Unit
  | _, 0, t => R.ok t ()
  | i, k + 1, t =>
    match callT p (.before i) (.before i) t with
    | (t1, .ok _) => runBefore p (i + 1) k t1
    | (t1, .error e) => R.err t1 e

/-- what the framework itself serves at the built-in dispatch exits -/
def builtinVal : Route → Val
  | .file => .resp ⟨.base, 200,
      xPoweredBy ++ [("Accept-Ranges".toList, "bytes".toList), ("Last-Modified".toList, "x".toList)],
      "application/octet-stream".toList, ["file".toUTF8.toList], 4⟩
  | .dirIndex => .tuple (.str (pageTag "index")) [.ctype "text/html; character=utf-8".toList,
                   .hdrs (.pairs [("Last-Modified".toList, "x".toList)])]
  | _ => .str (pageTag "debug-info")

/-- `handler_from_table`: every exit runs the before hooks first, then the endpoint / the
    built-in action / raises the HTTP error -/
def dispatch (app : App) (p : Prog) (route : Route) (t : Trace) : R Val :=
  match runBefore p 0 app.nBefore t with
  | (t1, .error e) => R.err t1 e
  | (t1, .ok ()) =>
    match route with
    | .hit | .default => callT p .endpoint .endpoint t1
    | .wrongMethod => R.err t1 (.http 405 false false)
    | .forbidden => R.err t1 (.http 403 false false)
    | .notFound => R.err t1 (.http 404 false false)
    | r => R.ok (t1 ++ [.builtinDispatch r]) (builtinVal r)

/-- like `callT` for the j-th after hook -/
def callA (post : AfterProg) (j : Nat) : Trace → Trace × Except Exc Val := fun t =>
  (t ++ [.after j], match post j with | .ret v => .ok v | .raise x => .error x | .same => .ok .none)

/-- after hooks `j..`: each receives the previous result; a failure ends the loop with an error response -/
def runAfter (app : App) (p : Prog) (post : AfterProg) : Nat → Nat → Trace → Resp → Trace × Resp
  | _, 0, t, r => (t, r)
  | j, k + 1, t, r =>
    match post j with
    | .same => runAfter app p post (j + 1) k (t ++ [.after j]) r
    | _ =>
    match callA post j t with
    | (t1, .ok v) =>
      match coerce app t1 v with
      | (t2, .ok r') => runAfter app p post (j + 1) k t2 r'
      | (t2, .error e) => errorResponse app p e t2
    | (t1, .error e) => errorResponse app p e t1

inductive Outcome where
  | answered (e : Emitted)
  | silent                    -- declined / connection-level: `()` and no start_response
deriving Repr, DecidableEq

/-- `try: request = Request(env, self); args = handler_from_table(request); response = to_response(args)` -/
def phase1 (app : App) (p : Prog) (ctor : Option Exc) (route : Route) : R Resp :=
  match ctor with
  | some e => R.err [] e
  | none =>
    match dispatch app p route [] with
    | (t1, .ok v) => coerce app t1 v
    | (t1, .error e) => R.err t1 e

/-- the `except` clauses of `__request__`: `none` = the silent return `()` -/
def ladder (app : App) (p : Prog) (t : Trace) (e : Exc) : Trace × Option Resp :=
  match e with
  | .http code kw nr =>
    (match excMakeResponse e with
     | some r => (t, some r)
     | none =>
       let x := guarded (match stateFromTable app p code kw nr t with
         | (t1, .ok v) => coerce app t1 v
         | (t1, .error x) => R.err t1 x)
       (x.1, some x.2))
  | .httpResp r => (t, some r)
  | .conn | .sysExit => (t, none)
  | .respErr => let x := guarded (fallback500 app p t); (x.1, some x.2)
  | e => let x := errorResponse app p e t; (x.1, some x.2)

def afterAll (app : App) (p : Prog) (post : AfterProg) (t : Trace) (r : Resp) : Trace × Option Resp :=
  let x := runAfter app p post 0 app.nAfter t r
  (x.1, some x.2)

/-- everything up to (not including) the after-hook loop: the response the loop starts
    with, or `none` for the silent return.  Takes no `AfterProg`. -/
def preAfter (app : App) (p : Prog) (ctor : Option Exc) (route : Route) : Trace × Option Resp :=
  match phase1 app p ctor route with
  | (t, .ok r) => (t, some r)
  | (t, .error e) => ladder app p t e

/-- the response object that reaches the emission step, or `none` for the silent return -/
def respond (app : App) (p : Prog) (post : AfterProg) (ctor : Option Exc) (route : Route) :
    Trace × Option Resp :=
  match preAfter app p ctor route with
  | (t, none) => (t, none)
  | (t, some r) => afterAll app p post t r

/-- the whole request: trace of user/built-in code that ran, and what the server sees -/
def run (app : App) (p : Prog) (post : AfterProg) (ctor : Option Exc) (route : Route) : Trace × Outcome :=
  match respond app p post ctor route with
  | (t, none) => (t, .silent)
  | (t, some r) =>
    match emit app.reasons r with
    | none => (t, .silent)
    | some e => (t, .answered e)

end Poor.Wsgi
