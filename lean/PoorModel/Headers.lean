import PoorModel.Prelude
/-
Model of poorwsgi.headers.Headers (headers.py:216-426): an insertion-ordered,
case-insensitive multimap of native strings whose latin-1 bytes are the UTF-8
encoding of the text supplied.  Property C14 (and the header part of C05).
-/
namespace Poor.Headers

/-! ### transcoding -/

def utf8enc (s : Str) : Bytes := s.flatMap String.utf8EncodeChar

def utf8dec (b : Bytes) : Option Str := (ByteArray.mk b.toArray).utf8Decode?.map Array.toList

/-- `bytes.decode('iso-8859-1')` -/
def latin1dec (b : Bytes) : Str := b.map fun x => Char.ofNat x.toNat

/-- `str.encode('iso-8859-1')`: fails on a code point above 255 -/
def latin1enc (s : Str) : Option Bytes :=
  s.mapM fun c => if c.toNat < 256 then some (UInt8.ofNat c.toNat) else none

/-- `Headers.iso88591`: `value.encode('utf-8').decode('iso-8859-1')` -/
def iso (s : Str) : Str := latin1dec (utf8enc s)

/-- `Headers.utf8`: `value.encode('iso-8859-1').decode('utf-8')`, the value itself on UnicodeError -/
def utf8 (s : Str) : Str :=
  match latin1enc s with
  | none => s
  | some b => match utf8dec b with
    | none => s
    | some t => t

/-! ### the collection -/

abbrev Hs := List (Str × Str)

/-- `str.lower()` - names are US-ASCII tokens, as the class requires -/
def lower (s : Str) : Str := s.map Char.toLower

/-- the lookup key of a name: `Headers.iso88591(name).lower()` -/
def key (name : Str) : Str := lower (iso name)

def getItem (h : Hs) (name : Str) : Option Str :=
  (h.find? fun kv => lower kv.1 == key name).map (·.2)

def contains (h : Hs) (name : Str) : Bool := (getItem h name).isSome

def getAll (h : Hs) (name : Str) : List Str :=
  (h.filter fun kv => lower kv.1 == key name).map (·.2)

def delItem (h : Hs) (name : Str) : Hs := h.filter fun kv => !(lower kv.1 == key name)

def replaceChar (a b : Char) (s : Str) : Str := s.map fun c => if c = a then b else c

/-- `wsgiref.headers._formatparam(param, value)` with the default `quote=1` -/
def formatParam (param value : Str) : Str :=
  if value.isEmpty then param
  else
    let esc := value.flatMap fun c => if c = '\\' then ['\\', '\\'] else if c = '"' then ['\\', '"'] else [c]
    param ++ "=\"".toList ++ esc ++ "\"".toList

inductive Err where
  | keyError | valueError | typeError
deriving Repr, DecidableEq

/-- `add_header(name, value, **kwargs)`; `value = none` is Python `None`;
    a keyword with value `none` renders as a bare attribute -/
def addHeader (h : Hs) (name : Str) (value : Option Str) (params : List (Str × Option Str)) :
    Except Err Hs :=
  let parts := (value.map iso).toList ++ params.map fun (k, v) =>
    match v with
    | none => replaceChar '_' '-' (iso k)
    | some v => formatParam (replaceChar '_' '-' (iso k)) (iso v)
  if parts.isEmpty then .error .valueError
  else .ok (h ++ [(iso name, "; ".toList.intercalate parts)])

def setCookieKey : Str := "set-cookie".toList

/-- `add`: duplicates are refused, except for Set-Cookie (in any casing) -/
def add (h : Hs) (name value : Str) : Except Err Hs :=
  if key name != setCookieKey && contains h name then .error .keyError
  else addHeader h name (some value) []

/-- `headers[name] = value` -/
def setItem (h : Hs) (name value : Str) : Except Err Hs :=
  addHeader (delItem h name) name (some value) []

/-- `setdefault`: returns the value now stored under the name -/
def setDefault (h : Hs) (name value : Str) : Except Err (Hs × Str) :=
  match getItem h name with
  | some r => .ok (h, r)
  | none => (addHeader h name (some value) []).map fun h' => (h', value)

/-- constructor from pairs (strict: names and values are transcoded) -/
def construct (pairs : Hs) (strict : Bool) : Hs :=
  if strict then pairs.map fun (k, v) => (iso k, iso v) else pairs

end Poor.Headers
