import PoorModel.Wsgi
/-
Model for property C17: requests as sequences of atomic steps over a shared state (process-wide
and per-application tables) and a state of their own; schedules interleave the steps of several
in-flight requests.  The switch points are those the property names: before hook, endpoint
entry/exit, after hook, each streamed chunk.
-/
namespace Poor.Sched

/-- one atomic step of a request: may read and (in general) write the shared state and the
    request's own state -/
structure Sys (Sh Loc : Type) where
  step : Sh → Loc → Sh × Loc

variable {Sh Loc : Type} (sys : Sys Sh Loc)

/-- request `i` takes its next step -/
def exec1 (st : Sh × List Loc) (i : Nat) : Sh × List Loc :=
  match st.2[i]? with
  | some l => ((sys.step st.1 l).1, st.2.set i (sys.step st.1 l).2)
  | none => st

/-- a schedule: which in-flight request moves next -/
def run (sh : Sh) (locs : List Loc) (sched : List Nat) : Sh × List Loc :=
  sched.foldl (exec1 sys) (sh, locs)

/-- the request alone against the shared state `sh`: `n` steps -/
def solo (sh : Sh) (l : Loc) : Nat → Loc
  | 0 => l
  | n + 1 => solo sh (sys.step sh l).2 n

/-- the frame condition: no step writes the shared state -/
def Frame : Prop := ∀ sh l, (sys.step sh l).1 = sh

/-! ### the shared objects of poorwsgi (what `Sh` stands for) -/

/-- the module and class level mutable objects of the package, by `module.name` -/
def knownShared : List String :=
  ["state.methods", "state.sorted_methods", "response.NOT_MODIFIED_DENY", "response.NOT_MODIFIED_ONE_OF_REQUIRED",
   "response.responses", "results.HTML_ESCAPE_TABLE", "results.default_states", "wsgi.AUTH_DIGEST_ALGORITHMS",
   "wsgi.Application.__instances"]

/-! ### the request model of C01/C03/C04 as an instance -/

open Poor.Wsgi Poor.Response in
/-- a request in progress against the tables `app` -/
inductive Stage where
  | start (p : Prog) (post : AfterProg) (ctor : Option Exc) (route : Route)
  | mid (p : Prog) (post : AfterProg) (t : Trace) (r : Option Resp)
  | fin (t : Trace) (o : Outcome)

open Poor.Wsgi Poor.Response in
/-- two switch points: after dispatch (before hooks + endpoint + error ladder), after the after
    hooks and emission -/
def wsgiStep (app : App) : Stage → App × Stage
  | .start p post ctor route => (app, .mid p post (preAfter app p ctor route).1 (preAfter app p ctor route).2)
  | .mid _ _ t none => (app, .fin t .silent)
  | .mid p post t (some r) =>
    (app, match afterAll app p post t r with
      | (t', none) => .fin t' .silent
      | (t', some r') =>
        match emit app.reasons r' with
        | none => .fin t' .silent
        | some e => .fin t' (.answered e))
  | .fin t o => (app, .fin t o)

def wsgiSys : Sys Poor.Wsgi.App Stage := ⟨wsgiStep⟩

end Poor.Sched
