import PoorModel.Prelude
import PoorModel.Headers
import PoorModel.HeaderValue
/-
Model of how request data reaches a handler (property C10):

* `urllib.parse.unquote / parse_qsl / parse_qs / quote_plus / urlencode` (CPython 3.12,
  compared with the real functions on every run),
* `request.Args` (scalar/list collapse), `fieldstorage.FieldStorage` built by
  `read_urlencoded`, and the accessor trio `getvalue / getfirst / getlist` of both,
* `JsonDict` / `JsonList` accessors over a JSON value,
* the body plan of `Request.__init__`: buffering by declared length, choice of parser,
  the number of bytes taken from `wsgi.input`,
* the environ -> request header mapping.
-/
namespace Poor.Query
open Poor
open Poor.Headers (utf8enc utf8dec)

def isAscii (c : Char) : Bool := c.toNat < 128

def byteOf (c : Char) : UInt8 := UInt8.ofNat c.toNat

/-- `_unquote_impl` on an ASCII run: `%XY` with two hex digits is one byte, a `%` not followed
    by two hex digits stays (char-level equivalent of the `split(b'%')` loop) -/
def unqBytes : Str → Bytes
  | [] => []
  | [c] => [byteOf c]
  | [c, d] => [byteOf c, byteOf d]
  | c :: a :: b :: r =>
    if c = '%' then
      match hexVal a, hexVal b with
      | some x, some y => UInt8.ofNat (x * 16 + y) :: unqBytes r
      | _, _ => byteOf c :: unqBytes (a :: b :: r)
    else byteOf c :: unqBytes (a :: b :: r)

theorem length_dropWhile_le (p : α → Bool) (l : List α) : (l.dropWhile p).length ≤ l.length := by
  induction l with
  | nil => simp
  | cons a l ih => simp only [List.dropWhile]; split <;> simp <;> omega

/-- `_generate_unquoted_parts`: maximal ASCII runs are percent-decoded and UTF-8 decoded one by
    one, other characters are copied.  `none`: a run does not decode to valid UTF-8 (CPython then
    substitutes U+FFFD; the substitution is not modelled). -/
def unqRuns : Str → Option Str
  | [] => some []
  | c :: r =>
    if isAscii c then
      match utf8dec (unqBytes ((c :: r).takeWhile isAscii)), unqRuns ((c :: r).dropWhile isAscii) with
      | some d, some t => some (d ++ t)
      | _, _ => none
    else (unqRuns r).map (c :: ·)
termination_by s => s.length
decreasing_by
  · rename_i h
    have := length_dropWhile_le isAscii r
    simp only [List.dropWhile, h, List.length_cons]; omega
  · simp

/-- `urllib.parse.unquote(string)` (utf-8, errors='replace') -/
def unquote (s : Str) : Option Str := if s.contains '%' then unqRuns s else some s

def plusToSpace (s : Str) : Str := s.map fun c => if c = '+' then ' ' else c

/-- `name_value.split('=', 1)` -/
def partEq (s : Str) : Str × Option Str :=
  match s.dropWhile (· != '=') with
  | _ :: v => (s.takeWhile (· != '='), some v)
  | [] => (s, none)

inductive QErr where
  | valueError    -- strict_parsing: a field without `=`
  | undecodable   -- outside the model: percent-escapes that are not UTF-8
deriving Repr, DecidableEq

abbrev Pairs := List (Str × Str)

/-- one `name_value` of the `parse_qsl` loop -/
def parseField (keep strict : Bool) (nv : Str) : Except QErr (Option (Str × Str)) :=
  if nv.isEmpty && !strict then .ok none else
  match partEq nv with
  | (_, none) =>
    if strict then .error .valueError
    else if keep then
      match unquote (plusToSpace nv) with
      | some n => .ok (some (n, []))
      | none => .error .undecodable
    else .ok none
  | (n, some v) =>
    if !v.isEmpty || keep then
      match unquote (plusToSpace n), unquote (plusToSpace v) with
      | some n', some v' => .ok (some (n', v'))
      | _, _ => .error .undecodable
    else .ok none

def collect : List (Except QErr (Option (Str × Str))) → Except QErr Pairs
  | [] => .ok []
  | .error e :: _ => .error e
  | .ok o :: r => match collect r with
    | .ok l => .ok (o.toList ++ l)
    | .error e => .error e

/-- `urllib.parse.parse_qsl(qs, keep_blank_values, strict_parsing)` -/
def parseQsl (keep strict : Bool) (qs : Str) : Except QErr Pairs :=
  if qs.isEmpty then .ok [] else collect ((qs.splitOn '&').map (parseField keep strict))

/-! ### encoder: `quote_plus` / `urlencode` -/

def isSafe (c : Char) : Bool :=
  ('A' ≤ c && c ≤ 'Z') || ('a' ≤ c && c ≤ 'z') || ('0' ≤ c && c ≤ '9') || c = '_' || c = '.' || c = '-' || c = '~'

def hexUp (n : Nat) : Char := if n < 10 then Char.ofNat (48 + n) else Char.ofNat (55 + n)

def pct (b : UInt8) : Str := ['%', hexUp (b.toNat / 16), hexUp (b.toNat % 16)]

/-- `quote_plus` of one character -/
def quoteChar (c : Char) : Str :=
  if c = ' ' then ['+'] else if isSafe c then [c] else (utf8enc [c]).flatMap pct

def quotePlus (s : Str) : Str := s.flatMap quoteChar

def encPair (kv : Str × Str) : Str := quotePlus kv.1 ++ '=' :: quotePlus kv.2

/-- `urllib.parse.urlencode(pairs)` -/
def urlencode (ps : Pairs) : Str := ['&'].intercalate (ps.map encPair)

/-! ### `parse_qs` grouping and `Args` -/

/-- `parsed_result[name].append(value)` / `parsed_result[name] = [value]` -/
def groupAdd (d : List (Str × List Str)) (kv : Str × Str) : List (Str × List Str) :=
  if d.any (fun e => e.1 == kv.1) then d.map fun e => if e.1 == kv.1 then (e.1, e.2 ++ [kv.2]) else e
  else d ++ [(kv.1, [kv.2])]

def group (ps : Pairs) : List (Str × List Str) := ps.foldl groupAdd []

/-- a value as a handler sees it: a scalar or a list -/
inductive V where
  | one (s : Str)
  | many (l : List Str)
deriving Repr, DecidableEq

/-- `val[0] if len(val) < 2 else val` -/
def collapse (vals : List Str) : V := if vals.length < 2 then .one (vals.headD []) else .many vals

/-- `Args(req)` as an insertion-ordered dictionary -/
def mkArgs (ps : Pairs) : List (Str × V) := (group ps).map fun e => (e.1, collapse e.2)

def dictGet (d : List (Str × β)) (k : Str) : Option β := (d.find? fun e => e.1 == k).map (·.2)

/-- `Args(req, keep_blank_values, strict_parsing)`: `req.query` is the stripped QUERY_STRING -/
def reqArgs (keep strict : Bool) (query : Str) : Except QErr (List (Str × V)) :=
  (parseQsl keep strict (HeaderValue.strip query)).map mkArgs

/-- FieldStorageInterface.getvalue on a dict -/
def argsGetvalue (d : List (Str × V)) (k : Str) : Option V := dictGet d k

/-- FieldStorageInterface.getfirst on a dict; `none` is the default, `some none` an IndexError -/
def argsGetfirst (d : List (Str × V)) (k : Str) : Option Str :=
  match dictGet d k with
  | some (.one s) => some s
  | some (.many l) => l.head?
  | none => none

def argsGetlist (d : List (Str × V)) (k : Str) : List Str :=
  match dictGet d k with
  | some (.one s) => [s]
  | some (.many l) => l
  | none => []

/-! ### `FieldStorage` of a urlencoded body: `field.list = [FieldStorage(k, v) ...]` -/

/-- `__getitem__`: the fields called `k`, in order -/
def fsFound (ps : Pairs) (k : Str) : List Str := (ps.filter fun e => e.1 == k).map (·.2)

/-- `dict.fromkeys(k.name for k in self.list)`: first-seen order -/
def addKey (acc : List Str) (k : Str) : List Str := if acc.contains k then acc else acc ++ [k]

def fsKeys (ps : Pairs) : List Str := ps.foldl (fun acc kv => addKey acc kv.1) []

def fsGetvalue (ps : Pairs) (k : Str) : Option V :=
  match fsFound ps k with
  | [] => none
  | [v] => some (.one v)
  | l => some (.many l)

def fsGetfirst (ps : Pairs) (k : Str) : Option Str := (fsFound ps k).head?

def fsGetlist (ps : Pairs) (k : Str) : List Str :=
  match fsGetvalue ps k with
  | none => []
  | some (.one v) => [v]
  | some (.many l) => l

/-! ### JSON values and their accessors -/

inductive J where
  | null
  | bool (b : Bool)
  | num (repr : Str)
  | str (s : Str)
  | arr (l : List J)
  | obj (l : List (Str × J))
deriving Repr

/-- what `parse_json_request` hands over: a dict-like, a list-like or the scalar itself -/
inductive Kind where
  | dict | list | scalar
deriving Repr, DecidableEq

def J.kind : J → Kind
  | .obj _ => .dict
  | .arr _ => .list
  | _ => .scalar

/-- JsonDict.getvalue -/
def jdGetvalue (o : List (Str × J)) (k : Str) : Option J := dictGet o k

/-- JsonDict.getlist: a list value item by item, any other value as a one-item list -/
def jdGetlist (o : List (Str × J)) (k : Str) : List J :=
  match dictGet o k with
  | some (.arr l) => l
  | some v => [v]
  | none => []

/-- JsonDict.getfirst: the first item of a list value (the default for an empty list) -/
def jdGetfirst (o : List (Str × J)) (k : Str) : Option J :=
  match dictGet o k with
  | some (.arr l) => l.head?
  | some v => some v
  | none => none

/-- JsonList.getvalue / getfirst (the key is ignored) and getlist -/
def jlGetfirst (l : List J) : Option J := l.head?
def jlGetlist (l : List J) : List J := l

/-! ### the body plan of `Request.__init__` -/

structure Cfg where
  autoData : Bool
  autoJson : Bool
  autoForm : Bool
  dataSize : Int
  jsonTypes : List Str
  formTypes : List Str
deriving Repr

inductive Plan where
  | json | form | none
deriving Repr, DecidableEq

/-- `is_body_request`: a Content-Length above zero -/
def isBody (cl : Int) : Bool := cl > 0

def plan (c : Cfg) (cl : Int) (http09 : Bool) (mime : Str) : Plan :=
  if c.autoJson && (isBody cl || http09) && c.jsonTypes.contains mime then .json
  else if c.autoForm && (isBody cl || http09) && c.formTypes.contains mime then .form
  else .none

/-- `auto_data and 0 <= content_length <= data_size`: the body is copied into a BytesIO -/
def buffered (c : Cfg) (cl : Int) : Bool := c.autoData && 0 ≤ cl && cl ≤ c.dataSize

/-- `file.read(n)` on the rest of a stream: the bytes returned (all for a negative `n`) -/
def streamRead (rest : Bytes) (n : Int) : Bytes := if n < 0 then rest else rest.take n.toNat

def urlenc : Str := "application/x-www-form-urlencoded".toList

/-- what a request takes from `wsgi.input` before the handler runs, for the bodies that are read
    with one `read(Content-Length)` call (buffering, JSON, urlencoded forms);
    `none`: the multipart parser reads line by line (properties C08/C09) -/
def taken (c : Cfg) (cl : Int) (http09 : Bool) (mime : Str) (stream : Bytes) : Option Bytes :=
  if buffered c cl then some (streamRead stream cl)
  else match plan c cl http09 mime with
    | .json => some (streamRead stream cl)
    | .form => if mime = urlenc then some (streamRead stream cl) else none
    | .none => some []

/-- `req.data`: the buffered body, `None` otherwise -/
def data (c : Cfg) (cl : Int) (stream : Bytes) : Option Bytes :=
  if buffered c cl then some (streamRead stream cl) else none

/-- the bytes the selected parser is given -/
def parserInput (cl : Int) (stream : Bytes) : Bytes := streamRead stream cl

/-! ### environ -> request headers -/

/-- `str.capitalize()` for ASCII -/
def capitalize : Str → Str
  | [] => []
  | c :: r => c.toUpper :: r.map Char.toLower

def dashed (s : Str) : Str := ['-'].intercalate ((s.splitOn '_').map capitalize)

/-- the header name an environ key stands for -/
def envHeaderName (k : Str) : Option Str :=
  if k.take 5 = "HTTP_".toList then some (dashed (k.drop 5))
  else if k = "CONTENT_LENGTH".toList ∨ k = "CONTENT_TYPE".toList then some (dashed k)
  else none

/-- `Headers(tmp, False)` of `Request.__init__` -/
def reqHeaders (env : List (Str × Str)) : Headers.Hs :=
  env.filterMap fun kv => (envHeaderName kv.1).map fun n => (n, kv.2)

/-! ### `Request.read`: the handler reads the (unbuffered) body itself, in pieces -/

/-- what is left of the declared body, and the unread part of `wsgi.input` -/
structure RdSt where
  todo : Nat
  src : Bytes
deriving Repr

/-- `req.read(k)`; `none` = no size (or a negative one): the rest of the declared body -/
def reqRead (s : RdSt) (k : Option Nat) : Bytes × RdSt :=
  let n := match k with
    | none => s.todo
    | some k => min k s.todo
  let out := s.src.take n
  (out, { todo := s.todo - out.length, src := s.src.drop n })

/-- a sequence of reads: the pieces returned, in order -/
def reqReads : RdSt → List (Option Nat) → List Bytes × RdSt
  | s, [] => ([], s)
  | s, k :: ks =>
    let r := reqRead s k
    let rest := reqReads r.2 ks
    (r.1 :: rest.1, rest.2)

end Poor.Query
