import PoorModel.Prelude
import PoorModel.HeaderValue
import PoorModel.Headers
/-
Model of the JSON codec as PoorWSGI uses it:

* `dump`  = `json.dumps(value)` with the default arguments (`JSONResponse`, response.py:447, and the session
  cookie, session.py:247): `ensure_ascii=True`, separators `', '` and `': '`, no sorting.
* `loads` = `json.loads(text)` on a `str` (`parse_json_request`, request.py:909, and `PoorSession.load`,
  session.py:273): CPython's `JSONDecoder.decode` with the C scanner (`scan_once_unicode`,
  `scanstring_unicode` with `strict=True`, `_parse_object_unicode`, `_parse_array_unicode`,
  `_match_number_unicode`).

Strings of *values* are lists of code points (a Python `str` may hold lone surrogates, e.g. from a `\ud800`
escape); JSON *text* is a list of `Char`.  Not modelled: floats - a number with a fraction or an exponent and
the constants `NaN`, `Infinity`, `-Infinity` parse to the placeholder `J.float` (the scanner still consumes
them, so errors behind them are found); `dump` of `J.float` is a placeholder too and the theorems exclude it.
-/
namespace Poor.Json
open Poor
open Poor.HeaderValue (isDigit natOfDigits)

abbrev CpStr := List Nat

inductive J where
  | null
  | bool (b : Bool)
  | int (i : Int)
  | float
  | str (s : CpStr)
  | arr (l : List J)
  | obj (kvs : List (CpStr × J))
deriving Repr, Inhabited

/-! ### `json.dumps` -/

def hexd (n : Nat) : Char := if n < 10 then Char.ofNat (48 + n) else Char.ofNat (87 + n)

def hex4 (n : Nat) : Str := [hexd (n / 4096 % 16), hexd (n / 256 % 16), hexd (n / 16 % 16), hexd (n % 16)]

def uesc (n : Nat) : Str := '\\' :: 'u' :: hex4 n

/-- `ESCAPE_ASCII`: `"`, `\`, the five short escapes, everything outside `' '..'~'` as `\uXXXX`
    (a UTF-16 surrogate pair above U+FFFF) -/
def escChar (c : Nat) : Str :=
  if c = 34 then ['\\', '"'] else if c = 92 then ['\\', '\\']
  else if c = 10 then ['\\', 'n'] else if c = 13 then ['\\', 'r'] else if c = 9 then ['\\', 't']
  else if c = 12 then ['\\', 'f'] else if c = 8 then ['\\', 'b']
  else if 32 ≤ c ∧ c ≤ 126 then [Char.ofNat c]
  else if c < 65536 then uesc c
  else uesc (0xd800 + (c - 65536) / 1024 % 1024) ++ uesc (0xdc00 + (c - 65536) % 1024)

def dumpStr (s : CpStr) : Str := '"' :: (s.flatMap escChar ++ ['"'])

/-- `str(n)` for a natural number -/
def digitsOf (n : Nat) : Str := (toString n).toList

def dumpInt (i : Int) : Str := if i < 0 then '-' :: digitsOf i.natAbs else digitsOf i.natAbs

mutual
def dump : J → Str
  | .null => ['n', 'u', 'l', 'l']
  | .bool true => ['t', 'r', 'u', 'e']
  | .bool false => ['f', 'a', 'l', 's', 'e']
  | .int i => dumpInt i
  | .float => ['0', '.', '0']
  | .str s => dumpStr s
  | .arr [] => ['[', ']']
  | .arr (x :: xs) => '[' :: (dump x ++ dumpTail xs)
  | .obj [] => ['{', '}']
  | .obj ((k, v) :: r) => '{' :: (dumpStr k ++ ':' :: ' ' :: (dump v ++ dumpMembers r))
def dumpTail : List J → Str
  | [] => [']']
  | x :: xs => ',' :: ' ' :: (dump x ++ dumpTail xs)
def dumpMembers : List (CpStr × J) → Str
  | [] => ['}']
  | (k, v) :: r => ',' :: ' ' :: (dumpStr k ++ ':' :: ' ' :: (dump v ++ dumpMembers r))
end

/-! ### `json.loads` -/

inductive PR (α : Type) where
  | ok (v : α) (rest : Str)
  | err
deriving Repr

def isWs (c : Char) : Bool := c = ' ' || c = '\t' || c = '\n' || c = '\r'
def skipWs (s : Str) : Str := s.dropWhile isWs

def hex4? : Str → Option (Nat × Str)
  | a :: b :: c :: d :: r =>
    match hexVal a, hexVal b, hexVal c, hexVal d with
    | some w, some x, some y, some z => some (((w * 16 + x) * 16 + y) * 16 + z, r)
    | _, _, _, _ => none
  | _ => none

theorem hex4?_len {s : Str} {c : Nat} {r : Str} (h : hex4? s = some (c, r)) : s.length = r.length + 4 := by
  match s, h with
  | a :: b :: c' :: d :: r', h =>
    simp only [hex4?] at h
    split at h
    · simp only [Option.some.injEq, Prod.mk.injEq] at h; simp [← h.2]
    · simp at h

def isHigh (c : Nat) : Bool := 0xD800 ≤ c && c ≤ 0xDBFF
def isLow (c : Nat) : Bool := 0xDC00 ≤ c && c ≤ 0xDFFF
def joinSur (hi lo : Nat) : Nat := 0x10000 + (hi - 0xD800) * 1024 + (lo - 0xDC00)

def unesc (c : Char) : Option Nat :=
  if c = '"' then some 34 else if c = '\\' then some 92 else if c = '/' then some 47
  else if c = 'b' then some 8 else if c = 'f' then some 12 else if c = 'n' then some 10
  else if c = 'r' then some 13 else if c = 't' then some 9 else none

/-- the look-ahead behind a `\\uXXXX` that decoded to `u` (`r3` is the text after it): `none` = error,
    `some none` = `u` stands alone, `some (some (c, r5))` = a surrogate pair joined into `c`.
    C: `if (Py_UNICODE_IS_HIGH_SURROGATE(c) && end + 6 < len && buf[next++] == '\\' && buf[next++] == 'u')`,
    then the second escape is decoded at once (an invalid digit is an error) and joined when it is a low surrogate -/
def pairAt (u : Nat) (r3 : Str) : Option (Option (Nat × Str)) :=
  if isHigh u && decide (7 ≤ r3.length) then
    match r3 with
    | '\\' :: 'u' :: r4 =>
      match hex4? r4 with
      | none => none
      | some (u2, r5) => if isLow u2 then some (some (joinSur u u2, r5)) else some none
    | _ => some none
  else some none

theorem pairAt_len {u : Nat} {r3 : Str} {c : Nat} {r5 : Str} (h : pairAt u r3 = some (some (c, r5))) :
    r3.length = r5.length + 6 := by
  unfold pairAt at h
  split at h
  · split at h
    · rename_i r4
      split at h
      · simp at h
      · rename_i u2 r5' h4
        have := hex4?_len h4
        split at h
        · simp only [Option.some.injEq, Prod.mk.injEq] at h
          rw [← h.2]; simp only [List.length_cons]; omega
        · simp at h
    · simp at h
  · simp at h

/-- `scanstring_unicode(s, end, strict=True)` from just behind the opening quote; `acc` is reversed -/
def scanStr (s : Str) (acc : CpStr) : PR CpStr :=
  match s with
  | [] => .err                                                   -- Unterminated string
  | c :: r =>
    if c = '"' then .ok acc.reverse r
    else if c = '\\' then
      match r with
      | [] => .err
      | e :: r2 =>
        if e = 'u' then
          match h : hex4? r2 with
          | none => .err                                         -- Invalid \uXXXX escape
          | some (u, r3) =>
            if r3.isEmpty then .err                              -- `end >= len`
            else match h5 : pairAt u r3 with
              | none => .err
              | some none => scanStr r3 (u :: acc)
              | some (some (j, r5)) => scanStr r5 (j :: acc)
        else match unesc e with
          | some v => scanStr r2 (v :: acc)
          | none => .err                                         -- Invalid \escape
    else if c.toNat ≤ 0x1f then .err                             -- Invalid control character
    else scanStr r (c.toNat :: acc)
termination_by s.length
decreasing_by
  all_goals simp_wf
  all_goals (try have h1 := hex4?_len h)
  all_goals (try have h2 := pairAt_len h5)
  all_goals omega

/-- the fraction of `_match_number_unicode`: `.` followed by a digit -/
def dropFrac (s : Str) : Bool × Str :=
  match s with
  | '.' :: d :: r => if isDigit d then (true, r.dropWhile isDigit) else (false, s)
  | _ => (false, s)

/-- the exponent: `e`/`E`, a sign only when another character follows it, at least one digit - else backtrack -/
def dropExp (s : Str) : Bool × Str :=
  match s with
  | e :: c :: r' =>
    if e = 'e' ∨ e = 'E' then
      let r2 := if (c = '-' ∨ c = '+') ∧ r' ≠ [] then r' else c :: r'
      match r2 with
      | d :: _ => if isDigit d then (true, r2.dropWhile isDigit) else (false, s)
      | [] => (false, s)
    else (false, s)
  | _ => (false, s)

def INT_MAX_DIGITS : Nat := 4300

/-- after the integer digits `ds` (sign `neg`): a float when a fraction or exponent follows, else
    `int(numstr)` (ValueError above 4300 digits) -/
def finishNumber (neg : Bool) (ds : Str) (rest : Str) : PR J :=
  let (f1, r1) := dropFrac rest
  let (f2, r2) := dropExp r1
  if f1 || f2 then .ok .float r2
  else if ds.length > INT_MAX_DIGITS then .err
  else .ok (.int (if neg then - (natOfDigits ds : Int) else natOfDigits ds)) rest

def startsWith (s : Str) (p : Str) : Option Str :=
  if p.isPrefixOf s then some (s.drop p.length) else none

/-- the integer part: `0`, or a non-zero digit followed by digits -/
def pDigits (neg : Bool) (r : Str) : PR J :=
  match r with
  | [] => .err
  | d :: r1 =>
    if d = '0' then finishNumber neg ['0'] r1
    else if '1' ≤ d ∧ d ≤ '9' then finishNumber neg (d :: r1.takeWhile isDigit) (r1.dropWhile isDigit)
    else .err

/-- `_match_number_unicode` -/
def pNumber (s : Str) : PR J :=
  match s with
  | '-' :: r => pDigits true r
  | _ => pDigits false s

/-- `dict[key] = value` on an insertion-ordered dict -/
def dset (d : List (CpStr × J)) (k : CpStr) (v : J) : List (CpStr × J) :=
  match d with
  | [] => [(k, v)]
  | (k', v') :: r => if k' = k then (k', v) :: r else (k', v') :: dset r k v

/-- the literals of `scan_once_unicode`; the three float constants give the placeholder -/
def pLiteral (s : Str) : Option (J × Str) :=
  match startsWith s "null".toList with
  | some r => some (.null, r)
  | none =>
  match startsWith s "true".toList with
  | some r => some (.bool true, r)
  | none =>
  match startsWith s "false".toList with
  | some r => some (.bool false, r)
  | none =>
  match startsWith s "NaN".toList with
  | some r => some (.float, r)
  | none =>
  match startsWith s "Infinity".toList with
  | some r => some (.float, r)
  | none =>
  match startsWith s "-Infinity".toList with
  | some r => some (.float, r)
  | none => none

mutual
/-- `scan_once` -/
def pValue : Nat → Str → PR J
  | 0, _ => .err
  | f + 1, s =>
    match s with
    | [] => .err
    | c :: r =>
      if c = '"' then
        match scanStr r [] with
        | .ok v r' => .ok (.str v) r'
        | .err => .err
      else if c = '{' then
        match skipWs r with
        | '}' :: r' => .ok (.obj []) r'
        | r' => pMembers f r' []
      else if c = '[' then
        match skipWs r with
        | ']' :: r' => .ok (.arr []) r'
        | r' => pElems f r' []
      else match pLiteral s with
        | some (v, r') => .ok v r'
        | none => pNumber s
/-- the loop of `_parse_array_unicode` at the start of an element; `acc` is reversed -/
def pElems : Nat → Str → List J → PR J
  | 0, _, _ => .err
  | f + 1, s, acc =>
    match pValue f s with
    | .err => .err
    | .ok v r =>
      match skipWs r with
      | c :: r' =>
        if c = ']' then .ok (.arr (acc.reverse ++ [v])) r'
        else if c = ',' then pElems f (skipWs r') (v :: acc)
        else .err
      | [] => .err
/-- the loop of `_parse_object_unicode` at the start of a key -/
def pMembers : Nat → Str → List (CpStr × J) → PR J
  | 0, _, _ => .err
  | f + 1, s, acc =>
    match s with
    | '"' :: r =>
      match scanStr r [] with
      | .err => .err
      | .ok k r1 =>
        match skipWs r1 with
        | ':' :: r2 =>
          match pValue f (skipWs r2) with
          | .err => .err
          | .ok v r3 =>
            match skipWs r3 with
            | c :: r' =>
              if c = '}' then .ok (.obj (dset acc k v)) r'
              else if c = ',' then pMembers f (skipWs r') (dset acc k v)
              else .err
            | [] => .err
        | _ => .err
    | _ => .err                                                  -- Expecting property name enclosed in double quotes
end

/-- `json.loads(s)` for a `str`: BOM refused, leading white space skipped, one value, nothing but white space after it -/
def loads (s : Str) : Option J :=
  if s.head? = some (Char.ofNat 0xFEFF) then none else
  match pValue (s.length + 1) (skipWs s) with
  | .ok v r => if skipWs r = [] then some v else none
  | .err => none

/-- `json.dumps(v).encode("utf-8")` -/
def dumpBytes (v : J) : Bytes := Poor.Headers.utf8enc (dump v)

/-- `json.loads(raw.decode("utf-8"))`: `none` = any exception (UnicodeDecodeError, JSONDecodeError, ValueError) -/
def loadBytes (raw : Bytes) : Option J := (Poor.Headers.utf8dec raw).bind loads

/-- does the value hold a float (then the model has no opinion on it) -/
def hasFloat : J → Bool
  | .float => true
  | .arr l => l.attach.any fun ⟨x, _⟩ => hasFloat x
  | .obj l => l.attach.any fun ⟨kv, _⟩ => hasFloat kv.2
  | _ => false
termination_by v => sizeOf v
decreasing_by
  all_goals simp_wf
  · have := List.sizeOf_lt_of_mem ‹x ∈ l›; omega
  · have := List.sizeOf_lt_of_mem ‹kv ∈ l›
    have : sizeOf kv.2 < sizeOf kv := by cases kv; simp; omega
    omega

end Poor.Json
