import PoorModel.Prelude
/-
Model of poorwsgi.digest.PasswordMap.load / .write (digest.py): the user table of Digest
authentication kept in a password file (htdigest layout, one `user:realm:hash` per line).
Property C11 ("for every user table").

`load`: the file is opened in text mode (universal newlines: `\n`, `\r\n` and a lone `\r` end a line),
each line is `strip()`ped - Python's Unicode white space - and `split(':')` must give exactly three fields
(anything else raises ValueError); later lines overwrite earlier ones of the same realm and user.
-/
namespace Poor.PwFile

structure Entry where
  user : Str
  realm : Str
  digest : Str
deriving Repr, DecidableEq

/-- `str.isspace` of one character (Py_UNICODE_ISSPACE) -/
def isSpace (c : Char) : Bool :=
  let n := c.toNat
  (9 ≤ n && n ≤ 13) || (28 ≤ n && n ≤ 32) || n == 133 || n == 160 || n == 5760 || (8192 ≤ n && n ≤ 8202) ||
  n == 8232 || n == 8233 || n == 8239 || n == 8287 || n == 12288

/-- `str.strip()` -/
def strip (s : Str) : Str := ((s.dropWhile isSpace).reverse.dropWhile isSpace).reverse

/-- `str.split(':')` -/
def splitGo (cur : Str) : Str → List Str
  | [] => [cur.reverse]
  | c :: rest => if c = ':' then cur.reverse :: splitGo [] rest else splitGo (c :: cur) rest

def splitColon (s : Str) : List Str := splitGo [] s

/-- the lines a text-mode file yields, without their line ends (`strip` removes those anyway);
    a text that does not end in a line end has one more line -/
def linesGo (cur : Str) : Str → List Str
  | [] => if cur = [] then [] else [cur.reverse]
  | '\r' :: '\n' :: rest => cur.reverse :: linesGo [] rest
  | '\r' :: rest => cur.reverse :: linesGo [] rest
  | '\n' :: rest => cur.reverse :: linesGo [] rest
  | c :: rest => linesGo (c :: cur) rest

def lines (s : Str) : List Str := linesGo [] s

/-- `username, realm, digest = line.strip().split(':')` -/
def parseLine (l : Str) : Option Entry :=
  match splitColon (strip l) with
  | [u, r, d] => some ⟨u, r, d⟩
  | _ => none

/-- `PasswordMap.load`: the entries in file order (none: ValueError) -/
def load (text : Str) : Option (List Entry) := (lines text).mapM parseLine

def lineText (e : Entry) : Str := e.user ++ ':' :: (e.realm ++ ':' :: e.digest)

/-- `PasswordMap.write` (and any tool writing the layout) with the line end `eol` -/
def render (eol : Str) (es : List Entry) : Str := es.flatMap fun e => lineText e ++ eol

/-- `PasswordMap.find(realm, user)` after the entries were `set` in order: the last one wins -/
def find (es : List Entry) (realm user : Str) : Option Str :=
  (es.reverse.find? fun e => e.realm = realm ∧ e.user = user).map (·.digest)

end Poor.PwFile
