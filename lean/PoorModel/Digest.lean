import PoorModel.Prelude
import PoorModel.Headers
import PoorModel.HeaderValue
import PoorModel.Query
import PoorModel.Token
/-
Model of HTTP Digest authentication (property C11):

* the Authorization tokenizer: `RE_AUTHORIZATION.findall` and `Request.authorization`
  (request.py:27, 556-568),
* `digest.check_response`, `check_credentials` and the `check_digest` gate (digest.py:33-179),
* the nonce check is `Poor.Token.checkToken` (session.py:58-94).

The hash function is a parameter `H` (MD5 or SHA-256 hexdigest in the code): every theorem holds
for any function, the soundness corollaries state what they need of it (injectivity on the
strings compared) explicitly.
-/
namespace Poor.Digest
open Poor

/-- `\w` of a `str` pattern for code points below 256 (a WSGI header value is a latin-1 string) -/
def isWord (c : Char) : Bool :=
  let n := c.toNat
  (48 ≤ n && n ≤ 57) || (65 ≤ n && n ≤ 90) || n = 95 || (97 ≤ n && n ≤ 122) || n = 170 || n = 178 || n = 179
    || n = 181 || n = 185 || n = 186 || (188 ≤ n && n ≤ 190) || (192 ≤ n && n ≤ 214) || (216 ≤ n && n ≤ 246)
    || (248 ≤ n && n ≤ 255)

/-- `[\w\-'%]` -/
def isTokChar (c : Char) : Bool := isWord c || c = '-' || c = '\'' || c = '%'

/-- one match of `(\w+\*?)[=] ?("[^"]+"|[\w\-'%]+)` at the start of `s`:
    the key, the value as matched (quotes included) and the number of characters consumed -/
def matchAt (s : Str) : Option (Str × Str × Nat) :=
  let w := s.takeWhile isWord
  if w.isEmpty then none else
  let r1 := s.dropWhile isWord
  let star : Str := match r1 with | '*' :: _ => ['*'] | _ => []
  let r2 := r1.drop star.length
  match r2 with
  | '=' :: r3 =>
    let sp : Nat := match r3 with | ' ' :: _ => 1 | _ => 0
    let r4 := r3.drop sp
    match r4 with
    | '"' :: r5 =>
      let q := r5.takeWhile (· != '"')
      match r5.dropWhile (· != '"') with
      | '"' :: _ =>
        if q.isEmpty then none
        else some (w ++ star, '"' :: q ++ ['"'], w.length + star.length + 1 + sp + q.length + 2)
      | _ => none
    | _ =>
      let v := r4.takeWhile isTokChar
      if v.isEmpty then none else some (w ++ star, v, w.length + star.length + 1 + sp + v.length)
  | _ => none

/-- `RE_AUTHORIZATION.findall(auth)`: leftmost matches, scanning on after each
    (`fuel`: at least the length of the string - every turn consumes a character) -/
def scanAuthF : Nat → Str → List (Str × Str)
  | 0, _ => []
  | fuel + 1, s =>
    if s.isEmpty then []
    else
      match matchAt s with
      | some r => (r.1, r.2.1) :: scanAuthF fuel (s.drop r.2.2)
      | none => scanAuthF fuel (s.drop 1)

def scanAuth (s : Str) : List (Str × Str) := scanAuthF s.length s

/-- `val.strip('"')` -/
def stripQuotes (v : Str) : Str := ((v.dropWhile (· == '"')).reverse.dropWhile (· == '"')).reverse

abbrev Dict := List (Str × Str)

def dget (d : Dict) (k : String) : Option Str := (d.find? fun e => e.1 == k.toList).map (·.2)

/-- `str.capitalize()` for ASCII -/
def capitalize : Str → Str
  | [] => []
  | c :: r => c.toUpper :: r.map Char.toLower

/-- `auth[:auth.find(' ')]` (`find` is -1 without a space: all but the last character) -/
def schemeOf (auth : Str) : Str :=
  if auth.contains ' ' then auth.takeWhile (· != ' ') else auth.dropLast

/-- `Request.authorization`; `none`: a `username*` value whose escapes are not UTF-8 (not modelled) -/
def authDict (hdr : Str) : Option Dict :=
  let auth := HeaderValue.strip hdr
  let d := (scanAuth auth).foldl (fun d kv => HeaderValue.dictSet d kv.1 (Headers.utf8 (stripQuotes kv.2))) []
  let d := HeaderValue.dictSet d "type".toList (capitalize (schemeOf auth))
  match dget d "username*" with
  | some u =>
    if !u.isEmpty && u.take 7 = "UTF-8''".toList then
      (Query.unquote (u.drop 7)).map fun x => HeaderValue.dictSet d "username".toList x
    else some d
  | none => some d

/-! ### the gate -/

structure App where
  algorithm : Str
  qop : Str                       -- `''`/`None`: no quality of protection
  opaq : Str                      -- `sha256(server_hostname)`
  users : List ((Str × Str) × Str)   -- `auth_map[realm][user]` = stored hash `H(user:realm:password)`
  secret : Str
  timeout : Option Nat

/-- the request as the gate sees it -/
structure Rq where
  method : Str
  path : Str                      -- `req.path` (decoded by the server)
  query : Str                     -- QUERY_STRING as received (not decoded)
  agent : Str                     -- `'%s' % req.user_agent`
  now : Nat                       -- clock, in ticks

inductive Out where
  | run (user : Str)              -- the protected endpoint is called, `req.user` set
  | unauthorized (stale : Bool)   -- HTTPException(401, realm=..., stale=...)
  | error                         -- an exception escapes the gate (-> 500)
deriving Repr, DecidableEq

def colon (parts : List Str) : Str := [':'].intercalate parts

def endsWith (s suf : Str) : Bool := suf.length ≤ s.length && s.drop (s.length - suf.length) == suf

def isSess (alg : Str) : Bool := endsWith alg "-sess".toList

/-- what the `uri` of the credentials is compared with: the path and, after `?`, the unquoted
    (stripped) query string; `none`: escapes that are not UTF-8 (not modelled) -/
def comparePath (rq : Rq) : Option Str :=
  let q := HeaderValue.strip rq.query
  if q.isEmpty then some rq.path else (Query.unquote q).map fun u => rq.path ++ '?' :: u

def lookupUser (app : App) (realm user : Str) : Option Str :=
  (app.users.find? fun e => e.1 == (realm, user)).map (·.2)

/- `H`: the response hash (MD5 / SHA-256 hexdigest); `Hn`: the nonce hash (always SHA-256) -/
variable (H Hn : Str → Str)

/-- `check_response`: `none` = KeyError (a field the format string needs is absent) -/
def checkResponse (app : App) (rq : Rq) (d : Dict) (stored : Str) : Option Bool := do
  let nonce ← dget d "nonce"
  let uri ← dget d "uri"
  let hash1 ← if isSess app.algorithm then do
      let cnonce ← dget d "cnonce"
      pure (H (colon [stored, nonce, cnonce]))
    else pure stored
  let hash2 := H (colon [rq.method, uri])
  let response ← if !app.qop.isEmpty then do
      let nc ← dget d "nc"
      let cnonce ← dget d "cnonce"
      let qop ← dget d "qop"
      pure (H (colon [hash1, nonce, nc, cnonce, qop, hash2]))
    else pure (H (colon [hash1, nonce, hash2]))
  let given ← dget d "response"
  pure (response == given)

/-- the fields `check_credentials` insists on before anything is computed -/
def required (app : App) : List String :=
  ["uri", "response"] ++ (if !app.qop.isEmpty then ["nc", "cnonce"] else if isSess app.algorithm then ["cnonce"] else [])

/-- the checks of `check_credentials` before the uri is looked at: required fields present,
    algorithm and opaque as configured -/
def preChecks (app : App) (d : Dict) : Bool :=
  !(required app).any (fun k => (dget d k).isNone) && dget d "algorithm" == some app.algorithm
    && dget d "opaque" == some app.opaq

/-- `unquote(auth.get('uri')).endswith(full_path)`; `none`: escapes that are not UTF-8 (outside the model) -/
def uriMatches (rq : Rq) (d : Dict) : Option Bool :=
  match dget d "uri" with
  | none => none                              -- unquote(None): TypeError
  | some uri =>
    match Query.unquote uri, comparePath rq with
    | some u, some full => some (endsWith u full)
    | _, _ => none

def userRequired (reqUser : Option Str) (d : Dict) : Bool :=
  match reqUser with
  | some n => n.isEmpty || dget d "username" == some n
  | none => true

/-- the checks after it: qop, realm, the user name the endpoint insists on -/
def postChecks (app : App) (realm : Str) (reqUser : Option Str) (d : Dict) : Bool :=
  (app.qop.isEmpty || dget d "qop" == some app.qop) && dget d "realm" == some realm && userRequired reqUser d

/-- `auth_map.get(realm, {}).get(username)`, refused when absent or empty -/
def storedHash (app : App) (realm : Str) (d : Dict) : Option Str :=
  match (dget d "username").bind (lookupUser app realm) with
  | some stored => if stored.isEmpty then none else some stored
  | none => none

/-- `check_credentials`: `none` = an exception (TypeError / KeyError) -/
def checkCredentials (app : App) (rq : Rq) (realm : Str) (reqUser : Option Str) (d : Dict) : Option Bool :=
  if !preChecks app d then some false
  else match uriMatches rq d with
  | none => none
  | some false => some false
  | some true =>
    if !postChecks app realm reqUser d then some false
    else match storedHash app realm d with
      | none => some false
      | some stored => checkResponse H app rq d stored

/-- the nonce of the credentials verifies now (`check_token`) -/
def nonceValid (app : App) (rq : Rq) (d : Dict) : Bool :=
  match dget d "nonce" with
  | some n => Token.checkToken Hn n app.secret rq.agent app.timeout rq.now
  | none => false

/-- the decorator `check_digest(realm, username)` in front of the endpoint;
    `hdr = none`: no Authorization header -/
def gate (app : App) (rq : Rq) (realm : Str) (reqUser : Option Str) (hdr : Option Dict) : Out :=
  match hdr with
  | none => .unauthorized false
  | some d =>
    if dget d "type" != some "Digest".toList then .unauthorized false
    else if !nonceValid Hn app rq d then .unauthorized true
    else match checkCredentials H app rq realm reqUser d with
      | none => .error
      | some false => .unauthorized false
      | some true =>
        match dget d "username" with
        | some u => .run u
        | none => .error

/-! ### a client (RFC 7616) -/

/-- the credentials a client holds and the choices it makes -/
structure Client where
  user : Str
  realm : Str
  password : Str
  nonce : Str
  cnonce : Str
  nc : Str
  uri : Str

/-- `hexdigest(user, realm, password)`: what `PasswordMap` stores -/
def a1 (c : Client) : Str := H (colon [c.user, c.realm, c.password])

/-- the `response` value of RFC 7616, section 3.4.1 -/
def clientResponse (app : App) (method : Str) (c : Client) : Str :=
  let h1 := if isSess app.algorithm then H (colon [a1 H c, c.nonce, c.cnonce]) else a1 H c
  let h2 := H (colon [method, c.uri])
  if !app.qop.isEmpty then H (colon [h1, c.nonce, c.nc, c.cnonce, app.qop, h2])
  else H (colon [h1, c.nonce, h2])

/-- the parsed fields of the header such a client sends -/
def clientDict (app : App) (method : Str) (c : Client) : Dict :=
  [("username".toList, c.user), ("realm".toList, c.realm), ("nonce".toList, c.nonce), ("uri".toList, c.uri),
   ("algorithm".toList, app.algorithm), ("response".toList, clientResponse H app method c),
   ("opaque".toList, app.opaq), ("qop".toList, app.qop), ("nc".toList, c.nc), ("cnonce".toList, c.cnonce),
   ("type".toList, "Digest".toList)]

end Poor.Digest
