import PoorModel.Prelude
import PoorModel.Reader
import PoorModel.HeaderValue
import PoorModel.Headers
/-
Model of the multipart/form-data parser (property C08): fieldstorage.py
`_skip_to_boundary`, `read_multi`, `read_lines_to_outerboundary` with its `(delim,
last_line_lfend)` carry, the part-header block and `parse` of a part.

The input is a *reader*: a state `R` and `line : Option Nat → R → Bytes × R` (`readline(size)`,
`none` = no size limit).  Two instances: the line reader of an in-memory body (`BytesIO.readline`)
and the block-caching reader of C09.  The declared Content-Length is applied by truncating the
stream (`_readline` never asks for more than what is left of it).
-/
namespace Poor.Multipart
open Poor

def DASH : UInt8 := 45

/-- the size limit of a content line: `1 << 16` -/
def LINE_CAP : Nat := 65536

structure Rd (R : Type) where
  line : Option Nat → R → Bytes × R

/-- `bytes.isspace()` bytes: what `strip()` / `rstrip()` remove -/
def isWs (b : UInt8) : Bool := b = 32 || b = 9 || b = 10 || b = 13 || b = 11 || b = 12

def rstrip (l : Bytes) : Bytes := (l.reverse.dropWhile isWs).reverse
def strip (l : Bytes) : Bytes := rstrip (l.dropWhile isWs)

def endsWith (l suf : Bytes) : Bool := suf.isSuffixOf l

/-! ### the two readers -/

/-- the first `k` bytes at most, stopping after the first LF -/
def lfTake : Nat → Bytes → Bytes
  | 0, _ => []
  | _, [] => []
  | k + 1, x :: xs => if x = LF then [x] else x :: lfTake k xs

/-- `BytesIO.readline(size)`: up to and including the first LF, at most `size` bytes -/
def lfLine (cap : Option Nat) (s : Bytes) : Bytes × Bytes :=
  (lfTake (cap.getD s.length) s, s.drop (lfTake (cap.getD s.length) s).length)

def lfReader : Rd Bytes := ⟨lfLine⟩

/-- the block-caching reader of C09; without a cap `_readline` asks for all that is left of the
    declared length -/
def cachedReader : Rd Reader.St :=
  ⟨fun cap s => Reader.readline s (match cap with | some k => k | none => s.buf.length + s.todo)⟩

/-! ### reading the content of one part: `read_lines_to_outerboundary` -/

structure PS where
  out : Bytes          -- what has been written to the part's file
  delim : Bytes        -- line end held back until the next line is seen
  lfend : Bool         -- the last line ended in LF: a delimiter may follow
deriving Repr

inductive Stop where
  | next               -- `--boundary`
  | last               -- `--boundary--`
  | eof                -- input exhausted (`done = -1`)
deriving Repr, DecidableEq

/-- (line without its terminator, the terminator, last_line_lfend) -/
def stripEnd (l : Bytes) : Bytes × Bytes × Bool :=
  if endsWith l [CR, LF] then (l.dropLast.dropLast, [CR, LF], true)
  else if endsWith l [LF] then (l.dropLast, [LF], true)
  else if endsWith l [CR] then (l.dropLast, [CR], false)
  else (l, [], false)

variable {R : Type} (rd : Rd R)

/-- one turn of the `while 1` loop for a line that is not a delimiter -/
def absorb (st : PS) (l1 : Bytes) (d0 : Bytes) : PS :=
  ⟨st.out ++ d0 ++ (stripEnd l1).1, (stripEnd l1).2.1, (stripEnd l1).2.2⟩

def readLines (nb lb : Bytes) : Nat → PS → R → Bytes × Stop × R
  | 0, st, r => (st.out, .eof, r)
  | fuel + 1, st, r =>
    match rd.line (some LINE_CAP) r with
    | ([], r') => (st.out, .eof, r')
    | (l, r') =>
      let l1 := if st.delim = [CR] then CR :: l else l
      let d0 := if st.delim = [CR] then [] else st.delim
      if l1.take 2 = [DASH, DASH] ∧ st.lfend = true ∧ rstrip l1 = nb then (st.out, .next, r')
      else if l1.take 2 = [DASH, DASH] ∧ st.lfend = true ∧ rstrip l1 = lb then (st.out, .last, r')
      else readLines nb lb fuel (absorb st l1 d0) r'

/-! ### part headers -/

/-- the header block: lines up to and including the first blank one (or to the end of input) -/
def headerLines : Nat → R → List Bytes × R
  | 0, r => ([], r)
  | fuel + 1, r =>
    match rd.line none r with
    | ([], r') => ([], r')
    | (l, r') =>
      if (strip l).isEmpty then ([l], r')
      else ((headerLines fuel r').1.cons l, (headerLines fuel r').2)

def lowerAsciiB (s : Str) : Str := s.map Char.toLower

/-- `Name: value` lines of a header block (as text); `none`: a shape the model does not cover
    (folded lines, lines without a colon, bytes that are not UTF-8) -/
def parseHeaderLine (l : Bytes) : Option (Option (Str × Str)) :=
  if (stripEnd l).1.contains CR || (stripEnd l).1.contains LF then none   -- FeedParser sees several lines
  else
  match Headers.utf8dec l with
  | none => none
  | some t =>
    let t := HeaderValue.strip t
    if t.isEmpty then some none
    else if !t.contains ':' || t.contains '\n' || t.contains '\r' then none
    else if !(t.takeWhile (· != ':')).all (fun c => 33 ≤ c.toNat && c.toNat ≤ 126) then none
    else some (some (lowerAsciiB (t.takeWhile (· != ':')), HeaderValue.strip ((t.dropWhile (· != ':')).drop 1)))

def headerGet (hs : List (Str × Str)) (name : String) : Option Str :=
  (hs.find? fun e => e.1 == name.toList).map (·.2)

structure Part where
  name : Option Str
  filename : Option Str
  ctype : Str
  value : Bytes           -- file content; for a text field the UTF-8 bytes of the value
  isFile : Bool
deriving Repr

def dictGet (d : List (Str × Str)) (k : String) : Option Str := (d.find? fun e => e.1 == k.toList).map (·.2)

inductive Res (α : Type) where
  | ok (a : α)
  | valueError            -- invalid boundary
  | unsupported           -- outside the model
deriving Repr

/-- `valid_boundary`: `^[ -~]{0,200}[!-~]$` (a trailing LF would be accepted by `$`; never present here) -/
def validBoundary (b : Bytes) : Bool :=
  !b.isEmpty && b.length ≤ 201 && b.all (fun x => 32 ≤ x.toNat && x.toNat ≤ 126) && b.getLast? != some 32

/-- `_skip_to_boundary` -/
def skipToBoundary (ib : Bytes) : Nat → R → R
  | 0, r => r
  | fuel + 1, r =>
    match rd.line none r with
    | ([], r') => r'
    | (l, r') => if strip l = DASH :: DASH :: ib then r' else skipToBoundary ib fuel r'

/-- the parameters of the part's Content-Disposition (`name`, `filename`) -/
def partParams (hs : List (Str × Str)) : List (Str × Str) :=
  match headerGet hs "content-disposition" with
  | some v => (HeaderValue.parseHeader v).2
  | none => []

/-- the part's media type: the Content-Type header without its parameters, `text/plain` if absent -/
def partCtype (hs : List (Str × Str)) : Str :=
  match headerGet hs "content-type" with
  | some v => (HeaderValue.parseHeader v).1
  | none => "text/plain".toList

/-- a part with a (non-empty) file name is a file: its value stays bytes -/
def partIsFile (filename : Option Str) : Bool :=
  match filename with
  | some f => !f.isEmpty
  | none => false

/-- the loop of `read_multi`: one part per turn -/
def readParts (ib : Bytes) : Nat → R → Res (List Part)
  | 0, _ => .ok []
  | fuel + 1, r =>
    let hl := headerLines rd fuel r
    if hl.1.isEmpty then .ok []
    else
      match hl.1.mapM parseHeaderLine with
      | none => .unsupported
      | some hs =>
        let hs := hs.filterMap id
        let pd := partParams hs
        let ct := partCtype hs
        -- (a part of type application/x-www-form-urlencoded is an atomic part like any other since the repair
        --  233a847; before it, the parser read the rest of the body as a query string)
        if ct.take 10 = "multipart/".toList then .unsupported
        else
          let filename := dictGet pd "filename"
          let body := readLines rd (DASH :: DASH :: ib) (DASH :: DASH :: ib ++ [DASH, DASH]) fuel ⟨[], [], true⟩ hl.2
          let part : Part := ⟨dictGet pd "name", filename, ct, body.1, partIsFile filename⟩
          match body.2.1 with
          | .next =>
            match readParts ib fuel body.2.2 with
            | .ok ps => .ok (part :: ps)
            | e => e
          | _ => .ok [part]

/-- `FieldStorageParser(input, headers).parse()` for `multipart/form-data; boundary=ib` -/
def parseMultipart (ib : Bytes) (fuel : Nat) (r : R) : Res (List Part) :=
  if !validBoundary ib then .valueError
  else readParts rd ib fuel (skipToBoundary rd ib fuel r)

end Poor.Multipart
