import PoorModel.Prelude
/-
A model of the fragment of Python's `re` (str patterns, re.U, `match`) used by the route
tables of poorwsgi.wsgi: literals, `.`, classes with ranges/negation and `\d \w \s \D \W \S`,
`* + ? {n} {m,n} {m,}` greedy or lazy, groups (named, plain, non-capturing), alternation,
`^ $ \Z`.  The matcher returns *all* successes in backtracking priority order, so the
first one is what `re.match` reports.  Agreement with CPython is checked differentially
(harness/c02.py); patterns outside the fragment are answered `unsupported`.
-/
namespace Poor.Regex

/-- Unicode tables (generated from the running CPython's unicodedata): inclusive ranges -/
structure UTables where
  word : List (Nat × Nat)      -- str.isalnum() or '_'
  digit : List (Nat × Nat)     -- category Nd
  space : List (Nat × Nat)     -- str.isspace()

def inRanges (rs : List (Nat × Nat)) (n : Nat) : Bool := rs.any fun r => r.1 ≤ n && n ≤ r.2

inductive Item where
  | chr (c : Char)
  | range (a b : Char)
  | digit | word | space | notDigit | notWord | notSpace
deriving Repr, DecidableEq

def Item.test (u : UTables) : Item → Char → Bool
  | .chr c, x => x == c
  | .range a b, x => a.toNat ≤ x.toNat && x.toNat ≤ b.toNat
  | .digit, x => inRanges u.digit x.toNat
  | .word, x => inRanges u.word x.toNat
  | .space, x => inRanges u.space x.toNat
  | .notDigit, x => !inRanges u.digit x.toNat
  | .notWord, x => !inRanges u.word x.toNat
  | .notSpace, x => !inRanges u.space x.toNat

inductive Re where
  | eps
  | cls (items : List Item) (neg : Bool)     -- one character in / not in the set
  | any                                      -- `.`: anything but newline
  | seq (a b : Re)
  | alt (a b : Re)
  | rep (a : Re) (min : Nat) (max : Option Nat) (greedy : Bool)
  | group (idx : Nat) (name : Option String) (a : Re)    -- capturing group number `idx` (opening order)
  | bol            -- `^` (at the start only; `match` is anchored there anyway)
  | eol            -- `$` without MULTILINE: at the end or before a final newline
  | eos            -- `\Z`
deriving Repr

abbrev Caps := List (Nat × Str)    -- (group number, text) in closing order; the last entry of a group wins
abbrev Res := List (Str × Caps)              -- (remaining input, captures), in priority order

def clsTest (u : UTables) (items : List Item) (neg : Bool) (x : Char) : Bool :=
  (items.any fun i => i.test u x) != neg

/-- iterate one pass `f` of a repetition body.
    `fuel` bounds the number of passes (passes beyond the mandatory ones must consume input) -/
def repIter (f : Str → Caps → Res) (greedy : Bool) : Nat → Nat → Option Nat → Str → Caps → Res
  | 0, min, _, s, c => if min = 0 then [(s, c)] else []
  | fuel + 1, min, max, s, c =>
    if max = some 0 then (if min = 0 then [(s, c)] else [])
    else if min > 0 then
      (f s c).flatMap fun r => repIter f greedy fuel (min - 1) (max.map (· - 1)) r.1 r.2
    else
      -- an iteration that consumed nothing is accepted once and ends the loop (sre's rule)
      let more := (f s c).flatMap fun r =>
        if r.1.length < s.length then repIter f greedy fuel 0 (max.map (· - 1)) r.1 r.2
        else [(r.1, r.2)]
      if greedy then more ++ [(s, c)] else (s, c) :: more

def ms (u : UTables) : Re → Bool → Str → Caps → Res
  | .eps, _, s, c => [(s, c)]
  | .cls items neg, _, s, c => match s with
      | x :: xs => if clsTest u items neg x then [(xs, c)] else []
      | [] => []
  | .any, _, s, c => match s with
      | x :: xs => if x != '\n' then [(xs, c)] else []
      | [] => []
  | .seq a b, st, s, c => (ms u a st s c).flatMap fun r => ms u b false r.1 r.2
  | .alt a b, st, s, c => ms u a st s c ++ ms u b st s c
  | .rep a mn mx g, _, s, c => repIter (ms u a false) g (mn + s.length + 1) mn mx s c
  | .group i _ a, st, s, c => (ms u a st s c).map fun r => (r.1, r.2 ++ [(i, s.take (s.length - r.1.length))])
  | .bol, st, s, c => if st then [(s, c)] else []
  | .eol, _, s, c => if s = [] ∨ s = ['\n'] then [(s, c)] else []
  | .eos, _, s, c => if s = [] then [(s, c)] else []

/-- `pattern.match(s)`: first success in priority order; `bol` succeeds only at the start.
    (The `Bool` threaded through `ms` says "still at the start of the subject": it is
    cleared after the first sequence element; patterns with `^` after a possibly empty
    prefix are outside the fragment and rejected by the parser.) -/
def pyMatch (u : UTables) (r : Re) (s : Str) : Option Caps := ((ms u r true s []).head?).map (·.2)

/-! ### parser -/

inductive Tok where
  | re (r : Re)
  | bar | lpar (name : Option (Option String)) | rpar     -- lpar none = non-capturing
  | quant (mn : Nat) (mx : Option Nat) (greedy : Bool)     -- quantifier following `)`
deriving Repr

def isMeta (c : Char) : Bool := ".^$*+?{}[]\\|()".toList.contains c

def escItem (c : Char) : Option Item :=
  match c with
  | 'd' => some .digit | 'D' => some .notDigit
  | 'w' => some .word | 'W' => some .notWord
  | 's' => some .space | 'S' => some .notSpace
  | 'n' => some (.chr '\n') | 't' => some (.chr '\t') | 'r' => some (.chr '\r')
  | c => if c.isAlphanum then none else some (.chr c)      -- escaped punctuation is itself

/-- items of a character class, after the opening `[` (and `^`), up to the closing `]` -/
def parseClassItems : Nat → Str → List Item → Option (List Item × Str)
  | 0, _, _ => none
  | fuel + 1, s, acc =>
    match s with
    | ']' :: rest => if acc.isEmpty then parseClassItems fuel rest (acc ++ [.chr ']']) else some (acc, rest)
    | '\\' :: c :: rest => (escItem c).bind fun it => parseClassItems fuel rest (acc ++ [it])
    | a :: '-' :: ']' :: rest => some (acc ++ [.chr a, .chr '-'], rest)
    | a :: '-' :: '\\' :: _ => if a = '[' then none else none
    | a :: '-' :: b :: rest =>
      if a.toNat ≤ b.toNat then parseClassItems fuel rest (acc ++ [.range a b]) else none
    | a :: rest => if a = '[' then none else parseClassItems fuel rest (acc ++ [.chr a])
    | [] => none

def takeDigits (s : Str) : Str × Str := (s.takeWhile Char.isDigit, s.dropWhile Char.isDigit)
def digitsVal (s : Str) : Nat := s.foldl (fun a c => a * 10 + (c.toNat - 48)) 0

/-- a quantifier at the head of `s`: (min, max, greedy, rest) -/
def parseQuant (s : Str) : Option (Nat × Option Nat × Bool × Str) :=
  let lazyTail (mn : Nat) (mx : Option Nat) (rest : Str) : Option (Nat × Option Nat × Bool × Str) :=
    match rest with
    | '?' :: r => some (mn, mx, false, r)
    | '+' :: _ => none          -- possessive: outside the fragment
    | r => some (mn, mx, true, r)
  match s with
  | '*' :: r => lazyTail 0 none r
  | '+' :: r => lazyTail 1 none r
  | '?' :: r => lazyTail 0 (some 1) r
  | '{' :: r =>
    let (d1, r1) := takeDigits r
    if d1.isEmpty then none else
    match r1 with
    | '}' :: r2 => lazyTail (digitsVal d1) (some (digitsVal d1)) r2
    | ',' :: r2 =>
      let (d2, r3) := takeDigits r2
      match r3 with
      | '}' :: r4 =>
        if d2.isEmpty then lazyTail (digitsVal d1) none r4
        else if digitsVal d1 ≤ digitsVal d2 then lazyTail (digitsVal d1) (some (digitsVal d2)) r4 else none
      | _ => none
    | _ => none
  | _ => none

def isNameChar (c : Char) : Bool := c.isAlphanum || c = '_'

/-- tokenise: atoms with their quantifiers, bars and parentheses -/
def tokenize : Nat → Str → List Tok → Option (List Tok)
  | 0, _, _ => none
  | fuel + 1, s, acc =>
    let quantified (atom : Re) (rest : Str) : Option (List Tok) :=
      match parseQuant rest with
      | some (mn, mx, g, r) =>
        (match parseQuant r with
         | some _ => none                     -- multiple repeat
         | none => tokenize fuel r (acc ++ [.re (.rep atom mn mx g)]))
      | none =>
        (match rest with
         | '{' :: _ => tokenize fuel rest (acc ++ [.re atom])   -- literal brace: handled as atom below
         | _ => tokenize fuel rest (acc ++ [.re atom]))
    match s with
    | [] => some acc
    | '|' :: rest => tokenize fuel rest (acc ++ [.bar])
    | ')' :: rest =>
      (match parseQuant rest with
       | some (mn, mx, g, r) =>
         (match parseQuant r with
          | some _ => none
          | none => tokenize fuel r (acc ++ [.rpar, .quant mn mx g]))
       | none => tokenize fuel rest (acc ++ [.rpar]))
    | '(' :: '?' :: 'P' :: '<' :: rest =>
      let nm := rest.takeWhile isNameChar
      match rest.dropWhile isNameChar with
      | '>' :: r => if nm.isEmpty then none else tokenize fuel r (acc ++ [.lpar (some (some (String.ofList nm)))])
      | _ => none
    | '(' :: '?' :: ':' :: rest => tokenize fuel rest (acc ++ [.lpar none])
    | '(' :: '?' :: _ => none                 -- lookaround, flags ...: outside the fragment
    | '(' :: rest => tokenize fuel rest (acc ++ [.lpar (some none)])
    | '^' :: rest => tokenize fuel rest (acc ++ [.re .bol])
    | '$' :: rest => tokenize fuel rest (acc ++ [.re .eol])
    | '\\' :: 'Z' :: rest => tokenize fuel rest (acc ++ [.re .eos])
    | '\\' :: c :: rest =>
      if c.isDigit || c = 'b' || c = 'B' || c = 'A' then none else
      (match escItem c with
       | some it => quantified (.cls [it] false) rest
       | none => none)
    | '[' :: '^' :: rest =>
      (match parseClassItems (rest.length + 1) rest [] with
       | some (items, r) => quantified (.cls items true) r
       | none => none)
    | '[' :: rest =>
      (match parseClassItems (rest.length + 1) rest [] with
       | some (items, r) => quantified (.cls items false) r
       | none => none)
    | '.' :: rest => quantified .any rest
    | c :: rest =>
      if c = '*' || c = '+' || c = '?' || c = '{' || c = '}' || c = ']' then
        (if c = '}' || c = ']' then quantified (.cls [.chr c] false) rest else none)
      else quantified (.cls [.chr c] false) rest

/-- the group on top of the stack: its alternatives so far and the current sequence -/
structure Frame where
  kind : Option (Nat × Option String)       -- none = non-capturing; the outermost frame is non-capturing
  alts : List Re
  cur : List Re

def seqOf : List Re → Re
  | [] => .eps
  | [r] => r
  | r :: rs => .seq r (seqOf rs)

def altOf : List Re → Re
  | [] => .eps
  | [r] => r
  | r :: rs => .alt r (altOf rs)

def closeFrame (f : Frame) : Re :=
  let body := altOf (f.alts ++ [seqOf f.cur])
  match f.kind with
  | none => body
  | some (i, n) => .group i n body

/-- shift-reduce over the token list; `next` is the number of the next capturing group -/
def build : List Tok → Nat → List Frame → Option (Re × Nat)
  | [], n, [f] => some (closeFrame f, n - 1)
  | [], _, _ => none
  | .re r :: ts, n, f :: fs => build ts n ({ f with cur := f.cur ++ [r] } :: fs)
  | .bar :: ts, n, f :: fs => build ts n ({ f with alts := f.alts ++ [seqOf f.cur], cur := [] } :: fs)
  | .lpar (some name) :: ts, n, fs => build ts (n + 1) ({ kind := some (n, name), alts := [], cur := [] } :: fs)
  | .lpar none :: ts, n, fs => build ts n ({ kind := none, alts := [], cur := [] } :: fs)
  | .rpar :: ts, n, f :: g :: fs => build ts n ({ g with cur := g.cur ++ [closeFrame f] } :: fs)
  | .quant mn mx gr :: ts, n, f :: fs =>
    (match f.cur.getLast? with
     | some last => build ts n ({ f with cur := f.cur.dropLast ++ [.rep last mn mx gr] } :: fs)
     | none => none)
  | _, _, _ => none

/-- parse a pattern text: the expression and its number of capturing groups;
    `none` = outside the fragment (or a pattern `re` rejects) -/
def parse (s : Str) : Option (Re × Nat) :=
  match tokenize (s.length + 1) s [] with
  | some toks => build toks 1 [{ kind := none, alts := [], cur := [] }]
  | none => none

/-- names of the named groups, with their numbers -/
def groupNames : Re → List (String × Nat)
  | .group i (some n) a => (n, i) :: groupNames a
  | .group _ none a => groupNames a
  | .seq a b | .alt a b => groupNames a ++ groupNames b
  | .rep a _ _ _ => groupNames a
  | _ => []

/-- `match.groups()`: per group the last capture, `none` when it did not participate -/
def groupsOf (n : Nat) (c : Caps) : List (Option Str) :=
  (List.range n).map fun i => (c.reverse.find? fun e => e.1 = i + 1).map (·.2)

end Poor.Regex
