import PoorModel.Prelude
/-
Model of the byte-range / Content-Length logic of poorwsgi/response.py
(BaseResponse.make_partial, BaseResponse.__start_response__, the three
__end_of_response__ bodies, Response.write).  Properties C06, C07.
-/
namespace Poor.Range

/-- one element of `RangeList`: `(first, last)`, each possibly `None` -/
abbrev RangeT := Option Nat × Option Nat

/-- `make_partial`: inconsistent ranges are skipped, duplicates are skipped -/
def makePartial (rs : List RangeT) : List RangeT :=
  rs.foldl (fun acc r =>
    match r with
    | (some s, some e) => if e < s then acc else if acc.contains r then acc else acc ++ [r]
    | _ => if acc.contains r then acc else acc ++ [r]) []

inductive Win where
  | full                        -- no range in use: 200, whole representation
  | part (first last : Nat)     -- 206, bytes first..last inclusive
  | unsat                       -- 416
  | typeError                   -- `(None, None)` handed to make_partial by user code
deriving Repr, DecidableEq

/-- the window arithmetic of `__start_response__` (status 200, units "bytes"):
    only `ranges[0]` is used -/
def decide206 (full : Nat) (s e : Int) : Win :=
  if full ≠ 0 ∧ s ≤ e then .part s.toNat e.toNat else .unsat

def window (full : Nat) : List RangeT → Win
  | [] => .full
  | (first, last) :: _ =>
    match first, last with
    | none, none => .typeError
    | none, some n => decide206 full ((full : Int) - (min full n : Nat)) ((full : Int) - 1)
    | some f, none => decide206 full (f : Int) ((full : Int) - 1)
    | some f, some l =>
      if l ≥ full then decide206 full (f : Int) ((full : Int) - 1)
      else decide206 full (f : Int) (l : Int)

/-- `GeneratorResponse.__range_generator__`: skip/cut chunks; `last` inclusive or None -/
def rangeGen (start : Nat) (last : Option Nat) : Nat → List Bytes → List Bytes
  | _, [] => []
  | pos, c :: cs =>
    let n := c.length
    if pos + n ≤ start then rangeGen start last (pos + n) cs
    else
      let a := if pos < start then start - pos else 0
      match last with
      | some l =>
        if pos + n > l then [slice c a (l + 1 - pos)]
        else slice c a n :: rangeGen start last (pos + n) cs
      | none => slice c a n :: rangeGen start last (pos + n) cs

/-- the representation a response object holds -/
inductive Rep where
  | buffer (data : Bytes)                                   -- Response, JSONResponse, TextResponse
  | file (content : Bytes) (pos : Nat) (seekable sized : Bool)  -- FileObjResponse / FileResponse
  | gen (chunks : List Bytes) (declared : Nat)              -- GeneratorResponse
deriving Repr

/-- `_content_length` as set by the constructors -/
def Rep.length : Rep → Nat
  | .buffer d => d.length
  | .file c pos seekable sized =>
      if sized then c.length - (if seekable then pos else 0) else 0
  | .gen _ d => d

/-- what the server would read from the returned iterable, given `_start`/`_end` -/
def Rep.body : Rep → Nat → Option Nat → Bytes
  | .buffer d, start, none => d.drop start
  | .buffer d, start, some l => (d.drop start).take (l - start + 1)
  | .file c pos true _, start, none => c.drop (pos + start)
  | .file c pos true _, start, some l => (c.drop (pos + start)).take (l - start + 1)
  | .file c pos false _, _, _ => c.drop pos     -- a stream: served from where it stands
  | .gen cs _, start, last => (rangeGen start last 0 cs).flatten

structure Out where
  status : Nat
  contentRange : Option String
  contentLength : Option Nat      -- value of the emitted Content-Length header, if any
  body : Bytes
deriving Repr, DecidableEq

def renderCR (first last : String) (full : Nat) : String :=
  "bytes " ++ first ++ "-" ++ last ++ "/" ++ toString full

def showOpt : Option Nat → String
  | none => "None"
  | some n => toString n

/-- emission of a 200 response that may have been made partial; `none` = the
    TypeError case -/
def respond (rep : Rep) (ranges : List RangeT) : Option Out :=
  let rs := makePartial ranges
  let full := rep.length
  match window full rs with
  | .typeError => none
  | .full =>
    let b := rep.body 0 none
    some { status := 200, contentRange := none,
           contentLength := if full = 0 then none else some full, body := b }
  | .part f l =>
    let n := l - f + 1
    some { status := 206, contentRange := some (renderCR (toString f) (toString l) full),
           contentLength := some n, body := rep.body f (some l) }
  | .unsat =>
    match rs with
    | (a, b) :: _ =>
      some { status := 416, contentRange := some (renderCR (showOpt a) (showOpt b) full),
             contentLength := none, body := [] }
    | [] => none

/-! ### `Response.write` history (C06) -/

structure Buf where
  data : Bytes
  contentLength : Nat
deriving Repr, DecidableEq

def Buf.init (d : Bytes) : Buf := ⟨d, d.length⟩
/-- `write` appends (bytes; str is UTF-8 encoded by the caller of the model) -/
def Buf.write (b : Buf) (d : Bytes) : Buf := ⟨b.data ++ d, b.contentLength + d.length⟩

end Poor.Range
