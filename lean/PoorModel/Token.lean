import PoorModel.Prelude
/-
Model of poorwsgi.session.get_token / check_token (session.py:58-94) - property C16,
also the nonce of Digest authentication (C11).

Time is in ticks (`tps` ticks per second; the harness uses microseconds); the timeout
`T` is in seconds as in the source.  The hash is a parameter `H`; the executable model
instantiates it with the identity (tokens are compared through their texts).
-/
namespace Poor.Token

def tps : Nat := 1000000

/-- index of the `T`-aligned window containing the instant `ticks`: `int(time() / timeout)` -/
def window (T ticks : Nat) : Nat := ticks / (T * tps)

/-- expiry (seconds) stamped into a token issued at `ticks`: `now + 2 * timeout` -/
def issued (T ticks : Nat) : Nat := window T ticks * T + 2 * T

/-- the two expiries `check_token` accepts at `ticks` -/
def accepted (T ticks : Nat) : List Nat := [window T ticks * T + T, window T ticks * T + T + T]

/-- `"%s%s%s" % (secret, expired, client)` resp. `"%s%s" % (secret, client)` -/
def tokenText (secret : Str) (expiry : Option Nat) (client : Str) : Str :=
  match expiry with
  | none => secret ++ client
  | some e => secret ++ (toString e).toList ++ client

/-- `timeout` as configured: `None`, and `0` as documented, mean "no timeout" -/
def effective : Option Nat → Option Nat
  | some (T + 1) => some (T + 1)
  | _ => none

variable {Tok : Type} [DecidableEq Tok] (H : Str → Tok)

def getToken (secret client : Str) (timeout : Option Nat) (now : Nat) : Tok :=
  match effective timeout with
  | none => H (tokenText secret none client)
  | some T => H (tokenText secret (some (issued T now)) client)

def checkToken (tok : Tok) (secret client : Str) (timeout : Option Nat) (now : Nat) : Bool :=
  match effective timeout with
  | none => tok = H (tokenText secret none client)
  | some T => (accepted T now).any fun e => tok = H (tokenText secret (some e) client)

/-- pure window validity (same secret and client) -/
def valid (T t0 t1 : Nat) : Bool := (accepted T t1).contains (issued T t0)

end Poor.Token
