import PoorModel.Regex
import PoorModel.Gen.State
import PoorModel.Gen.Unicode
import PoorModel.Gen.Filters
/-
Route rules and the application's handler tables (wsgi.py): `re_filter`, `__regex`,
`__converter`, set_/pop_/is_ operations, views, and `handler_from_table` /
`handler_from_default` as `select`.  Properties C02, C19 (and the gate of C20).
-/
namespace Poor.Route
open Poor Poor.Regex

abbrev U := Gen.Unicode.tables

def isWord (c : Char) : Bool := inRanges U.word c.toNat

/-- converter attached to a filter -/
inductive Conv where
  | int | float | str | uuid | user (id : Nat)
deriving Repr, DecidableEq

/-- a piece of a route rule as `re_filter` (`<(\w+)(:[^>]+)?>`) sees it -/
inductive Piece where
  | lit (c : Char)
  | group (name : Str) (filter : Option Str)     -- filter text includes the leading ':'
deriving Repr, DecidableEq

/-- `re_filter.finditer(uri)` / `re_filter.sub`: leftmost, non-overlapping groups; everything
    else stays literal -/
def scanRule : Nat → Str → List Piece
  | 0, _ => []
  | _ + 1, [] => []
  | fuel + 1, '<' :: rest =>
    let name := rest.takeWhile isWord
    let after := rest.dropWhile isWord
    if name.isEmpty then .lit '<' :: scanRule fuel rest
    else match after with
      | '>' :: r => .group name none :: scanRule fuel r
      | ':' :: r =>
        let f := r.takeWhile (· != '>')
        (match r.dropWhile (· != '>') with
         | '>' :: r2 => if f.isEmpty then .lit '<' :: scanRule fuel rest
                        else .group name (some (':' :: f)) :: scanRule fuel r2
         | _ => .lit '<' :: scanRule fuel rest)
      | _ => .lit '<' :: scanRule fuel rest
  | fuel + 1, c :: rest => .lit c :: scanRule fuel rest

def pieces (uri : Str) : List Piece := scanRule (uri.length + 1) uri

def hasGroup (uri : Str) : Bool := (pieces uri).any fun p => p matches .group _ _

abbrev Filters := List (Str × (Option Str × Conv))

def lower (s : Str) : Str := s.map Char.toLower

/-- built-in filter table, from the source (`Gen.Filters`) -/
def convOfTag : String → Conv
  | "int" => .int | "float" => .float | "uuid.UUID" => .uuid | _ => .str

def defaultFilters : Filters :=
  Gen.Filters.table.map fun (k, re, cv) => (k.toList, (re.map String.toList, convOfTag cv))

/-- `__regex`: the expression of a group.  Table lookup is by the lower-cased filter name;
    an inline `:re:` expression is used exactly as written.  `none` = RuntimeError -/
def filterRegex (fs : Filters) (filter : Option Str) : Option Str :=
  let key := match filter with | none => "none".toList | some f => lower f
  match fs.lookup key with
  | some (some re, _) => some re
  | some (none, _) => some "None".toList       -- `"%s" % None`: the bare ':re:' entry
  | none =>
    match filter with
    | some f => if (lower f).take 4 = ":re:".toList then some (f.drop 4) else none
    | none => none

/-- `__converter` -/
def filterConv (fs : Filters) (filter : Option Str) : Option Conv :=
  let key := match filter with
    | none => "none".toList
    | some f => if (lower f).take 4 = ":re:".toList then ":re:".toList else lower f
  (fs.lookup key).map (·.2)

/-- the pattern text `set_route` builds: `re_filter.sub(self.__regex, uri) + r'\Z'` -/
def compileText (fs : Filters) (uri : Str) : Option Str :=
  let step (acc : Str) (p : Piece) : Option Str :=
    match p with
    | Piece.lit c => some (acc ++ [c])
    | Piece.group name f =>
      (filterRegex fs f).map fun re => acc ++ "(?P<".toList ++ name ++ ">".toList ++ re ++ ")".toList
  ((pieces uri).foldlM step []).map (· ++ "\\Z".toList)

def converters (fs : Filters) (uri : Str) : Option (List (Str × Conv)) :=
  (pieces uri).filterMap (fun p => match p with | .group n f => some (n, f) | _ => none)
    |>.mapM fun (n, f) => (filterConv fs f).map fun c => (n, c)

/-! ### tables -/

/-- what a regular route stores per method: handler, converters, rule text -/
structure RH where
  fn : Nat
  convs : List (Str × Conv)
  rule : Option Str
deriving Repr, DecidableEq

structure Reg where
  before : List Nat := []
  after : List Nat := []
  dhandlers : List (Nat × Nat) := []                       -- method bit → handler
  handlers : List (Str × List (Nat × Nat)) := []           -- static path → {bit → handler}
  rhandlers : List (Str × List (Nat × RH)) := []           -- pattern text → {bit → ..}, ordered
  shandlers : List (Nat × List (Nat × Nat)) := []          -- status → {bit → handler}
  ehandlers : List (Nat × List (Nat × Nat)) := []          -- exception class id → {bit → handler}, ordered
  filters : Filters := defaultFilters
deriving Repr

/-- python `d[k] = v`: replace in place, or append -/
def dset [BEq κ] (d : List (κ × ν)) (k : κ) (v : ν) : List (κ × ν) :=
  if d.any (fun e => e.1 == k) then d.map fun e => if e.1 == k then (k, v) else e
  else d ++ [(k, v)]

def dget [BEq κ] (d : List (κ × ν)) (k : κ) : Option ν := d.lookup k
def ddel [BEq κ] (d : List (κ × ν)) (k : κ) : List (κ × ν) := d.filter fun e => !(e.1 == k)

/-- the known method bits selected by a mask, in `methods.values()` order -/
def bitsOf (mask : Nat) : List Nat :=
  (Gen.State.methods.map (·.2)).filter fun b => mask &&& b != 0

/-- `for val in methods.values(): if method & val: table[key][val] = x` -/
def fanOut [BEq κ] (d : List (κ × List (Nat × ν))) (k : κ) (mask : Nat) (x : ν) : List (κ × List (Nat × ν)) :=
  let inner := (dget d k).getD []
  let inner' := (bitsOf mask).foldl (fun acc b => dset acc b x) inner
  dset d k inner'

inductive Err where
  | keyError | valueError | runtimeError | reError
deriving Repr, DecidableEq

/-- within the fragment and acceptable to `re.compile` (no group name defined twice) -/
def parseable (pat : Str) : Bool :=
  match Regex.parse pat with
  | some (re, _) => let names := (Regex.groupNames re).map (·.1); names.eraseDups.length == names.length
  | none => false

def setRegular (r : Reg) (pat : Str) (fn : Nat) (mask : Nat) (convs : List (Str × Conv)) (rule : Option Str) : Reg :=
  { r with rhandlers := fanOut r.rhandlers pat mask ⟨fn, convs, rule⟩ }

def setRoute (r : Reg) (uri : Str) (fn mask : Nat) : Except Err Reg :=
  if hasGroup uri then
    match compileText r.filters uri, converters r.filters uri with
    | some pat, some cv => .ok (setRegular r pat fn mask cv (some uri))
    | _, _ => .error .runtimeError
  else .ok { r with handlers := fanOut r.handlers uri mask fn }

/-- pop from an inner `{bit → x}` table; the outer entry is dropped when it becomes empty
    (`dropEmpty`), as pop_route / pop_regular_route do -/
def popInner [BEq κ] (d : List (κ × List (Nat × ν))) (k : κ) (bit : Nat) (dropEmpty : Bool) :
    Except Err (List (κ × List (Nat × ν))) :=
  let inner := (dget d k).getD []
  if !(inner.any fun e => e.1 == bit) then .error .keyError
  else
    let inner' := ddel inner bit
    if inner'.isEmpty && dropEmpty then .ok (ddel d k)
    else if (dget d k).isSome then .ok (dset d k inner') else .ok d

def popRegular (r : Reg) (pat : Str) (bit : Nat) : Except Err Reg :=
  (popInner r.rhandlers pat bit true).map fun t => { r with rhandlers := t }

def popRoute (r : Reg) (uri : Str) (bit : Nat) : Except Err Reg :=
  if hasGroup uri then
    match compileText r.filters uri with
    | some pat => popRegular r pat bit
    | none => .error .runtimeError
  else (popInner r.handlers uri bit true).map fun t => { r with handlers := t }

def isRoute (r : Reg) (uri : Str) : Except Err Bool :=
  if hasGroup uri then
    match compileText r.filters uri with
    | some pat => .ok ((dget r.rhandlers pat).isSome)
    | none => .error .runtimeError
  else .ok ((dget r.handlers uri).isSome)

def setDefault (r : Reg) (fn mask : Nat) : Reg :=
  { r with dhandlers := (bitsOf mask).foldl (fun acc b => dset acc b fn) r.dhandlers }

def popDefault (r : Reg) (bit : Nat) : Except Err Reg :=
  if (dget r.dhandlers bit).isSome then .ok { r with dhandlers := ddel r.dhandlers bit } else .error .keyError

def setState (r : Reg) (code fn mask : Nat) : Reg := { r with shandlers := fanOut r.shandlers code mask fn }
def popState (r : Reg) (code bit : Nat) : Except Err Reg :=
  (popInner r.shandlers code bit false).map fun t => { r with shandlers := t }

def setError (r : Reg) (cls fn mask : Nat) : Reg := { r with ehandlers := fanOut r.ehandlers cls mask fn }
def popError (r : Reg) (cls bit : Nat) : Except Err Reg :=
  (popInner r.ehandlers cls bit false).map fun t => { r with ehandlers := t }

def addHook (l : List Nat) (fn : Nat) : Except Err (List Nat) :=
  if l.contains fn then .error .valueError else .ok (l ++ [fn])
def popHook (l : List Nat) (fn : Nat) : Except Err (List Nat) :=
  if l.contains fn then .ok (l.erase fn) else .error .valueError

def setFilter (r : Reg) (name : Str) (re : Str) (c : Conv) : Reg :=
  let key := if name.head? = some ':' then name else ':' :: name
  { r with filters := dset r.filters key (some re, c) }

/-! ### dispatch -/

/-- request method token → bit; an unknown token is dispatched with the GET bit -/
def methodBit (tok : String) : Nat := (Gen.State.methods.lookup tok).getD Gen.State.METHOD_GET

/-- file-system facts about `document_root + normpath(path)` and the request's settings -/
structure Env where
  docRoot : Bool      -- a document root is configured
  fsExists : Bool
  fsFile : Bool       -- regular file and readable
  fsDir : Bool        -- directory and readable
  index : Bool        -- document_index
  debug : Bool        -- effective debug flag
deriving Repr

/-- one argument as the handler receives it, tagged by its converter -/
structure Arg where
  conv : Conv
  text : Option Str
deriving Repr, DecidableEq

inductive Sel where
  | static (fn : Nat)
  | wrongMethod
  | pattern (fn : Nat) (args : List Arg) (names : List Str) (rule : Str)
  | file | dirIndex | forbidden | debugInfo
  | default (fn : Nat)
  | notFound
  | unsupported           -- a pattern outside the regex fragment was consulted
deriving Repr, DecidableEq

/-- `ruri.match(req.path)`: groups() and the group names, or `none`; `Except.error` = unsupported -/
def matchPat (pat path : Str) : Except Unit (Option (List (Option Str) × List (String × Nat))) :=
  match Regex.parse pat with
  | none => .error ()
  | some (re, n) =>
    match Regex.pyMatch U re path with
    | none => .ok none
    | some caps => .ok (some (Regex.groupsOf n caps, Regex.groupNames re))

/-- `match.group(name)`: the capture of the group with that name (`None` if it did not take part) -/
def groupByName (names : List (String × Nat)) (groups : List (Option Str)) (name : Str) : Option Str :=
  match names.find? (fun n => n.1.toList == name) with
  | some (_, i) => (groups[i - 1]?).join
  | none => none

/-- the `for ruri in self.__rhandlers` loop -/
def selectRegex (bit : Nat) (path : Str) : List (Str × List (Nat × RH)) → Except Unit (Option Sel)
  | [] => .ok none
  | (pat, inner) :: rest =>
    match matchPat pat path with
    | .error () => .error ()
    | .ok none => selectRegex bit path rest
    | .ok (some (groups, names)) =>
      match dget inner bit with
      | none => selectRegex bit path rest
      | some rh =>
        let rule := rh.rule.getD pat
        if rh.convs.isEmpty then
          .ok (some (.pattern rh.fn (groups.map fun g => ⟨.str, g⟩) (names.map fun n => n.1.toList) rule))
        else
          .ok (some (.pattern rh.fn (rh.convs.map fun cv => ⟨cv.2, groupByName names groups cv.1⟩)
                      (rh.convs.map (·.1)) rule))

def selectDefault (r : Reg) (bit : Nat) : Sel :=
  match dget r.dhandlers bit with
  | some fn => .default fn
  | none => .notFound

/-- `handler_from_table` -/
def select (r : Reg) (env : Env) (bit : Nat) (path : Str) : Sel :=
  match dget r.handlers path with
  | some inner =>
    (match dget inner bit with
     | some fn => .static fn
     | none => .wrongMethod)
  | none =>
    match selectRegex bit path r.rhandlers with
    | .error () => .unsupported
    | .ok (some s) => s
    | .ok none =>
      if env.docRoot && (bit &&& (Gen.State.METHOD_HEAD ||| Gen.State.METHOD_GET) != 0) then
        if !env.fsExists then
          if env.debug && path = "/debug-info".toList then .debugInfo else selectDefault r bit
        else if env.fsFile then .file
        else if env.index && env.fsDir then .dirIndex
        else .forbidden
      else if env.debug && path = "/debug-info".toList then .debugInfo
      else selectDefault r bit

end Poor.Route
