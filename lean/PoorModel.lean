import PoorModel.Prelude
import PoorModel.Range
import PoorModel.HeaderValue
import PoorModel.Drv.Range
import PoorModel.Reader
import PoorModel.Drv.Reader
import PoorModel.Token
import PoorModel.Drv.Token
