import PoorProofs.Lemmas.Query
import PoorProofs.Props.C18
import PoorProofs.Props.JsonCodec
import PoorProofs.Lemmas.ReadAll
/-
C10 - query, form and JSON data reach handlers exactly as sent.
-/
namespace Poor.Props.C10
open Poor Poor.Query

/-! ### query strings and urlencoded bodies -/

/-- **round trip, any admissible encoding.**  Let `fs` be fields `ek=ev` where `ek`, `ev` encode the
    key and the value of each pair character by character - a raw (non-separator, non-space ASCII)
    character, `+` for a space, or `%XY` escapes of the UTF-8 bytes with hex digits of either case,
    also for characters that would not need escaping.  Then `parse_qsl` of the fields joined by `&`
    returns exactly the pairs, in order (all of them when blank values are kept, those with a
    non-empty value otherwise) - for strict parsing on or off. -/
theorem C10_roundtrip_any_encoding (keep strict : Bool) {ps : Pairs} {fs : List Str} (h : EncFields ps fs) :
    parseQsl keep strict (['&'].intercalate fs) = .ok (kept keep ps) :=
  parseQsl_enc keep strict h

/-- the encoder of the standard library (`urlencode`) is one of these encodings -/
theorem C10_roundtrip (keep strict : Bool) (ps : Pairs) :
    parseQsl keep strict (urlencode ps) = .ok (kept keep ps) :=
  parseQsl_enc keep strict (urlencode_EncFields ps)

theorem enc_field_chars {kv : Str × Str} {f : Str} (h : FieldEnc kv f) :
    ∀ x ∈ f, HeaderValue.isSpace x = false := by
  obtain ⟨ek, ev, hk, hv, rfl⟩ := h
  intro x hx
  simp only [List.mem_append, List.mem_cons] at hx
  rcases hx with hx | rfl | hx
  · exact (Enc_chars hk x hx).2.2.2
  · decide
  · exact (Enc_chars hv x hx).2.2.2

theorem enc_query_chars {ps : Pairs} {fs : List Str} (h : EncFields ps fs) :
    ∀ x ∈ ['&'].intercalate fs, HeaderValue.isSpace x = false := by
  induction h with
  | nil => simp [List.intercalate]
  | cons kv f ps fs hf hrest ih =>
    intro x hx
    cases hrest with
    | nil =>
      simp [List.intercalate] at hx
      exact enc_field_chars hf x hx
    | cons kv2 f2 ps2 fs2 hf2 hrest2 =>
      have : ['&'].intercalate (f :: f2 :: fs2) = f ++ '&' :: ['&'].intercalate (f2 :: fs2) := by
        simp [List.intercalate, List.intersperse]
      rw [this] at hx
      simp only [List.mem_append, List.mem_cons] at hx
      rcases hx with hx | rfl | hx
      · exact enc_field_chars hf x hx
      · decide
      · exact ih x hx

/-- the same through `Request`: `req.args` is built from the stripped QUERY_STRING -/
theorem C10_query_args (keep strict : Bool) {ps : Pairs} {fs : List Str} (h : EncFields ps fs) :
    reqArgs keep strict (['&'].intercalate fs) = .ok (mkArgs (kept keep ps)) := by
  unfold reqArgs
  have hs : HeaderValue.strip (['&'].intercalate fs) = ['&'].intercalate fs := by
    by_cases hne : ['&'].intercalate fs = []
    · rw [hne]; rfl
    · exact C18.strip_nospace _ hne (enc_query_chars h)
  rw [hs, parseQsl_enc keep strict h]
  rfl

/-! ### what the accessors return -/

/-- `parse_qs`: keys in first-seen order, under each key the values sent for it, in order -/
theorem C10_group (ps : Pairs) (k : Str) :
    (group ps).map (·.1) = fsKeys ps ∧
    dictGet (group ps) k = (if (fsFound ps k).isEmpty then none else some (fsFound ps k)) :=
  ⟨group_keys ps, group_get ps k⟩

/-- `req.args`: single keys are scalars, repeated keys lists in order, and the three accessors agree:
    `getlist` is the list of values sent for the key, `getfirst` its head, `getvalue` the scalar
    or the list -/
theorem C10_args (ps : Pairs) (k : Str) :
    argsGetlist (mkArgs ps) k = fsFound ps k ∧
    argsGetfirst (mkArgs ps) k = (fsFound ps k).head? ∧
    argsGetvalue (mkArgs ps) k =
      (match fsFound ps k with
       | [] => none
       | [v] => some (.one v)
       | l => some (.many l)) := by
  unfold argsGetlist argsGetfirst argsGetvalue
  rw [mkArgs_get]
  match h : fsFound ps k with
  | [] => simp
  | [v] => simp [collapse]
  | a :: b :: t =>
    have : ¬ (t.length + 1 + 1 < 2) := by omega
    simp [collapse, this]

/-- `req.form` of a urlencoded body: the same three facts -/
theorem C10_form (ps : Pairs) (k : Str) :
    fsGetlist ps k = fsFound ps k ∧
    fsGetfirst ps k = (fsFound ps k).head? ∧
    fsGetvalue ps k =
      (match fsFound ps k with
       | [] => none
       | [v] => some (.one v)
       | l => some (.many l)) := by
  unfold fsGetlist fsGetfirst fsGetvalue
  match h : fsFound ps k with
  | [] => simp
  | [v] => simp
  | a :: b :: t => simp

/-- query and form expose the same pair list identically -/
theorem C10_args_form_agree (ps : Pairs) (k : Str) :
    argsGetlist (mkArgs ps) k = fsGetlist ps k ∧
    argsGetfirst (mkArgs ps) k = fsGetfirst ps k ∧
    argsGetvalue (mkArgs ps) k = fsGetvalue ps k ∧
    (mkArgs ps).map (·.1) = fsKeys ps := by
  obtain ⟨a1, a2, a3⟩ := C10_args ps k
  obtain ⟨f1, f2, f3⟩ := C10_form ps k
  refine ⟨by rw [a1, f1], by rw [a2, f2], by rw [a3, f3], ?_⟩
  rw [← group_keys]
  simp [mkArgs]

/-- blank values: kept as the empty string, or dropped, per the setting - never anything else -/
theorem C10_blank (keep : Bool) (ps : Pairs) (k : Str) :
    fsFound (kept keep ps) k =
      if keep then fsFound ps k else (fsFound ps k).filter (fun v => !v.isEmpty) := by
  unfold kept fsFound
  cases keep
  · simp only [Bool.false_eq_true, if_false, List.filter_filter, List.filter_map]
    congr 1
    apply List.filter_congr
    intro x _
    simp [Bool.and_comm]
  · simp

/-! ### JSON -/

/-- JsonDict / JsonList: `getlist` is the list itself for an array value and the one-item list for
    any other value, `getfirst` is its head (the default for an empty array), an absent key gives
    the defaults -/
theorem C10_json_accessors (o : List (Str × J)) (l : List J) (k : Str) :
    jdGetfirst o k = (jdGetlist o k).head? ∧
    (∀ items, jdGetvalue o k = some (.arr items) → jdGetlist o k = items) ∧
    (∀ v, jdGetvalue o k = some v → v.kind ≠ .list → jdGetlist o k = [v]) ∧
    (jdGetvalue o k = none → jdGetlist o k = [] ∧ jdGetfirst o k = none) ∧
    jlGetfirst l = (jlGetlist l).head? := by
  unfold jdGetfirst jdGetlist jdGetvalue jlGetfirst jlGetlist
  refine ⟨?_, ?_, ?_, ?_, rfl⟩
  · cases h : dictGet o k with
    | none => rfl
    | some v => cases v <;> rfl
  · intro items h; rw [h]
  · intro v h hv; rw [h]; cases v <;> simp_all [J.kind]
  · intro h; rw [h]; exact ⟨rfl, rfl⟩

/-- `parse_json_request(raw, "utf-8")`: what the handler finds as `req.json`, `none` = 400 Bad Request.
    A dict becomes a `JsonDict`, a list a `JsonList` (of equal content), any other value is handed over as it is. -/
def parseJsonRequest (raw : Bytes) : Option Poor.Json.J := Poor.Json.loadBytes raw

/-- **a JSON value sent is the value exposed**: for every well-formed value (objects, arrays and scalars at top
    level, any nesting), the body a client produces with `json.dumps` is parsed to an equal value and the request
    is not refused; the exposed value is dict-like exactly for an object and list-like exactly for an array. -/
theorem C10_json_value (v : Poor.Json.J) (h : Poor.Json.JOk v) :
    parseJsonRequest (Poor.Json.dumpBytes v) = some v :=
  JsonCodec.loadBytes_dumpBytes v h

/-- **whatever spelling the client chose**: white space between the tokens, raw non-ASCII characters or escapes of
    any style in strings, repeated keys - the request exposes the value the text denotes (`Txt v s`), it is not
    refused.  `C10_json_value` is the instance `s = json.dumps(v)` (`Poor.Json.Txt_dump`). -/
theorem C10_json_any_spelling {v : Poor.Json.J} {s : Str} (h : Poor.Json.Txt v s) (w1 w2 : Str)
    (h1 : Poor.Json.AllWs w1) (h2 : Poor.Json.AllWs w2) :
    parseJsonRequest (Poor.Headers.utf8enc (w1 ++ (s ++ w2))) = some v :=
  JsonCodec.loadBytes_any_spelling h w1 w2 h1 h2

/-! ### a body that arrives in pieces -/

/-- **the pieces do not matter.**  The input holds the declared body followed by whatever comes next on the
    connection, and hands over fewer bytes than asked for, read after read, as the script says (any script).
    `read_length` - what the `auto_data` buffer, `Request.read` and the urlencoded form reader take the body
    with - returns exactly the body and leaves the input exactly behind it. -/
theorem C10_body_in_pieces (body next : Bytes) (script : List Nat) :
    (ReadAll.readLength { src := body ++ next, script := script } body.length).1 = body ∧
    (ReadAll.readLength { src := body ++ next, script := script } body.length).2.src = next := by
  have h := ReadAll.readLength_spec { src := body ++ next, script := script } body.length
  simpa using h

/-- an input that ends before the declared length gives all it has (and the loop ends) -/
theorem C10_body_cut_short (src : Bytes) (n : Nat) (script : List Nat) (h : src.length ≤ n) :
    (ReadAll.readLength { src := src, script := script } n).1 = src := by
  have h' := (ReadAll.readLength_spec { src := src, script := script } n).1
  simpa [List.take_of_length_le h] using h'

/-- so a JSON value sent is the value exposed however its bytes arrive (`C10_json_value` composed with the reader) -/
theorem C10_json_in_pieces (v : Poor.Json.J) (h : Poor.Json.JOk v) (next : Bytes) (script : List Nat) :
    parseJsonRequest (ReadAll.readLength { src := Poor.Json.dumpBytes v ++ next, script := script }
      (Poor.Json.dumpBytes v).length).1 = some v := by
  rw [(C10_body_in_pieces _ next script).1]
  exact C10_json_value v h

example : (ReadAll.readLength { src := [1, 2, 3, 4, 5, 6, 7], script := [0, 1, 0] } 5).1 = [1, 2, 3, 4, 5] ∧
          (ReadAll.readLength { src := [1, 2, 3, 4, 5, 6, 7], script := [0, 1, 0] } 5).2.src = [6, 7] :=
  C10_body_in_pieces [1, 2, 3, 4, 5] [6, 7] [0, 1, 0]

/-! ### the body is never read beyond the declared length -/

theorem streamRead_length_le (rest : Bytes) (n : Int) (h : 0 ≤ n) : (streamRead rest n).length ≤ n.toNat := by
  unfold streamRead
  rw [if_neg (by omega)]
  simp only [List.length_take]
  omega

/-- with a declared Content-Length, at most that many bytes are taken from `wsgi.input` before the
    handler runs - whatever the switches, the content type, the protocol and the stream hold
    (bodies read with one `read` call; multipart bodies: C08/C09) -/
theorem C10_taken_le (c : Cfg) (cl : Int) (h09 : Bool) (mime : Str) (stream b : Bytes) (hcl : 0 ≤ cl)
    (h : taken c cl h09 mime stream = some b) : b.length ≤ cl.toNat := by
  unfold taken at h
  split at h
  · cases h; exact streamRead_length_le _ _ hcl
  · split at h
    · cases h; exact streamRead_length_le _ _ hcl
    · split at h
      · cases h; exact streamRead_length_le _ _ hcl
      · cases h
    · cases h; simp

/-- what is taken is a prefix of the stream: nothing is skipped, nothing re-ordered -/
theorem C10_taken_prefix (c : Cfg) (cl : Int) (h09 : Bool) (mime : Str) (stream b : Bytes)
    (h : taken c cl h09 mime stream = some b) : b <+: stream := by
  have hp : ∀ n, streamRead stream n <+: stream := by
    intro n; unfold streamRead; split
    · exact List.prefix_refl _
    · exact List.take_prefix _ _
  unfold taken at h
  split at h
  · cases h; exact hp _
  · split at h
    · cases h; exact hp _
    · split at h
      · cases h; exact hp _
      · cases h
    · cases h; exact List.nil_prefix

/-- no (positive) Content-Length, no read - for every method, content type and switch -/
theorem C10_no_body_no_read (c : Cfg) (cl : Int) (mime : Str) (stream : Bytes) (hcl : cl ≤ 0) :
    taken c cl false mime stream = some [] := by
  unfold taken
  have hp : plan c cl false mime = .none := by
    unfold plan isBody
    have : decide (cl > 0) = false := by simp; omega
    simp [this]
  rw [hp]
  split
  · rename_i hb
    have : cl = 0 := by
      simp only [buffered, Bool.and_eq_true, decide_eq_true_eq] at hb
      omega
    subst this
    simp [streamRead]
  · rfl

/-- `req.data` is the first Content-Length bytes of the stream when buffering applies, `None` otherwise -/
theorem C10_data (c : Cfg) (cl : Int) (stream : Bytes) :
    data c cl stream =
      if c.autoData ∧ 0 ≤ cl ∧ cl ≤ c.dataSize then some (stream.take cl.toNat) else none := by
  unfold data buffered streamRead
  by_cases h : c.autoData = true ∧ 0 ≤ cl ∧ cl ≤ c.dataSize
  · rw [if_pos h]
    obtain ⟨h1, h2, h3⟩ := h
    simp [h1, h2, h3]
    omega
  · rw [if_neg h]
    simp only [Bool.and_eq_true, decide_eq_true_eq, and_assoc]
    rw [if_neg h]

/-- the JSON parser is chosen exactly for a request with a body (or HTTP/0.9), a configured JSON
    media type and the switch on; the form parser never for such a request -/
theorem C10_plan_json (c : Cfg) (cl : Int) (h09 : Bool) (mime : Str) :
    plan c cl h09 mime = .json ↔ (c.autoJson = true ∧ (cl > 0 ∨ h09 = true) ∧ mime ∈ c.jsonTypes) := by
  unfold plan isBody
  constructor
  · intro h
    split at h
    · rename_i hc
      simpa [Bool.and_eq_true, Bool.or_eq_true, and_assoc] using hc
    · split at h <;> cases h
  · intro ⟨h1, h2, h3⟩
    have : (c.autoJson && (decide (cl > 0) || h09) && c.jsonTypes.contains mime) = true := by
      simp [h1, h3]
      exact h2
    rw [if_pos this]

/-! ### request headers -/

/-- a lookup in `req.headers` under any spelling of the name returns the value of the first environ
    entry whose header name equals it case-insensitively -/
theorem C10_headers (env : List (Str × Str)) (name : Str) :
    Headers.getItem (reqHeaders env) name =
      (env.find? fun kv => match envHeaderName kv.1 with
        | some n => Headers.lower n == Headers.key name
        | none => false).map (·.2) := by
  unfold Headers.getItem reqHeaders
  induction env with
  | nil => rfl
  | cons kv t ih =>
    simp only [List.filterMap_cons, List.find?_cons]
    cases h : envHeaderName kv.1 with
    | none => simpa using ih
    | some n =>
      simp only [Option.map_some, List.find?_cons]
      cases hk : (Headers.lower n == Headers.key name)
      · simpa using ih
      · simp

/-- spelling does not matter (C14): two names with the same lower-case form see the same value -/
theorem C10_headers_case (env : List (Str × Str)) (n n' : Str) (h : Headers.key n = Headers.key n') :
    Headers.getItem (reqHeaders env) n = Headers.getItem (reqHeaders env) n' := by
  unfold Headers.getItem; rw [h]

/-! ### non-vacuity and concrete instances -/

example : envHeaderName "HTTP_X_FOO_BAR".toList = some "X-Foo-Bar".toList := by decide
example : envHeaderName "CONTENT_TYPE".toList = some "Content-Type".toList := by decide
example : envHeaderName "http_x".toList = none := by decide

example : Headers.getItem (reqHeaders [("HTTP_X_FOO".toList, "v".toList)]) "x-FOO".toList = some "v".toList := by
  decide

/-- "a b"="é&" can be sent as `a+b=%c3%A9%26` -/
example : EncFields [("a b".toList, "é&".toList)] ["a+b=%c3%A9%26".toList] := by
  refine EncFields.cons _ _ _ _ ⟨"a+b".toList, "%c3%A9%26".toList, ?_, ?_, rfl⟩ EncFields.nil
  · exact Enc.cons 'a' _ ['a'] _ (EncC.raw 'a' (by decide))
      (Enc.cons ' ' _ ['+'] _ EncC.plus (Enc.cons 'b' _ ['b'] [] (EncC.raw 'b' (by decide)) Enc.nil))
  · refine Enc.cons 'é' _ "%c3%A9".toList _ (EncC.pct 'é' _ ?_)
      (Enc.cons '&' _ "%26".toList [] (EncC.pct '&' _ ?_) Enc.nil)
    · exact PctEnc.cons 0xc3 'c' '3' _ _ ⟨by decide, by decide⟩
        (PctEnc.cons 0xa9 'A' '9' _ _ ⟨by decide, by decide⟩ PctEnc.nil)
    · exact PctEnc.cons 0x26 '2' '6' _ _ ⟨by decide, by decide⟩ PctEnc.nil

example : urlencode [("a b".toList, "x&y".toList), ("k".toList, [])] = "a+b=x%26y&k=".toList := by decide

example : kept false [("a".toList, []), ("a".toList, "1".toList)] = [("a".toList, "1".toList)] := by decide

/-- **the body is never read beyond the declared length, whatever the handler asks for**: any sequence of
    `req.read(k)` / `req.read()` calls returns consecutive pieces of `wsgi.input` which together are a
    prefix of its first `Content-Length` bytes -/
theorem C10_reads_prefix (cl : Nat) (src : Bytes) (ks : List (Option Nat)) :
    (Poor.Query.reqReads ⟨cl, src⟩ ks).1.flatten <+: src.take cl :=
  Poor.Query.reqReads_prefix cl src ks

/-- ... and what is not returned is still in the stream: nothing is skipped or taken twice -/
theorem C10_reads_conserve (cl : Nat) (src : Bytes) (ks : List (Option Nat)) :
    (Poor.Query.reqReads ⟨cl, src⟩ ks).1.flatten ++ (Poor.Query.reqReads ⟨cl, src⟩ ks).2.src = src :=
  (Poor.Query.reqReads_spec ⟨cl, src⟩ ks).1

example : (Poor.Query.reqReads ⟨4, [1, 2, 3, 4, 5, 6]⟩ [some 1, none, some 9]).1 = [[1], [2, 3, 4], []] := by decide

end Poor.Props.C10
