import PoorProofs.Lemmas.Wsgi
import PoorModel.Gen.Reasons
/-
C04 - aborts and exceptions become the documented HTTP answers.

All statements are about `ladder app p t e`: what the exception clauses of `__request__`
make of the first exception `e` that left construction / before hooks / the endpoint
(`preAfter` is `ladder` applied to that exception, and the after-hook loop only starts
from its result - see `C04_after_independent`).
-/
namespace Poor.Props.C04
open Poor Poor.Response Poor.Wsgi

variable (app : App) (p : Prog) (t : Trace)

/-- abort(s) with a status handler registered for (s, method): that handler runs and its
    return value is interpreted exactly like an endpoint return value -/
theorem abort_user_handler (s : Nat) (kw nr : Bool) (hs0 : s ≠ 0) (hs200 : s ≠ 200)
    (hu : s ∈ app.userStatus) (v : Val) (hv : p (.status s) = .ret v)
    (r : Resp) (hr : toResponse app.reasons v = .ok r) :
    ladder app p t (.http s kw nr) = (t ++ [.status s], some r) := by
  have he : excMakeResponse (.http s kw nr) = none := by
    unfold excMakeResponse; split <;> simp_all
  simp [ladder, he, stateFromTable, hu, callT, hv, coerce, hr, guarded, R.ok]

/-- ... else the built-in page for s -/
theorem abort_builtin_page (s : Nat) (nr : Bool) (hs0 : s ≠ 0) (hs200 : s ≠ 200)
    (hu : s ∉ app.userStatus) (hb : s ∈ app.builtinPages)
    (h304 : s ≠ 304) (h401 : ¬(s = 401 ∧ app.digestAuth = true)) :
    ladder app p t (.http s false nr) = (t ++ [.page s], some (pageResp s)) := by
  have he : excMakeResponse (.http s false nr) = none := by
    unfold excMakeResponse; split <;> simp_all
  have h1 : ¬((s = 401 ∧ app.digestAuth = true) ∧ nr = true) := fun h => h401 h.1
  simp [ladder, he, stateFromTable, hu, hb, h304, h401, h1, coerce, toResponse, guarded, R.ok]

/-- ... else a 501 page -/
theorem abort_not_implemented (s : Nat) (kw nr : Bool) (hs0 : s ≠ 0) (hs200 : s ≠ 200)
    (hu : s ∉ app.userStatus) (hb : s ∉ app.builtinPages) :
    ladder app p t (.http s kw nr) = (t ++ [.page 501], some (pageResp 501)) := by
  have he : excMakeResponse (.http s kw nr) = none := by
    unfold excMakeResponse; split <;> simp_all
  simp [ladder, he, stateFromTable, hu, hb, coerce, toResponse, guarded, R.ok]

/-- an abort carrying a response object delivers exactly that response -/
theorem abort_with_response (r : Resp) : ladder app p t (.httpResp r) = (t, some r) := rfl

/-- the two documented special codes: 0 declines the request, 200 is an empty 204 -/
theorem abort_special (kw nr : Bool) :
    ladder app p t (.http 0 kw nr) = (t, some ⟨.declined, 200, [], [], [], 0⟩) ∧
    ladder app p t (.http 200 kw nr) = (t, some ⟨.noContent, 204, xPoweredBy, [], [], 0⟩) := by
  constructor <;> simp [ladder, excMakeResponse]

/-- `findExcHandler` is the first registered handler, in registration order, whose class matches -/
theorem first_matching_handler (c i : Nat) (h : findExcHandler app (.other c) = some i) :
    (∃ cls, app.excHandlers[i]? = some cls ∧ isInstance c cls = true) ∧
    ∀ j, j < i → ∀ cls, app.excHandlers[j]? = some cls → isInstance c cls = false := by
  simp only [findExcHandler, Exc.classId] at h
  have h1 := List.find?_some h
  constructor
  · split at h1
    · rename_i cls hc; exact ⟨cls, hc, h1⟩
    · cases h1
  · intro j hj cls hcls
    have hmem : i ∈ List.range app.excHandlers.length := List.mem_of_find?_eq_some h
    have hi : i < app.excHandlers.length := List.mem_range.mp hmem
    -- every earlier element of `range n` was rejected
    have := List.find?_eq_some_iff_append.mp h
    obtain ⟨_, as, bs, hsplit, hrej⟩ := this
    have hlen : as.length = i := by
      have h0 : (List.range app.excHandlers.length)[as.length]? = some i := by
        rw [hsplit]; simp
      rw [List.getElem?_range] at h0
      · simpa using h0
      · have := congrArg List.length hsplit; simp at this; omega
    have hj' : j ∈ as := by
      have hpre : as = List.range i := by
        have h2 : as = (List.range app.excHandlers.length).take as.length := by rw [hsplit]; simp
        rw [h2, hlen, List.take_range]; congr 1; omega
      rw [hpre]; exact List.mem_range.mpr hj
    have hr := hrej j hj'
    simpa [hcls] using hr

/-- any other exception goes to that handler; its return value is coerced like an endpoint's -/
theorem exception_user_handler (c i : Nat) (hf : findExcHandler app (.other c) = some i)
    (v : Val) (hv : p (.exch i) = .ret v) (r : Resp) (hr : toResponse app.reasons v = .ok r) :
    ladder app p t (.other c) = (t ++ [.exch i], some r) := by
  simp [ladder, errorResponse, errorFromTable, hf, callT, hv, coerce, hr, guarded, R.ok]

/-- ... and otherwise yields 500 (the user's 500 handler if registered, else the built-in page) -/
theorem exception_unhandled (c : Nat) (hf : findExcHandler app (.other c) = none)
    (hu : 500 ∉ app.userStatus) (hb : 500 ∈ app.builtinPages) :
    ladder app p t (.other c) = (t ++ [.page 500], some (pageResp 500)) := by
  simp [ladder, errorResponse, errorFromTable, hf, fallback500, stateFromTable, hu, hb, coerce,
    toResponse, guarded, R.ok]

/-- a failure inside a status handler degrades to a 500 page -/
theorem status_handler_failure (s : Nat) (kw nr : Bool) (hs0 : s ≠ 0) (hs200 : s ≠ 200)
    (hu : s ∈ app.userStatus) (x : Exc) (hx : x.isException = true)
    (hnot : ∀ a b c, x ≠ .http a b c) (hnot2 : ∀ r, x ≠ .httpResp r)
    (hv : p (.status s) = .raise x) :
    ladder app p t (.http s kw nr) = (t ++ [.status s, .page 500], some (pageResp 500)) := by
  have he : excMakeResponse (.http s kw nr) = none := by
    unfold excMakeResponse; split <;> simp_all
  simp only [ladder, he, stateFromTable, hu, if_true, callT, hv]
  cases x <;> simp_all [coerce, toResponse, guarded, R.ok, Exc.isException, Exc.classId]

theorem toResponse_junk (reasons : List (Nat × String)) : toResponse reasons .junk = .respErr := by
  simp only [toResponse, makeResponse]
  split
  · rename_i h; split at h <;> first | cases h | (split at h <;> cases h)
  · rfl

/-- ... and so does a status handler that returns garbage -/
theorem status_handler_garbage (s : Nat) (kw nr : Bool) (hs0 : s ≠ 0) (hs200 : s ≠ 200)
    (hu : s ∈ app.userStatus) (hv : p (.status s) = .ret .junk) :
    ladder app p t (.http s kw nr) = (t ++ [.status s, .page 500], some (pageResp 500)) := by
  have he : excMakeResponse (.http s kw nr) = none := by
    unfold excMakeResponse; split <;> simp_all
  simp [ladder, he, stateFromTable, hu, callT, hv, coerce, toResponse_junk, guarded, R.ok, R.err]

/-- a status handler that aborts with an ordinary status: no second table lookup - the 500 page -/
theorem status_handler_aborts (s : Nat) (kw nr : Bool) (hs0 : s ≠ 0) (hs200 : s ≠ 200)
    (hu : s ∈ app.userStatus) (s' : Nat) (kw' nr' : Bool) (h0 : s' ≠ 0) (h200 : s' ≠ 200)
    (hv : p (.status s) = .raise (.http s' kw' nr')) :
    ladder app p t (.http s kw nr) = (t ++ [.status s, .page 500], some (pageResp 500)) := by
  have he : excMakeResponse (.http s kw nr) = none := by
    unfold excMakeResponse; split <;> simp_all
  have he' : excMakeResponse (.http s' kw' nr') = none := by
    unfold excMakeResponse; split <;> simp_all
  simp [ladder, he, he', stateFromTable, hu, callT, hv, coerce, toResponse, guarded, R.ok]

/-- ... but the special codes and an abort carrying a response keep their meaning there (the model states
    the current behaviour; the property text does not say which of the two readings is meant) -/
theorem status_handler_aborts_special (s : Nat) (kw nr : Bool) (hs0 : s ≠ 0) (hs200 : s ≠ 200)
    (hu : s ∈ app.userStatus) (e : Exc) (r : Resp) (he' : excMakeResponse e = some r)
    (hv : p (.status s) = .raise e) :
    ladder app p t (.http s kw nr) = (t ++ [.status s], some r) := by
  have he : excMakeResponse (.http s kw nr) = none := by
    unfold excMakeResponse; split <;> simp_all
  have hshape : (∃ a b c, e = .http a b c) ∨ (∃ q, e = .httpResp q) := by
    cases e <;> simp [excMakeResponse] at he' ⊢
  rcases hshape with ⟨a, b, c, rfl⟩ | ⟨q, rfl⟩ <;>
    simp [ladder, he, he', stateFromTable, hu, callT, hv, coerce, toResponse, guarded, R.ok]

/-- the exception handler itself failing (an Exception): 500 page -/
theorem exception_handler_failure (c i : Nat) (hf : findExcHandler app (.other c) = some i)
    (c' : Nat) (hv : p (.exch i) = .raise (.other c')) :
    ladder app p t (.other c) = (t ++ [.exch i, .page 500], some (pageResp 500)) := by
  simp [ladder, errorResponse, errorFromTable, hf, callT, hv, guarded, R.ok, Exc.isException, Exc.classId]

/-- **the conversion does not depend on the after hooks**: what the after-hook loop starts
    from is computed without the after programs, and does not change with their number -/
theorem C04_after_independent (post : AfterProg) (ctor : Option Exc) (route : Route) (k : Nat) :
    (respond app p post ctor route =
      match preAfter app p ctor route with
      | (t, none) => (t, none)
      | (t, some r) => afterAll app p post t r) ∧
    preAfter { app with nAfter := k } p ctor route = preAfter app p ctor route :=
  ⟨rfl, rfl⟩

/-! ### non-vacuity: a concrete application and failing program meet the hypotheses -/

/-- a small application and a failing user program, to show that the hypotheses of the theorems of C01,
    C03 and C04 are satisfiable together: two before hooks, one after hook, user handlers for 404 and 500,
    exception handlers for class 0 and for `Exception`; the endpoint aborts with 404, the 404 handler
    answers with text, the first exception handler itself fails -/
def demoApp : App :=
  ⟨2, 1, [404, 500], [0, 9], Gen.Reasons.builtinPages, false, Gen.Reasons.table⟩

def demoProg : Prog
  | .endpoint => .raise (.http 404 false false)
  | .status c => if c = 404 then .ret (.str [104, 105]) else .ret .junk
  | .exch i => if i = 0 then .raise (.other 2) else .ret .none
  | .before _ => .ret .none

example : 404 ∈ demoApp.userStatus ∧ demoProg (.status 404) = .ret (.str [104, 105]) := ⟨by decide, rfl⟩

/-- `abort_user_handler` applies to it, and its conclusion is what the model computes -/
example : ∃ r, toResponse demoApp.reasons (.str [104, 105]) = .ok r ∧
    ladder demoApp demoProg [] (.http 404 false false) = ([.status 404], some r) := by
  refine ⟨_, rfl, ?_⟩
  decide

/-- `status_handler_garbage`: the 500 handler returns junk -/
example : 500 ∈ demoApp.userStatus ∧ demoProg (.status 500) = .ret .junk := ⟨by decide, rfl⟩

/-- `first_matching_handler` / `exception_handler_failure`: class 1 (derived from 0) finds handler 0, which fails -/
example : findExcHandler demoApp (.other 1) = some 0 ∧ demoProg (.exch 0) = .raise (.other 2) := ⟨by decide, rfl⟩

/-- `abort_not_implemented`: 418 has neither a user handler nor a built-in page -/
example : 418 ∉ demoApp.userStatus ∧ 418 ∉ demoApp.builtinPages := ⟨by decide, by decide⟩


end Poor.Props.C04
