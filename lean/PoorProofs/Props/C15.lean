import PoorProofs.Lemmas.Html
import PoorModel.Gen.Escape
import PoorModel.Gen.Pages
/-
C15 - built-in pages never emit request data as markup.

`Gen.Escape` and `Gen.Pages` are regenerated from results.py on every run; the
obligations below are re-checked against what the source says now.
-/
namespace Poor.Props.C15
open Poor Poor.Html

/-- `html_escape` in the source is the per-character table lookup the model uses -/
theorem escape_is_table_lookup : Gen.Escape.escapeIsTableLookup = true := by decide

/-- every replacement text in the table is free of the four markup characters -/
theorem escape_table_safe :
    ∀ e ∈ Gen.Escape.table, ∀ d ∈ e.2.toList, Cls.escaped.allows d = true := by decide

/-- the table covers all four markup characters -/
theorem escape_table_covers :
    (Gen.Escape.table.lookup '<').isSome = true ∧ (Gen.Escape.table.lookup '>').isSome = true ∧
    (Gen.Escape.table.lookup '"').isSome = true ∧ (Gen.Escape.table.lookup '\'').isSome = true := by
  decide

theorem lookup_mem {c : Char} {r : String} {t : List (Char × String)} (h : t.lookup c = some r) :
    (c, r) ∈ t := by
  induction t with
  | nil => simp [List.lookup] at h
  | cons e rest ih =>
    obtain ⟨k, v⟩ := e
    simp only [List.lookup] at h
    split at h
    · rename_i heq
      simp only [Option.some.injEq] at h
      have : c = k := by simpa using heq
      simp [this, h]
    · exact List.mem_cons_of_mem _ (ih h)

theorem lookup_mem' {α β : Type} [BEq α] [LawfulBEq α] {c : α} {r : β} {t : List (α × β)} (h : t.lookup c = some r) :
    (c, r) ∈ t := by
  induction t with
  | nil => simp [List.lookup] at h
  | cons e rest ih =>
    obtain ⟨k, v⟩ := e
    simp only [List.lookup] at h
    split at h
    · rename_i heq
      simp only [Option.some.injEq] at h
      have : c = k := by simpa using heq
      simp [this, h]
    · exact List.mem_cons_of_mem _ (ih h)

/-- **escaped text contains none of `<`, `>`, `"`, `'`**, for every input text -/
theorem escape_safe (s : Str) :
    ∀ d ∈ escapeWith Gen.Escape.table s, Cls.escaped.allows d = true := by
  intro d hd
  unfold escapeWith at hd
  rw [List.mem_flatMap] at hd
  obtain ⟨c, _, hc⟩ := hd
  split at hc
  · rename_i r hr
    exact escape_table_safe _ (lookup_mem hr) d hc
  · rename_i hn
    simp only [List.mem_singleton] at hc
    subst hc
    obtain ⟨h1, h2, h3, h4⟩ := escape_table_covers
    simp only [Cls.allows, Bool.not_eq_true', Bool.or_eq_false_iff, beq_eq_false_iff_ne]
    refine ⟨⟨⟨?_, ?_⟩, ?_⟩, ?_⟩ <;> (intro he; subst he; simp [hn] at *)

/-- every built-in page passes the static check in both debug settings: every tainted hole
    is escaped (or token-only) and sits in text, a double-quoted or a single-quoted
    attribute value; loop bodies and both branches of every conditional return the
    tokenizer to the state they started in -/
theorem pages_safe : ∀ p ∈ Gen.Pages.all, post p.2 .data = some .data := by decide +kernel

/-- **C15.** For every built-in page, every debug setting, every content of every hole
    (request-derived holes: any text at all, passed through the escape table; trusted
    holes: any text free of markup characters) and every number of loop iterations, no
    client-controlled character is read inside a tag or changes the tokenizer state. -/
theorem C15 : ∀ p ∈ Gen.Pages.all, ∀ debug xs, Renders debug p.2 xs → inertRun .data xs = some .data :=
  fun p hp _ _ hr => post_sound hr .data .data (pages_safe p hp)

/-- what an escaped hole emits for the request text `raw` is admissible hole content -/
theorem escaped_hole_renders (debug : Bool) (raw : Str) :
    Renders debug (.hole .escaped) (holeRC .escaped (escapeWith Gen.Escape.table raw)) :=
  .hole .escaped _ (escape_safe raw)

/-! non-vacuity: a page with an attribute hole; an unescaped hole is rejected -/
example : post (.seq (.lit "<a href=\"".toList) (.seq (.hole .escaped) (.lit "\">x</a>".toList))) .data = some .data := by decide
example : post (.seq (.lit "<a href=".toList) (.seq (.hole .escaped) (.lit ">x</a>".toList))) .data = none := by decide
example : post (.seq (.lit "<p>".toList) (.hole .rawTainted)) .data = none := by decide
example : inertRun .data (litRC "<p>".toList ++ holeRC .rawTainted "<script>".toList) = none := by decide

end Poor.Props.C15
