import PoorModel.Response
import PoorModel.Gen.Reasons
import PoorProofs.Props.JsonCodec
/-
C05 - what a handler returns is what the client receives.
-/
namespace Poor.Props.C05
open Poor Poor.Response Poor.Headers

variable (reasons : List (Nat × String))

/-- the headers the framework may add on its own -/
def autoCT (r : Resp) : Hs :=
  if !r.ctype.isEmpty && !contains r.headers "Content-Type".toList
  then [("Content-Type".toList, iso r.ctype)] else []

def autoCL (r : Resp) : Hs :=
  if r.clen ≠ 0 && !contains (r.headers ++ autoCT r) "Content-Length".toList
  then [("Content-Length".toList, natStr r.clen)] else []

/-- **headers.** Whatever response object reaches emission - of any class, with any
    headers incl. repeated Set-Cookie - every header on it appears unchanged and in order
    in what the server receives; the framework appends Content-Type / Content-Length only
    when that header is absent, and never for the no-content family or a 304. -/
theorem C05_headers (r : Resp) (e : Emitted) (h : emit reasons r = some e) :
    e.status = r.status ∧
    ((r.cls = .noContent ∨ r.status = 304 ∨ r.status = 204) → e.headers = r.headers ∧ e.body = []) ∧
    (r.cls = .base → r.status ≠ 304 → r.status ≠ 204 →
        e.headers = r.headers ++ autoCT r ++ autoCL r ∧ e.body = r.body.flatten) := by
  obtain ⟨cls, st, hs, ct, body, clen⟩ := r
  cases cls
  · simp only [emit] at h
    split at h
    · rename_i h304
      simp only [Option.some.injEq] at h; subst h
      simp only [Bool.or_eq_true, decide_eq_true_eq] at h304
      refine ⟨rfl, fun _ => ⟨rfl, rfl⟩, ?_⟩
      intro _ h1 h2
      rcases h304 with h | h
      · exact absurd h h1
      · exact absurd h h2
    · rename_i h304
      simp only [Bool.or_eq_true, decide_eq_true_eq, not_or] at h304
      simp only [Option.some.injEq] at h; subst h
      refine ⟨rfl, ?_, ?_⟩
      · rintro (h | h | h)
        · cases h
        · exact absurd h h304.1
        · exact absurd h h304.2
      · intro _ _ _
        refine ⟨?_, rfl⟩
        simp only [autoCT, autoCL]
        generalize ("Content-Type".toList, iso ct) = x
        generalize ("Content-Length".toList, natStr clen) = y
        generalize (!ct.isEmpty && !contains hs "Content-Type".toList) = c1
        have hA : (if c1 = true then hs ++ [x] else hs) = hs ++ (if c1 = true then [x] else []) := by
          cases c1 <;> simp
        rw [hA]
        generalize (hs ++ if c1 = true then [x] else []) = A
        generalize (decide (clen ≠ 0) && !contains A "Content-Length".toList) = c2
        cases c2 <;> simp
  · simp only [emit, Option.some.injEq] at h; subst h
    simp
  · simp [emit] at h

theorem ks200 : knownStatus Gen.Reasons.table 200 = true := by decide

/-- text is delivered as its UTF-8 bytes, bytes verbatim -/
theorem C05_str_bytes (b : Bytes) (v : Val) (hv : v = .str b ∨ v = .bytes b) (h200 : knownStatus reasons 200 = true) :
    toResponse reasons v = .ok ⟨.base, 200, xPoweredBy, htmlType, [b], b.length⟩ := by
  rcases hv with rfl | rfl <;> simp [toResponse, makeResponse, h200, initHeaders]

/-- dict / list (empty ones included): the JSON text under a JSON content type -/
theorem C05_json (d : Bytes) (h200 : knownStatus reasons 200 = true) :
    toResponse reasons (.json d) = .ok ⟨.base, 200, xPoweredBy, jsonType, [d], d.length⟩ := by
  simp [toResponse, makeResponse, h200, initHeaders]

/-- None: 204 and no body -/
theorem C05_none (h200 : knownStatus reasons 200 = true) :
    toResponse reasons .none = .ok ⟨.noContent, 204, xPoweredBy, [], [], 0⟩ := by
  simp [toResponse, makeResponse, h200, initHeaders]

/-- an iterable of bytes: its chunks in order -/
theorem C05_iter (cs : List Bytes) (v : Val) (hv : v = .iter cs ∨ v = .listBytes cs) (h200 : knownStatus reasons 200 = true) :
    toResponse reasons v = .ok ⟨.base, 200, xPoweredBy, htmlType, cs, 0⟩ := by
  rcases hv with rfl | rfl <;> simp [toResponse, makeResponse, h200, initHeaders]

/-- any other value: ResponseError (turned into 500 by the request ladder, see C04) -/
theorem C05_junk (h200 : knownStatus reasons 200 = true) : toResponse reasons .junk = .respErr := by
  simp [toResponse, makeResponse, h200, initHeaders]

/-- the tuple form sets exactly body, content type, headers and status -/
theorem C05_tuple (b : Bytes) (ct : Str) (h : Hs) (st : Nat) (hst : knownStatus reasons st = true) :
    toResponse reasons (.tuple (.str b) [.ctype ct, .hdrs (.pairs h), .status st])
      = .ok ⟨.base, st, h, ct, [b], b.length⟩ ∧
    toResponse reasons (.tuple .none [.ctype ct, .hdrs (.pairs h), .status st])
      = .ok ⟨.noContent, if st = 200 then 204 else st, h, [], [], 0⟩ := by
  simp [toResponse, makeResponse, hst, initHeaders]

/-- a response object is handed on untouched -/
theorem C05_resp (r : Resp) : toResponse reasons (.resp r) = .ok r := rfl

def C05_full : Prop :=
  let reasons := Gen.Reasons.table
  (∀ r e, emit reasons r = some e →
    e.status = r.status ∧
    ((r.cls = .noContent ∨ r.status = 304 ∨ r.status = 204) → e.headers = r.headers ∧ e.body = []) ∧
    (r.cls = .base → r.status ≠ 304 → r.status ≠ 204 →
        e.headers = r.headers ++ autoCT r ++ autoCL r ∧ e.body = r.body.flatten)) ∧
  (∀ b, toResponse reasons (.str b) = .ok ⟨.base, 200, xPoweredBy, htmlType, [b], b.length⟩) ∧
  (∀ b, toResponse reasons (.bytes b) = .ok ⟨.base, 200, xPoweredBy, htmlType, [b], b.length⟩) ∧
  (∀ d, toResponse reasons (.json d) = .ok ⟨.base, 200, xPoweredBy, jsonType, [d], d.length⟩) ∧
  (toResponse reasons .none = .ok ⟨.noContent, 204, xPoweredBy, [], [], 0⟩) ∧
  (∀ cs, toResponse reasons (.iter cs) = .ok ⟨.base, 200, xPoweredBy, htmlType, cs, 0⟩) ∧
  (toResponse reasons .junk = .respErr) ∧
  (∀ r, toResponse reasons (.resp r) = .ok r)

theorem C05 : C05_full :=
  ⟨C05_headers _, fun b => C05_str_bytes _ b _ (Or.inl rfl) ks200, fun b => C05_str_bytes _ b _ (Or.inr rfl) ks200,
   fun d => C05_json _ d ks200, C05_none _ ks200, fun cs => C05_iter _ cs _ (Or.inl rfl) ks200, C05_junk _ ks200,
   C05_resp _⟩

/-- **a dict or list is delivered as JSON that decodes to an equal value.**  For every well-formed value `v`
    (any nesting and size, `{}` and `[]` included, strings with control characters, non-BMP characters and lone
    surrogates) the handler's value becomes a 200 answer of JSON type whose body is the UTF-8 encoding of
    `json.dumps(v)`, with the matching length; that body is pure ASCII, and decoding and parsing it gives `v`. -/
theorem C05_json_value (v : Poor.Json.J) (h : Poor.Json.JOk v) :
    toResponse Gen.Reasons.table (.json (Poor.Json.dumpBytes v))
      = .ok ⟨.base, 200, xPoweredBy, jsonType, [Poor.Json.dumpBytes v], (Poor.Json.dumpBytes v).length⟩ ∧
    Poor.Json.loadBytes (Poor.Json.dumpBytes v) = some v ∧
    (∀ c ∈ Poor.Json.dump v, c.toNat < 128) :=
  ⟨C05_json _ _ ks200, JsonCodec.loadBytes_dumpBytes v h, JsonCodec.dumpBytes_ascii v⟩

/-! ### non-vacuity -/

/-- non-vacuity of `C05_headers`: a 304 carrying an ETag is emitted with exactly its headers and no body,
    a 200 with a body gets Content-Type and Content-Length added -/
example : emit Gen.Reasons.table ⟨.base, 304, [("ETag".toList, "x".toList)], "text/html".toList, [[1, 2]], 2⟩
    = some ⟨304, "Not Modified", [("ETag".toList, "x".toList)], []⟩ := by decide

example : (emit Gen.Reasons.table ⟨.base, 200, [], "a/b".toList, [[1], [2, 3]], 3⟩).map (·.body) = some [1, 2, 3] := by
  decide

end Poor.Props.C05
