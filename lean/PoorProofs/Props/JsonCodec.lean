import PoorProofs.Lemmas.Json
import PoorProofs.Lemmas.JsonAny
import PoorProofs.Props.C14
/-
The JSON codec at the byte level, as the three call sites use it:
  response.py:447   `dumps(data_)`, sent as UTF-8                      (C05)
  request.py:909    `json_loads(raw.decode(charset))`                  (C10)
  session.py:247/273 `dumps(self.data)` ... `loads(...)`               (C13)
-/
namespace Poor.Props.JsonCodec
open Poor Poor.Json Poor.Headers

/-- **the JSON round trip, for every well-formed value** (any nesting, any size): the bytes written for `v`
    parse back to `v`.  `JOk v`: no float (not modelled), integers of at most 4300 digits, strings of Unicode
    code points without a high surrogate directly followed by a low one, distinct keys within one object. -/
theorem loadBytes_dumpBytes (v : J) (h : JOk v) : loadBytes (dumpBytes v) = some v := by
  unfold loadBytes dumpBytes
  rw [Poor.Props.C14.utf8dec_utf8enc]
  exact loads_dump v h

/-- `ensure_ascii=True`: the text written is pure ASCII whatever the value holds - lone surrogates, which
    UTF-8 cannot encode, included (with `ensure_ascii=False` the encoding of such a value raises) -/
theorem dumpBytes_ascii (v : J) : ∀ c ∈ dump v, c.toNat < 128 := dump_ascii v

/-- **why `NoPair` is a hypothesis**: the two code points U+D800 U+DC00 in one Python `str` are written as
    `"𐀀"` and read back as the single character U+10000 - `json.loads(json.dumps(s)) != s` in
    CPython itself (checked against the real module by the C05 correspondence). -/
theorem surrogate_pair_merged : scanStr (tailText [0xD800, 0xDC00] []) [] = .ok [0x10000] [] := by
  have hh : isHigh 0xD800 = true := by simp [isHigh]
  have hl : isLow 0xDC00 = true := by simp [isLow]
  have ht : (['"'] : Str) ≠ [] := by simp
  have h := scan_u2 0xD800 0xDC00 hh hl ['"'] ht []
  have e : tailText [0xD800, 0xDC00] [] = uesc 0xD800 ++ (uesc 0xDC00 ++ ['"']) := by
    simp [tailText, escChar, uesc]
  have hj : joinSur 0xD800 0xDC00 = 0x10000 := by unfold joinSur; omega
  rw [e, h, hj, scanStr.eq_def]
  simp

/-- non-vacuity: a nested value with an escape of every kind satisfies `JOk` -/
example : JOk (.obj [([0x6B], .arr [.int (-12), .str [0x22, 0xE9, 0x1F600, 0xD800], .null, .bool true, .obj []])]) := by
  simp only [JOk, MOk, JOks, StrOK, NoPair, INT_MAX_DIGITS]
  refine ⟨⟨⟨?_, trivial⟩, ⟨?_, ⟨?_, ?_⟩, trivial, trivial, ⟨trivial, by simp⟩, trivial⟩, trivial⟩, by simp⟩
  · intro c hc; simp at hc; omega
  · decide
  · intro c hc; simp at hc; omega
  · simp [isHigh, isLow]

end Poor.Props.JsonCodec

namespace Poor.Props.JsonCodec
open Poor Poor.Json Poor.Headers

/-- **every spelling of a value is read back to it**: for every JSON text `s` of `v` (`Txt v s`: any white space
    between the tokens, strings written with raw characters, short escapes or `\uXXXX` of either case, surrogate
    pairs, repeated keys) surrounded by white space, the UTF-8 bytes parse to `v` -/
theorem loadBytes_any_spelling {v : J} {s : Str} (h : Txt v s) (w1 w2 : Str) (h1 : AllWs w1) (h2 : AllWs w2) :
    loadBytes (utf8enc (w1 ++ (s ++ w2))) = some v := by
  unfold loadBytes
  rw [Poor.Props.C14.utf8dec_utf8enc]
  exact loads_txt h w1 w2 h1 h2

end Poor.Props.JsonCodec
