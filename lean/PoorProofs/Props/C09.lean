import PoorProofs.Lemmas.Reader
/-
C09 - the caching body reader returns the body exactly once, in order, and stops.
Statements only; helper lemmas are in PoorProofs/Lemmas/Reader.lean.
-/
namespace Poor.Props.C09
open Poor Poor.Reader

/-- **exactly once, in order.** For every stream, declared length `n`, block size,
    short-read script and every history of read/readline calls with any size
    arguments: the chunks returned, followed by what the reader still owes, are
    exactly the first `n` bytes of the stream. Hence the chunks concatenate to a
    prefix of those bytes: nothing lost, duplicated or reordered. -/
theorem C09_prefix (src : Bytes) (n block : Nat) (script : List Nat) (ops : List Op) :
    (run block (St.init src n script) ops).1.flatten
      ++ (run block (St.init src n script) ops).2.pending = src.take n := by
  have := run_conserve block (St.init src n script) ops
  simpa [St.init, St.pending] using this

theorem C09_prefix' (src : Bytes) (n block : Nat) (script : List Nat) (ops : List Op) :
    (run block (St.init src n script) ops).1.flatten <+: src.take n :=
  ⟨_, C09_prefix src n block script ops⟩


/-- **reaches everything.** A call with a positive (resolved) size returns the empty
    string only when nothing is owed any more: all available bytes of the declared
    body have been returned. -/
theorem C09_complete (block : Nat) (s : St) (op : Op)
    (hsz : 0 < (match op with | .read z => resolve block z | .readline z => resolve block z))
    (h : (step block s op).1 = []) : s.pending = [] := by
  cases op with
  | read z => exact read_complete s _ hsz h
  | readline z => exact readline_complete s _ hsz h

/-- **budget.** After any history, every underlying request `(k, t)` asked for at most
    the `t` bytes that were left of the declared length at that moment, and the stream
    position plus the remaining budget is always `n` - the reader never consumes the
    stream beyond its first `n` bytes. -/
theorem C09_budget (src : Bytes) (n block : Nat) (script : List Nat) (ops : List Op) :
    (∀ p ∈ (run block (St.init src n script) ops).2.log, p.1 ≤ p.2) ∧
    (∃ pre, src = pre ++ (run block (St.init src n script) ops).2.src ∧
            pre.length + (run block (St.init src n script) ops).2.todo = n) := by
  have h0 : Inv src n (St.init src n script) :=
    ⟨by intro p hp; simp [St.init] at hp, [], by simp [St.init], by simp [St.init]⟩
  exact run_inv src n block _ ops h0

/-- **no CRLF inside a line.** -/
theorem C09_no_interior_crlf (s : St) (size : Nat) :
    ∀ pre suf, (readline s size).1 = pre ++ CR :: LF :: suf → suf = [] :=
  giveBack_onlyFinal _ _ (readlineLoop_onlyFinal _ [] s noCRLF_nil)

/-- **cut reason.** A line that does not end in CRLF reached the caller's size limit
    (or everything that was left), or the input is exhausted, or it was cut one byte early
    because that byte is a CR that may be the first half of a CRLF: the CR is then the next
    byte delivered. -/
theorem C09_cut_reason (s : St) (size : Nat) :
    (∃ pre, (readline s size).1 = pre ++ [CR, LF])
    ∨ min size (s.buf.length + s.todo) ≤ (readline s size).1.length
    ∨ (readline s size).2.pending = []
    ∨ ((readline s size).2.buf.head? = some CR ∧
        min size (s.buf.length + s.todo) ≤ (readline s size).1.length + 1) :=
  readline_cut s size

/-- a result is never longer than asked -/
theorem C09_length (s : St) (size : Nat) :
    (readline s size).1.length ≤ size ∧ (read s size).1.length ≤ size := by
  constructor
  · have := readlineLoop_length (min size (s.buf.length + s.todo)) [] s (by simp)
    have := giveBack_length (min size (s.buf.length + s.todo)) (readlineLoop (min size (s.buf.length + s.todo)) [] s)
    unfold readline; omega
  · unfold Reader.read
    simp only
    split
    · simp [List.length_take]; omega
    · rename_i h
      simp only [List.length_append, under_fst, List.length_take]
      have := cap_le s (min (s.todo + s.buf.length) size - s.buf.length)
      omega

/-- **bounded work.** `read` performs at most one underlying read, `readline(size)` at most `size`. -/
theorem C09_bounded_reads (s : St) (size : Nat) :
    (read s size).2.log.length ≤ s.log.length + 1 ∧
    (readline s size).2.log.length ≤ s.log.length + size := by
  constructor
  · exact read_reads s size
  · have := readlineLoop_reads (min size (s.buf.length + s.todo)) [] s
    unfold readline; rw [giveBack_log]; simp at this; omega

def C09_full : Prop :=
  (∀ src n block script ops,
      (run block (St.init src n script) ops).1.flatten
        ++ (run block (St.init src n script) ops).2.pending = src.take n) ∧
  (∀ block s op,
      0 < (match op with | .read z => resolve block z | .readline z => resolve block z) →
      (step block s op).1 = [] → s.pending = []) ∧
  (∀ src n block script ops,
      (∀ p ∈ (run block (St.init src n script) ops).2.log, p.1 ≤ p.2) ∧
      (∃ pre, src = pre ++ (run block (St.init src n script) ops).2.src ∧
              pre.length + (run block (St.init src n script) ops).2.todo = n)) ∧
  (∀ s size pre suf, (readline s size).1 = pre ++ CR :: LF :: suf → suf = []) ∧
  (∀ s size, (∃ pre, (readline s size).1 = pre ++ [CR, LF])
      ∨ min size (s.buf.length + s.todo) ≤ (readline s size).1.length
      ∨ (readline s size).2.pending = []
      ∨ ((readline s size).2.buf.head? = some CR ∧
          min size (s.buf.length + s.todo) ≤ (readline s size).1.length + 1)) ∧
  (∀ s size, (Reader.read s size).2.log.length ≤ s.log.length + 1 ∧
      (readline s size).2.log.length ≤ s.log.length + size)

theorem C09 : C09_full :=
  ⟨C09_prefix, C09_complete, C09_budget, C09_no_interior_crlf, C09_cut_reason, C09_bounded_reads⟩

/-! non-vacuity: a CRLF divided to two blocks is still returned at the end of one line -/
example : (run 3 (St.init [97, 98, 13, 10, 99] 5 []) [.readline 65536, .readline (-1)]).1
    = [[97, 98, 13, 10], [99]] := by
  simp [run, step, readline, giveBack, resolve, St.init, readlineLoop, St.prep, St.fill, St.under, findCRLF, CR, LF]
example : (run 8 (St.init [97, 13, 10, 98] 3 [0, 0]) [.readline (-1), .read (-1), .read 1]).1
    = [[97, 13, 10], [], []] := by
  simp [run, step, readline, giveBack, Reader.read, resolve, St.init, readlineLoop, St.prep, St.fill, St.under, findCRLF, CR, LF]

/-! a line cut by the size limit leaves the CR of a CRLF for the next line -/
example : (run 8 (St.init [97, 98, 13, 10, 99] 5 []) [.readline 3, .readline 3, .readline 3]).1
    = [[97, 98], [13, 10], [99]] := by
  simp [run, step, readline, giveBack, resolve, St.init, readlineLoop, St.prep, St.fill, St.under, findCRLF, CR, LF]

end Poor.Props.C09
