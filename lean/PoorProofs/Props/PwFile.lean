import PoorProofs.Lemmas.PwFile
/-
C11 - the user table kept in a password file: what is written is what is loaded.
-/
namespace Poor.PwFile

/-- an entry that survives the file: no separator or line end inside a field, and the line as a whole neither
    starts nor ends with white space (`strip` would eat it) -/
structure EntryOK (e : Entry) : Prop where
  user : FieldOK e.user
  realm : FieldOK e.realm
  digest : FieldOK e.digest
  first : ∀ c, (lineText e).head? = some c → isSpace c = false
  last : ∀ c, (lineText e).getLast? = some c → isSpace c = false

theorem lineText_ne (e : Entry) : lineText e ≠ [] := by
  unfold lineText; simp

theorem lineText_noeol {e : Entry} (h : EntryOK e) : '\r' ∉ lineText e ∧ '\n' ∉ lineText e := by
  unfold lineText
  have ⟨_, u1, u2⟩ := h.user
  have ⟨_, r1, r2⟩ := h.realm
  have ⟨_, d1, d2⟩ := h.digest
  constructor <;> simp [*]

theorem parseLine_line {e : Entry} (h : EntryOK e) : parseLine (lineText e) = some e := by
  unfold parseLine
  rw [strip_fix _ h.first h.last, splitColon_line e h.user.1 h.realm.1 h.digest.1]

theorem mapM_parse (es : List Entry) (h : ∀ e ∈ es, EntryOK e) :
    (es.map lineText).mapM parseLine = some es := by
  induction es with
  | nil => rfl
  | cons e es ih =>
    have he := h e (by simp)
    have ih' := ih (fun x hx => h x (by simp [hx]))
    simp only [List.map_cons, List.mapM_cons, parseLine_line he, ih']
    rfl

/-- the lines of a rendered table followed by any text: one per entry, then the lines of that text -/
theorem lines_render_lf (es : List Entry) (h : ∀ e ∈ es, EntryOK e) (tail : Str) :
    linesGo [] (render ['\n'] es ++ tail) = es.map lineText ++ linesGo [] tail := by
  induction es with
  | nil => simp [render]
  | cons e es ih =>
    have ⟨n1, n2⟩ := lineText_noeol (h e (by simp))
    have ih' := ih (fun x hx => h x (by simp [hx]))
    have : render ['\n'] (e :: es) ++ tail = lineText e ++ '\n' :: (render ['\n'] es ++ tail) := by
      simp [render]
    rw [this, linesGo_lf _ _ _ n1 n2, ih']
    simp

theorem lines_render_crlf (es : List Entry) (h : ∀ e ∈ es, EntryOK e) (tail : Str) :
    linesGo [] (render ['\r', '\n'] es ++ tail) = es.map lineText ++ linesGo [] tail := by
  induction es with
  | nil => simp [render]
  | cons e es ih =>
    have ⟨n1, n2⟩ := lineText_noeol (h e (by simp))
    have ih' := ih (fun x hx => h x (by simp [hx]))
    have : render ['\r', '\n'] (e :: es) ++ tail = lineText e ++ '\r' :: '\n' :: (render ['\r', '\n'] es ++ tail) := by
      simp [render]
    rw [this, linesGo_crlf _ _ _ n1 n2, ih']
    simp

/-- **write then load** (LF or CRLF line ends): the table read back is the table written, entry by entry. -/
theorem load_render (es : List Entry) (h : ∀ e ∈ es, EntryOK e) :
    load (render ['\n'] es) = some es ∧ load (render ['\r', '\n'] es) = some es := by
  unfold load lines
  have a := lines_render_lf es h []
  have b := lines_render_crlf es h []
  simp only [List.append_nil] at a b
  rw [a, b]
  simp [linesGo, mapM_parse es h]

/-- **the last line without its line end** (a file written by another tool): nothing is lost, not a character
    of the last user's hash -/
theorem load_render_noeol (es : List Entry) (e : Entry) (h : ∀ x ∈ es ++ [e], EntryOK x) :
    load (render ['\n'] es ++ lineText e) = some (es ++ [e]) := by
  unfold load lines
  have he : EntryOK e := h e (by simp)
  have ⟨n1, n2⟩ := lineText_noeol he
  rw [lines_render_lf es (fun x hx => h x (by simp [hx])) (lineText e),
      linesGo_end _ _ n1 n2 (by simpa using lineText_ne e)]
  have := mapM_parse (es ++ [e]) h
  simpa using this

/-- what `find` answers after loading is what it answers on the table written -/
theorem find_load (es : List Entry) (h : ∀ e ∈ es, EntryOK e) (realm user : Str) :
    (load (render ['\n'] es)).map (fun t => find t realm user) = some (find es realm user) := by
  rw [(load_render es h).1]; rfl

/-- a line with a field too many or too few refuses the whole file (ValueError), it is not skipped -/
example : load "a:r:1\nb:r\n".toList = none ∧ load "a:r:1\n\nb:r:2\n".toList = none ∧
          load "a:r:1\nb:r:2".toList = some [⟨"a".toList, "r".toList, "1".toList⟩, ⟨"b".toList, "r".toList, "2".toList⟩] := by
  decide

end Poor.PwFile
