import PoorModel.Route
/-
C19 - registering and removing handlers changes exactly what was asked.

The tables are association lists with python-dict update semantics.  The lemmas are
stated for every table state, so they hold after every call sequence; `lookup2` is the
specification view `(key, method bit) ↦ handler`.
-/
namespace Poor.Props.C19
open Poor Poor.Route

variable {κ ν : Type} [BEq κ] [LawfulBEq κ]

theorem dset_get (d : List (κ × ν)) (k : κ) (v : ν) : dget (dset d k v) k = some v := by
  unfold dset dget
  split
  · rename_i h
    induction d with
    | nil => simp at h
    | cons e t ih =>
      simp only [List.map_cons, List.lookup]
      by_cases he : e.1 == k
      · simp [he]
      · simp only [he, Bool.false_eq_true, if_false]
        have : (k == e.1) = false := by
          simp only [beq_eq_false_iff_ne, ne_eq]; intro hk; exact he (by simp [hk])
        simp only [this]
        apply ih
        simpa [he] using h
  · rename_i h
    induction d with
    | nil => simp [List.lookup]
    | cons e t ih =>
      simp only [List.any_cons, Bool.or_eq_true, not_or] at h
      have : (k == e.1) = false := by
        simp only [beq_eq_false_iff_ne, ne_eq]; intro hk; exact h.1 (by simp [hk])
      simp only [List.cons_append, List.lookup, this]
      exact ih h.2

theorem lookup_map_set (d : List (κ × ν)) (k k' : κ) (v : ν) (hk : k' ≠ k) :
    (d.map fun e => if e.1 == k then (k, v) else e).lookup k' = d.lookup k' := by
  have hne : (k' == k) = false := by simpa using hk
  induction d with
  | nil => rfl
  | cons e t ih =>
    simp only [List.map_cons, List.lookup]
    by_cases he : e.1 == k
    · have e1 : e.1 = k := by simpa using he
      simp only [he, if_true, hne]
      rw [← e1] at hne
      simp only [hne]
      exact ih
    · simp only [he, Bool.false_eq_true, if_false]
      cases hke : (k' == e.1) <;> simp only [hke]
      exact ih

theorem lookup_append_other (d : List (κ × ν)) (k k' : κ) (v : ν) (hk : k' ≠ k) :
    (d ++ [(k, v)]).lookup k' = d.lookup k' := by
  have hne : (k' == k) = false := by simpa using hk
  induction d with
  | nil => simp [List.lookup, hne]
  | cons e t ih =>
    simp only [List.cons_append, List.lookup]
    cases hke : (k' == e.1) <;> simp only [hke]
    exact ih

theorem dset_get_other (d : List (κ × ν)) (k k' : κ) (v : ν) (hk : k' ≠ k) :
    dget (dset d k v) k' = dget d k' := by
  unfold dset dget
  split
  · exact lookup_map_set d k k' v hk
  · exact lookup_append_other d k k' v hk

theorem ddel_get (d : List (κ × ν)) (k : κ) : dget (ddel d k) k = none := by
  unfold ddel dget
  induction d with
  | nil => rfl
  | cons e t ih =>
    simp only [List.filter_cons]
    by_cases he : e.1 == k
    · simp [he, ih]
    · have : (k == e.1) = false := by
        simp only [beq_eq_false_iff_ne, ne_eq]; intro hk; exact he (by simp [hk])
      simp [he, List.lookup, this, ih]

theorem ddel_get_other (d : List (κ × ν)) (k k' : κ) (hk : k' ≠ k) :
    dget (ddel d k) k' = dget d k' := by
  unfold ddel dget
  induction d with
  | nil => rfl
  | cons e t ih =>
    simp only [List.filter_cons]
    by_cases he : e.1 == k
    · have e1 : e.1 = k := by simpa using he
      have : (k' == e.1) = false := by rw [e1]; simpa using hk
      simp [he, List.lookup, this, ih]
    · simp only [he, Bool.not_false, if_true, List.lookup]
      cases hke : (k' == e.1) <;> simp only [hke]
      exact ih

/-- the specification view of a two-level table: `(key, method bit) ↦ value` -/
def lookup2 (d : List (κ × List (Nat × ν))) (k : κ) (b : Nat) : Option ν := (dget d k).bind (dget · b)

theorem foldl_dset_get (bits : List Nat) (inner : List (Nat × ν)) (x : ν) (b : Nat) :
    dget (bits.foldl (fun acc b' => dset acc b' x) inner) b = if b ∈ bits then some x else dget inner b := by
  induction bits generalizing inner with
  | nil => simp
  | cons c cs ih =>
    simp only [List.foldl_cons, ih, List.mem_cons]
    by_cases hb : b ∈ cs
    · simp [hb]
    · by_cases hc : b = c
      · subst hc; simp [hb, dset_get]
      · simp [hb, hc, dset_get_other _ _ _ _ hc]

/-- registration with a method mask sets exactly the selected method bits of that key -/
theorem fanOut_spec (d : List (κ × List (Nat × ν))) (k : κ) (mask : Nat) (x : ν) (b : Nat) :
    lookup2 (fanOut d k mask x) k b = if b ∈ bitsOf mask then some x else lookup2 d k b := by
  unfold lookup2 fanOut
  simp only [dset_get, Option.bind_some, foldl_dset_get]
  split
  · rfl
  · cases h : dget d k <;> simp [dget, List.lookup]

/-- ... and leaves every other key untouched -/
theorem fanOut_other_key (d : List (κ × List (Nat × ν))) (k k' : κ) (mask : Nat) (x : ν) (b : Nat)
    (hk : k' ≠ k) : lookup2 (fanOut d k mask x) k' b = lookup2 d k' b := by
  unfold lookup2 fanOut
  simp only [dset_get_other _ _ _ _ hk]

/-- a successful removal removes exactly `(k, bit)`: afterwards it is absent ... -/
theorem popInner_spec (d d' : List (κ × List (Nat × ν))) (k : κ) (bit : Nat) (drop : Bool)
    (h : popInner d k bit drop = .ok d') :
    lookup2 d' k bit = none ∧
    (∀ b, b ≠ bit → lookup2 d' k b = lookup2 d k b) ∧
    (∀ k' b, k' ≠ k → lookup2 d' k' b = lookup2 d k' b) := by
  unfold popInner at h
  simp only at h
  split at h
  · cases h
  · rename_i hany
    cases hd : dget d k with
    | none => simp [hd] at hany
    | some inner =>
      simp only [hd, Option.getD_some, Option.isSome_some, if_true] at h
      split at h
      · rename_i hempty
        simp only [Except.ok.injEq] at h; subst h
        have hie : ddel inner bit = [] := by
          simp only [Bool.and_eq_true] at hempty
          exact List.isEmpty_iff.mp hempty.1
        refine ⟨by simp [lookup2, ddel_get], ?_, ?_⟩
        · intro b hb
          simp only [lookup2, ddel_get, hd, Option.bind_none, Option.bind_some]
          have := ddel_get_other inner bit b hb
          rw [hie] at this
          simpa [dget, List.lookup] using this
        · intro k' b hk'
          simp only [lookup2, ddel_get_other _ _ _ hk']
      · simp only [Except.ok.injEq] at h; subst h
        refine ⟨by simp [lookup2, dset_get, ddel_get], ?_, ?_⟩
        · intro b hb
          simp [lookup2, dset_get, hd, ddel_get_other _ _ _ hb]
        · intro k' b hk'
          simp only [lookup2, dset_get_other _ _ _ _ hk']

theorem lookup_none_any (inner : List (Nat × ν)) (bit : Nat) (h : inner.lookup bit = none) :
    inner.any (fun e => e.1 == bit) = false := by
  induction inner with
  | nil => rfl
  | cons e t ih =>
    simp only [List.lookup] at h
    cases hb : (bit == e.1) with
    | true => simp [hb] at h
    | false =>
      simp only [hb] at h
      have : (e.1 == bit) = false := by
        simp only [beq_eq_false_iff_ne, ne_eq] at hb ⊢; exact fun x => hb x.symm
      simp [this, ih h]

/-- ... and removing something absent raises KeyError and changes nothing -/
theorem popInner_absent (d : List (κ × List (Nat × ν))) (k : κ) (bit : Nat) (drop : Bool)
    (h : lookup2 d k bit = none) : popInner d k bit drop = .error .keyError := by
  unfold popInner
  simp only
  have : ((dget d k).getD []).any (fun e => e.1 == bit) = false := by
    unfold lookup2 at h
    cases hd : dget d k with
    | none => simp
    | some inner =>
      simp only [hd, Option.bind_some] at h
      simp only [Option.getD_some]
      exact lookup_none_any inner bit h
  simp [this]

/-- hooks: a hook cannot be registered twice; removing an unregistered hook raises -/
theorem addHook_spec (l : List Nat) (f : Nat) :
    (f ∈ l → addHook l f = .error .valueError) ∧ (f ∉ l → addHook l f = .ok (l ++ [f])) := by
  unfold addHook
  constructor <;> intro h <;> simp [h]

theorem popHook_spec (l : List Nat) (f : Nat) :
    (f ∉ l → popHook l f = .error .valueError) ∧ (f ∈ l → popHook l f = .ok (l.erase f)) := by
  unfold popHook
  constructor <;> intro h <;> simp [h]

/-- after any sequence of add/pop calls a hook list has no duplicates -/
theorem hooks_no_duplicates (ops : List (Bool × Nat)) :
    ∀ l : List Nat, l.Nodup →
      (ops.foldl (fun acc (op : Bool × Nat) =>
        match (if op.1 then addHook acc op.2 else popHook acc op.2) with
        | .ok l' => l'
        | .error _ => acc) l).Nodup := by
  induction ops with
  | nil => intro l h; exact h
  | cons op rest ih =>
    intro l h
    simp only [List.foldl_cons]
    apply ih
    cases hop : op.1
    · simp only [hop, Bool.false_eq_true, if_false]
      unfold popHook
      split
      · rename_i heq; split at heq
        · cases heq; exact h.erase _
        · cases heq
      · exact h
    · simp only [hop, if_true]
      unfold addHook
      split
      · rename_i heq; split at heq
        · cases heq
        · rename_i hn
          cases heq
          rw [List.nodup_append]
          refine ⟨h, by simp, ?_⟩
          intro a ha b hb
          simp only [List.mem_singleton] at hb
          subst hb
          intro hab; subst hab
          simp at hn; exact hn ha
      · exact h

theorem selectRegex_not_static (bit : Nat) (path : Str) (l : List (Str × List (Nat × RH))) (s : Sel)
    (h : selectRegex bit path l = .ok (some s)) : ∀ fn, s ≠ .static fn := by
  induction l with
  | nil => simp [selectRegex] at h
  | cons e rest ih =>
    obtain ⟨pat, inner⟩ := e
    simp only [selectRegex] at h
    split at h
    · cases h
    · exact ih h
    · split at h
      · exact ih h
      · split at h <;> (simp only [Except.ok.injEq, Option.some.injEq] at h; subst h; intro fn hc; cases hc)

/-- something removed is no longer dispatched: after `pop_route(path, bit)` the static
    table no longer selects a handler for that path and method -/
theorem popRoute_not_selected (r r' : Reg) (uri : Str) (bit : Nat) (hg : hasGroup uri = false)
    (h : popRoute r uri bit = .ok r') (env : Env) : ∀ fn, select r' env bit uri ≠ .static fn := by
  unfold popRoute at h
  simp only [hg, Bool.false_eq_true, if_false] at h
  cases hp : popInner r.handlers uri bit true with
  | error e => simp [hp, Except.map] at h
  | ok t =>
    simp only [hp, Except.map, Except.ok.injEq] at h
    subst h
    have hs := (popInner_spec r.handlers t uri bit true hp).1
    intro fn hsel
    unfold select at hsel
    simp only at hsel
    unfold lookup2 at hs
    cases hd : dget t uri with
    | none =>
      simp only [hd] at hsel
      cases hr : selectRegex bit uri r.rhandlers with
      | error u => simp [hr] at hsel
      | ok o =>
        cases o with
        | some s => simp only [hr] at hsel; exact selectRegex_not_static _ _ _ _ hr fn hsel
        | none =>
          simp only [hr] at hsel
          unfold selectDefault at hsel
          repeat' split at hsel
          all_goals cases hsel
    | some inner =>
      simp only [hd, Option.bind_some] at hs
      simp [hd, hs] at hsel

/-- registering a default handler touches nothing but the default table -/
theorem setDefault_only_defaults (r : Reg) (fn mask : Nat) :
    (setDefault r fn mask).handlers = r.handlers ∧ (setDefault r fn mask).rhandlers = r.rhandlers ∧
    (setDefault r fn mask).shandlers = r.shandlers ∧ (setDefault r fn mask).ehandlers = r.ehandlers ∧
    (setDefault r fn mask).before = r.before ∧ (setDefault r fn mask).after = r.after ∧
    (setDefault r fn mask).filters = r.filters := ⟨rfl, rfl, rfl, rfl, rfl, rfl, rfl⟩

/-! ### key order of the tables (registration order) -/

/-- the keys of a table, in table order -/
def keys (d : List (κ × ν)) : List κ := d.map (·.1)

/-- python `d[k] = v` keeps the position of an existing key and appends a new one -/
theorem dset_keys (d : List (κ × ν)) (k : κ) (v : ν) :
    keys (dset d k v) = if k ∈ keys d then keys d else keys d ++ [k] := by
  unfold dset keys
  by_cases h : d.any (fun e => e.1 == k) = true
  · have hk : k ∈ d.map (·.1) := by
      simp only [List.any_eq_true, beq_iff_eq] at h
      obtain ⟨e, he, rfl⟩ := h
      exact List.mem_map.2 ⟨e, he, rfl⟩
    rw [if_pos h, if_pos hk, List.map_map]
    apply List.map_congr_left
    intro e _
    simp only [Function.comp]
    split
    · rename_i he; exact (beq_iff_eq.1 he).symm
    · rfl
  · have hk : k ∉ d.map (·.1) := by
      intro hm
      obtain ⟨e, he, rfl⟩ := List.mem_map.1 hm
      exact h (List.any_eq_true.2 ⟨e, he, by simp⟩)
    rw [if_neg h, if_neg hk]
    simp

theorem fanOut_keys (d : List (κ × List (Nat × ν))) (k : κ) (mask : Nat) (x : ν) :
    keys (fanOut d k mask x) = if k ∈ keys d then keys d else keys d ++ [k] := by
  unfold fanOut
  exact dset_keys _ _ _

/-- a table never holds a key twice -/
theorem fanOut_nodup (d : List (κ × List (Nat × ν))) (k : κ) (mask : Nat) (x : ν) (h : (keys d).Nodup) :
    (keys (fanOut d k mask x)).Nodup := by
  rw [fanOut_keys]
  split
  · exact h
  · rename_i hk
    exact List.nodup_append.2 ⟨h, by simp, by intro a ha b hb; simp at hb; subst hb; intro e; exact hk (e ▸ ha)⟩

/-- the entry found at a key's position is the one `lookup2` reads -/
theorem lookup2_at (pre post : List (κ × List (Nat × ν))) (k : κ) (inner : List (Nat × ν)) (b : Nat)
    (h : k ∉ keys pre) : lookup2 (pre ++ (k, inner) :: post) k b = dget inner b := by
  unfold lookup2 dget
  have : (pre ++ (k, inner) :: post).lookup k = some inner := by
    induction pre with
    | nil => simp [List.lookup]
    | cons e t ih =>
      have hne : ¬ e.1 = k := by intro he; exact h (by simp [keys, he])
      have ht : k ∉ keys t := by intro hm; exact h (by simp [keys] at hm ⊢; exact Or.inr hm)
      obtain ⟨a, v⟩ := e
      simp only [List.cons_append, List.lookup]
      have : (k == a) = false := by
        simp only [beq_eq_false_iff_ne, ne_eq]; intro e; exact hne e.symm
      rw [this]
      exact ih ht
  rw [this]
  rfl


/-! ### non-vacuity -/

/-- non-vacuity of the table specifications: register for GET and POST, remove POST -/
example : lookup2 (fanOut ([] : List (Str × List (Nat × Nat))) "/a".toList 6 7) "/a".toList 4 = some 7 := by decide

example : (popInner (fanOut ([] : List (Str × List (Nat × Nat))) "/a".toList 6 7) "/a".toList 4 true).toOption.map
    (fun d => (lookup2 d "/a".toList 4, lookup2 d "/a".toList 2)) = some (none, some 7) := by decide

end Poor.Props.C19
