import PoorProofs.Lemmas.Range
/-
C07 - byte-range answers follow RFC 9110 for every range and representation.
Statements only (helper lemmas live in PoorProofs/Lemmas/Range.lean).
-/
namespace Poor.Props.C07
open Poor Poor.Range

/-- RFC 9110 14.1.2, written declaratively: the selected inclusive window of a
    representation of length `L`, or `none` when the range is unsatisfiable -/
def rfc (L : Nat) : RangeT → Option (Nat × Nat)
  | (none, some n) => if n = 0 ∨ L = 0 then none else some (L - min L n, L - 1)
  | (some f, none) => if f ≥ L then none else some (f, L - 1)
  | (some f, some l) => if f ≥ L then none else some (f, min l (L - 1))
  | (none, none) => none

/-- a syntactically valid single byte range: `first-last` with first ≤ last, `first-`, `-suffix` -/
def ValidRange : RangeT → Prop
  | (some f, some l) => f ≤ l
  | (none, none) => False
  | _ => True

instance : DecidablePred ValidRange := fun r => by
  unfold ValidRange; split <;> infer_instance

/-- the bytes a representation stands for -/
def content : Rep → Bytes
  | .buffer d => d
  | .file c pos _ _ => c.drop pos
  | .gen cs _ => cs.flatten

/-- representations whose length the framework knows -/
def KnownLength : Rep → Prop
  | .buffer _ => True
  | .file c pos seekable sized => seekable = true ∧ sized = true ∧ pos ≤ c.length
  | .gen cs d => d = cs.flatten.length

/-- what RFC 9110 demands for a single range `r` over the bytes `b` -/
def expected (b : Bytes) (r : RangeT) : Out :=
  match rfc b.length r with
  | some (f, l) =>
    { status := 206
      contentRange := some ("bytes " ++ toString f ++ "-" ++ toString l ++ "/" ++ toString b.length)
      contentLength := some (l - f + 1)
      body := (b.drop f).take (l - f + 1) }
  | none =>
    { status := 416
      contentRange := some ("bytes " ++ showOpt r.1 ++ "-" ++ showOpt r.2 ++ "/" ++ toString b.length)
      contentLength := none
      body := [] }

theorem rfc_bounds {L : Nat} {r : RangeT} {f l : Nat} (hv : ValidRange r)
    (h : rfc L r = some (f, l)) : f ≤ l ∧ l < L := by
  obtain ⟨a, b⟩ := r
  cases a <;> cases b <;> simp [rfc, ValidRange] at h hv
  · rename_i n; obtain ⟨⟨h1, h2⟩, h3, h4⟩ := h; omega
  · rename_i f'; obtain ⟨h1, h2, h3⟩ := h; omega
  · rename_i f' l'; obtain ⟨h1, h2, h3⟩ := h; omega

/-- the selected slice really has the advertised length -/
theorem expected_length (b : Bytes) (r : RangeT) (hv : ValidRange r) {f l : Nat}
    (h : rfc b.length r = some (f, l)) :
    ((b.drop f).take (l - f + 1)).length = l - f + 1 := by
  have := rfc_bounds hv h
  simp [List.length_take, List.length_drop]; omega

/-- the chunk skipper equals the slice for every chunking -/
theorem rangeGen_spec (start l : Nat) (cs : List Bytes) :
    (rangeGen start (some l) 0 cs).flatten = ((cs.flatten).take (l + 1)).drop start :=
  rangeGen_some start l cs 0

/-- the window arithmetic agrees with RFC 9110 for every length and every valid range -/
theorem window_spec (L : Nat) (r : RangeT) (hv : ValidRange r) :
    window L [r] = match rfc L r with
      | some (f, l) => .part f l
      | none => .unsat := by
  obtain ⟨a, b⟩ := r
  cases a <;> cases b <;> simp only [ValidRange] at hv
  · rename_i n
    simp only [window, rfc, decide206]
    by_cases h0 : n = 0 ∨ L = 0
    · rw [if_pos h0, if_neg]
      intro ⟨h1, h2⟩
      rcases h0 with h0 | h0
      · subst h0; simp at h2; omega
      · exact h1 h0
    · rw [if_neg h0, if_pos]
      · simp only [Win.part.injEq]
        constructor <;> omega
      · constructor <;> omega
  · rename_i f
    simp only [window, rfc, decide206]
    by_cases h0 : f ≥ L
    · rw [if_pos h0, if_neg]; intro ⟨h1, h2⟩; omega
    · rw [if_neg h0, if_pos]
      · simp only [Win.part.injEq]; constructor <;> omega
      · constructor <;> omega
  · rename_i f l
    simp only [window, rfc, decide206]
    by_cases h0 : f ≥ L
    · rw [if_pos h0]; split <;> (rw [if_neg]; intro ⟨h1, h2⟩; omega)
    · rw [if_neg h0]
      split
      · rw [if_pos]
        · simp only [Win.part.injEq]; constructor <;> omega
        · constructor <;> omega
      · rw [if_pos]
        · simp only [Win.part.injEq]; constructor <;> omega
        · constructor <;> omega

theorem makePartial_single (r : RangeT) (hv : ValidRange r) : makePartial [r] = [r] := by
  obtain ⟨a, b⟩ := r
  cases a <;> cases b <;> simp [makePartial, ValidRange] at hv ⊢
  omega

/-- body of a known-length representation under a window = slice of its content -/
theorem body_part (rep : Rep) (hk : KnownLength rep) (f l : Nat) (hfl : f ≤ l) :
    rep.body f (some l) = ((content rep).drop f).take (l - f + 1) := by
  cases rep with
  | buffer d => simp [Rep.body, content]
  | file c pos seekable sized =>
    obtain ⟨h1, h2, _⟩ := hk; subst h1
    simp [Rep.body, content, List.drop_drop, Nat.add_comm]
  | gen cs d =>
    simp only [Rep.body, content, rangeGen_spec]
    rw [List.drop_take]
    congr 1; omega

theorem body_full (rep : Rep) (hk : KnownLength rep) : rep.body 0 none = content rep := by
  cases rep with
  | buffer d => simp [Rep.body, content]
  | file c pos seekable sized =>
    obtain ⟨h1, h2, _⟩ := hk; subst h1
    simp [Rep.body, content]
  | gen cs d => simp [Rep.body, content, rangeGen_none]

theorem length_eq (rep : Rep) (hk : KnownLength rep) : rep.length = (content rep).length := by
  cases rep with
  | buffer d => rfl
  | file c pos seekable sized =>
    obtain ⟨h1, h2, _⟩ := hk; subst h1; subst h2
    simp [Rep.length, content]
  | gen cs d => exact hk


/-- **C07, single range.** For every known-length representation (buffer, seekable
    file at any offset, chunk generator under every chunking) and every valid single
    range, the emitted answer is exactly what RFC 9110 demands: 206 + the slice +
    `bytes f-l/L` + matching Content-Length, or 416. -/
theorem C07_single (rep : Rep) (hk : KnownLength rep) (r : RangeT) (hv : ValidRange r) :
    respond rep [r] = some (expected (content rep) r) := by
  have hw := window_spec rep.length r hv
  have hl := length_eq rep hk
  simp only [respond, makePartial_single r hv, hw, expected, ← hl]
  cases hr : rfc rep.length r with
  | none => simp [renderCR]
  | some p =>
    obtain ⟨f, l⟩ := p
    have hb := rfc_bounds hv hr
    simp [renderCR, body_part rep hk f l hb.1, String.append_assoc]

theorem C07_buffer (d : Bytes) (r : RangeT) (hv : ValidRange r) :
    respond (.buffer d) [r] = some (expected d r) :=
  C07_single (.buffer d) trivial r hv

theorem C07_file (c : Bytes) (pos : Nat) (hp : pos ≤ c.length) (r : RangeT) (hv : ValidRange r) :
    respond (.file c pos true true) [r] = some (expected (c.drop pos) r) :=
  C07_single (.file c pos true true) ⟨rfl, rfl, hp⟩ r hv

theorem C07_generator (cs : List Bytes) (r : RangeT) (hv : ValidRange r) :
    respond (.gen cs cs.flatten.length) [r] = some (expected cs.flatten r) :=
  C07_single (.gen cs cs.flatten.length) rfl r hv

/-- without a range: 200 and the complete body; Content-Length whenever the body is non-empty -/
theorem C07_no_range (rep : Rep) (hk : KnownLength rep) :
    respond rep [] = some { status := 200, contentRange := none,
                            contentLength := if (content rep).length = 0 then none
                                             else some (content rep).length,
                            body := content rep } := by
  simp [respond, makePartial, window, body_full rep hk, length_eq rep hk]

/-- one step of `make_partial`'s loop -/
def mpStep (acc : List RangeT) (r : RangeT) : List RangeT :=
  match r with
  | (some s, some e) => if e < s then acc else if acc.contains r then acc else acc ++ [r]
  | _ => if acc.contains r then acc else acc ++ [r]

theorem mpStep_head (r : RangeT) (t : List RangeT) (x : RangeT) :
    ∃ t', mpStep (r :: t) x = r :: t' := by
  unfold mpStep
  split
  · split
    · exact ⟨t, rfl⟩
    · split
      · exact ⟨t, rfl⟩
      · exact ⟨t ++ [_], rfl⟩
  · split
    · exact ⟨t, rfl⟩
    · exact ⟨t ++ [x], rfl⟩

theorem foldl_head (r : RangeT) (rs : List RangeT) : ∀ t, ∃ t', rs.foldl mpStep (r :: t) = r :: t' := by
  induction rs with
  | nil => intro t; exact ⟨t, rfl⟩
  | cons x xs ih =>
    intro t
    obtain ⟨t1, h1⟩ := mpStep_head r t x
    simp only [List.foldl_cons, h1]
    exact ih t1

theorem makePartial_head (r : RangeT) (hv : ValidRange r) (rs : List RangeT) :
    ∃ t, makePartial (r :: rs) = r :: t := by
  have h0 : makePartial (r :: rs) = rs.foldl mpStep (mpStep [] r) := rfl
  have h1 : mpStep [] r = [r] := by
    obtain ⟨a, b⟩ := r
    cases a <;> cases b <;> simp [mpStep, ValidRange] at hv ⊢
    omega
  rw [h0, h1]
  exact foldl_head r rs []

/-- several ranges: only the first (valid) one is used -/
theorem C07_first_range_only (rep : Rep) (r : RangeT) (hv : ValidRange r) (rs : List RangeT) :
    respond rep (r :: rs) = respond rep [r] := by
  obtain ⟨t, ht⟩ := makePartial_head r hv rs
  simp only [respond, ht, makePartial_single r hv]
  obtain ⟨a, b⟩ := r
  rfl

/-- **C07 (full statement).** -/
def C07_full : Prop :=
  (∀ rep, KnownLength rep → ∀ r, ValidRange r → ∀ rs,
      respond rep (r :: rs) = some (expected (content rep) r)) ∧
  (∀ rep, KnownLength rep →
      respond rep [] = some { status := 200, contentRange := none,
                              contentLength := if (content rep).length = 0 then none
                                               else some (content rep).length,
                              body := content rep }) ∧
  (∀ (b : Bytes) r f l, ValidRange r → rfc b.length r = some (f, l) →
      f ≤ l ∧ l < b.length ∧ ((b.drop f).take (l - f + 1)).length = l - f + 1)

theorem C07 : C07_full :=
  ⟨fun rep hk r hv rs => by rw [C07_first_range_only rep r hv rs]; exact C07_single rep hk r hv,
   C07_no_range,
   fun b r f l hv h => ⟨(rfc_bounds hv h).1, (rfc_bounds hv h).2, expected_length b r hv h⟩⟩

/-! ### non-vacuity: concrete instances of the hypotheses and of every branch -/
example : KnownLength (.gen [[1, 2], [], [3]] 3) ∧ ValidRange (some 1, some 1) := by
  simp [KnownLength, ValidRange]
example : respond (.buffer [10, 11, 12, 13]) [(some 0, some 0)]
    = some ⟨206, some "bytes 0-0/4", some 1, [10]⟩ := by decide
example : respond (.gen [[10], [], [11, 12], [13]] 4) [(none, some 3), (some 0, some 0)]
    = some ⟨206, some "bytes 1-3/4", some 3, [11, 12, 13]⟩ := by decide
example : respond (.file [9, 9, 10, 11, 12] 2 true true) [(some 1, none)]
    = some ⟨206, some "bytes 1-2/3", some 2, [11, 12]⟩ := by decide
example : (respond (.buffer [10, 11]) [(some 2, some 5)]).map (·.status) = some 416 := by decide

end Poor.Props.C07
