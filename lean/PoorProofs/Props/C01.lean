import PoorProofs.Props.C04
import PoorProofs.Lemmas.Wsgi
import PoorProofs.Props.C14
import PoorProofs.Props.C15
import PoorModel.Gen.Reasons
/-
C01 - every request gets exactly one well-formed WSGI answer.

The model's `run` is a total function into `answered (one start_response call) | silent`:
every exception path of `__request__` is consumed by an `except` clause of the model, as
it is in the (repaired) source; the correspondence run ties that structure to wsgi.py.
The theorems below add what the types do not give: well-formedness of what is emitted and
the exact reasons for a silent return.
-/
namespace Poor.Props.C01
open Poor Poor.Response Poor.Wsgi Poor.Headers

/-- applications as the framework builds them: reason table and built-in pages from the source -/
def Std (app : App) : Prop :=
  app.reasons = Gen.Reasons.table ∧ app.builtinPages = Gen.Reasons.builtinPages

/-- every built-in page status has a reason phrase; so have 200, 204, 304 -/
theorem pages_have_reasons :
    ∀ c ∈ (200 :: 204 :: 304 :: 500 :: 501 :: Gen.Reasons.builtinPages),
      knownStatus Gen.Reasons.table c = true := by decide

/-- every status of the reason table is a three-digit number with a non-empty reason phrase -/
theorem reasons_wellformed :
    ∀ e ∈ Gen.Reasons.table, 100 ≤ e.1 ∧ e.1 ≤ 999 ∧ e.2 ≠ "" := by decide

def Latin1 (s : Str) : Prop := ∀ c ∈ s, c.toNat < 256
def GoodHs (h : Hs) : Prop := ∀ kv ∈ h, Latin1 kv.1 ∧ Latin1 kv.2

/-- a well-formed response object: a status its constructor accepts, latin-1 headers -/
def Good (r : Resp) : Prop := knownStatus Gen.Reasons.table r.status = true ∧ GoodHs r.headers

def GoodVal : Val → Prop
  | .resp r => Good r
  | .tuple _ items => ∀ it ∈ items, match it with
      | .hdrs (.pairs h) => GoodHs h
      | _ => True
  | _ => True

def GoodExc : Exc → Prop
  | .httpResp r => Good r
  | _ => True

theorem latin1_of_ascii (s : String) (h : s.toList.all (fun c => c.toNat < 256) = true) : Latin1 s.toList := by
  intro c hc
  have := List.all_eq_true.mp h c hc
  simpa using this

theorem good_xPoweredBy : GoodHs xPoweredBy := by
  intro kv hkv
  simp only [xPoweredBy, List.mem_singleton] at hkv
  subst hkv
  exact ⟨latin1_of_ascii _ (by decide), latin1_of_ascii _ (by decide)⟩

theorem goodHs_append {a b : Hs} (ha : GoodHs a) (hb : GoodHs b) : GoodHs (a ++ b) := by
  intro kv hkv
  rcases List.mem_append.mp hkv with h | h
  · exact ha kv h
  · exact hb kv h

theorem goodHs_single (k v : Str) (hk : Latin1 k) (hv : Latin1 v) : GoodHs [(k, v)] := by
  intro kv hkv
  simp only [List.mem_singleton] at hkv
  subst hkv; exact ⟨hk, hv⟩

theorem goodHs_ite {c : Bool} {a : Hs} {x : Str × Str} (ha : GoodHs a) (hx : GoodHs [x]) :
    GoodHs (if c = true then a ++ [x] else a) := by
  split
  · exact goodHs_append ha hx
  · exact ha

theorem latin1_iso (s : Str) : Latin1 (iso s) := by
  intro c hc
  simp only [iso, latin1dec, List.mem_map] at hc
  obtain ⟨b, _, rfl⟩ := hc
  rw [C14.toNat_ofNat_small _ b.toNat_lt]
  exact b.toNat_lt

theorem latin1_natStr (n : Nat) : Latin1 (natStr n) := by
  intro c hc
  have : c ∈ Nat.toDigits 10 n := by
    have h := @Nat.toList_repr n
    simp only [natStr] at hc
    rw [show toString n = n.repr from rfl, h] at hc
    exact hc
  have hd := Nat.isDigit_of_mem_toDigits (by decide) (by decide) this
  have := Char.isDigit_iff_toNat.mp hd
  have h9 : '9'.toNat = 57 := by decide
  omega

theorem good_made (d : Val) (ct : Option Str) (hd : HdrArg) (st : Nat) (r : Resp)
    (hh : match hd with | .pairs h => GoodHs h | _ => True)
    (h : makeResponse Gen.Reasons.table d ct hd st = some r) : Good r := by
  unfold makeResponse at h
  split at h
  · cases h
  · rename_i hks
    simp only [Bool.not_eq_true, Bool.not_eq_false] at hks
    have hh0 : ∀ hs, initHeaders hd = some hs → GoodHs hs := by
      intro hs hi
      cases hd with
      | none => simp [initHeaders] at hi; subst hi; exact good_xPoweredBy
      | pairs p => simp [initHeaders] at hi; subst hi; exact hh
      | bad => simp [initHeaders] at hi
    split at h
    · cases h
    · rename_i hs hi
      have hg := hh0 hs hi
      split at h <;> first | cases h | (simp only [Option.some.injEq] at h; subst h)
      all_goals first
        | exact ⟨by simpa using hks, hg⟩
        | (refine ⟨?_, hg⟩
           simp only
           split
           · exact pages_have_reasons 204 (by simp)
           · simpa using hks)

theorem closure_good (app : App) (hs : Std app) : Closure app Good GoodVal GoodExc where
  page := by
    intro c hc
    refine ⟨?_, good_xPoweredBy⟩
    simp only [pageResp]
    rcases hc with rfl | rfl | hc
    · exact pages_have_reasons 500 (by simp)
    · exact pages_have_reasons 501 (by simp)
    · rw [hs.2] at hc
      exact pages_have_reasons c (by simp [List.contains_iff_mem] at hc; simp [hc])
  page401 := by
    refine ⟨pages_have_reasons 401 (by decide), ?_⟩
    exact goodHs_single _ _ (latin1_of_ascii _ (by decide)) (latin1_of_ascii _ (by decide))
  notMod := by
    refine ⟨pages_have_reasons 304 (by simp), goodHs_append good_xPoweredBy ?_⟩
    exact goodHs_single _ _ (latin1_of_ascii _ (by decide)) (latin1_of_ascii _ (by decide))
  coerced := by
    intro v r hv h
    rw [hs.1] at h
    unfold toResponse at h
    split at h
    · simp only [Coerced.ok.injEq] at h; subst h; exact hv
    · rename_i data rest
      split at h
      · cases h
      · simp only at h
        split at h
        · cases h
        · rename_i st d _ _
          split at h
          · rename_i r' hm
            simp only [Coerced.ok.injEq] at h; subst h
            refine good_made _ _ _ _ _ ?_ hm
            split
            · rename_i h1 heq
              split at heq
              · cases heq
              · rename_i hh heq2
                cases heq
                have : TupItem.hdrs (.pairs h1) ∈ rest := List.mem_of_getElem? heq2
                exact hv _ this
              · cases heq
            · trivial
          · cases h
        · cases h
    · rename_i v' _ _
      split at h
      · rename_i r' hm
        simp only [Coerced.ok.injEq] at h; subst h
        exact good_made _ _ _ _ _ trivial hm
      · cases h
  excMade := by
    intro e r he h
    unfold excMakeResponse at h
    split at h
    · simp only [Option.some.injEq] at h; subst h; exact he
    · simp only [Option.some.injEq] at h; subst h
      exact ⟨pages_have_reasons 200 (by simp), by intro kv hkv; cases hkv⟩
    · simp only [Option.some.injEq] at h; subst h
      exact ⟨pages_have_reasons 204 (by simp), good_xPoweredBy⟩
    · cases h
  builtin := by
    intro route
    cases route <;> simp only [builtinVal, GoodVal]
    · refine ⟨pages_have_reasons 200 (by simp), goodHs_append good_xPoweredBy ?_⟩
      intro kv hkv
      simp only [List.mem_cons, List.mem_nil_iff, or_false] at hkv
      rcases hkv with rfl | rfl <;>
        exact ⟨latin1_of_ascii _ (by decide), latin1_of_ascii _ (by decide)⟩
    · intro it hit
      simp only [List.mem_cons, List.mem_nil_iff, or_false] at hit
      rcases hit with rfl | rfl
      · trivial
      · exact goodHs_single _ _ (latin1_of_ascii _ (by decide)) (latin1_of_ascii _ (by decide))
  noneOK := trivial
  framework := ⟨trivial, trivial, trivial, trivial, trivial⟩


/-- every value the program hands back / every exception it raises carries well-formed responses -/
def GoodProg (p : Prog) : Prop := ProgOK GoodVal GoodExc p
def GoodPost (post : AfterProg) : Prop := PostOK GoodVal GoodExc post

theorem emit_good (r : Resp) (hr : Good r) (e : Emitted) (h : emit Gen.Reasons.table r = some e) :
    Gen.Reasons.table.lookup e.status = some e.reason ∧ GoodHs e.headers := by
  obtain ⟨hk, hh⟩ := hr
  have hreason : Gen.Reasons.table.lookup r.status = some ((Gen.Reasons.table.lookup r.status).getD "") := by
    unfold knownStatus at hk
    cases hl : Gen.Reasons.table.lookup r.status with
    | none => rw [hl] at hk; cases hk
    | some x => rfl
  unfold emit at h
  simp only at h
  split at h
  · cases h
  · simp only [Option.some.injEq] at h; subst h; exact ⟨hreason, hh⟩
  · split at h
    · simp only [Option.some.injEq] at h; subst h; exact ⟨hreason, hh⟩
    · simp only [Option.some.injEq] at h; subst h
      refine ⟨hreason, ?_⟩
      simp only
      apply goodHs_ite
      · apply goodHs_ite hh
        exact goodHs_single _ _ (latin1_of_ascii "Content-Type" (by decide)) (latin1_iso _)
      · exact goodHs_single _ _ (latin1_of_ascii "Content-Length" (by decide)) (latin1_natStr _)

/-- **well-formed answer.** For every configuration, every program whose response objects
    are well-formed, every construction outcome and every dispatch exit: if the server
    gets an answer, its status is in the reason table with exactly that reason phrase
    (a three-digit code and a non-empty reason) and every header name and value is latin-1. -/
theorem C01_wellformed (app : App) (hs : Std app) (p : Prog) (hp : GoodProg p)
    (post : AfterProg) (hpost : GoodPost post)
    (ctor : Option Exc) (hc : ∀ e, ctor = some e → GoodExc e) (route : Route)
    (t : Trace) (e : Emitted) (h : run app p post ctor route = (t, .answered e)) :
    Gen.Reasons.table.lookup e.status = some e.reason ∧
    100 ≤ e.status ∧ e.status ≤ 999 ∧ e.reason ≠ "" ∧ GoodHs e.headers := by
  unfold run at h
  split at h
  · simp at h
  · rename_i t1 r hr
    have hg := respond_P (closure_good app hs) hp post hpost ctor hc route t1 r hr
    rw [hs.1] at h
    split at h
    · simp at h
    · rename_i e' he
      simp only [Prod.mk.injEq, Outcome.answered.injEq] at h
      obtain ⟨_, rfl⟩ := h
      obtain ⟨h1, h2⟩ := emit_good r hg _ he
      have hmem : (e'.status, e'.reason) ∈ Gen.Reasons.table := C15.lookup_mem' h1
      obtain ⟨a, b, c⟩ := reasons_wellformed _ hmem
      exact ⟨h1, a, b, c, h2⟩

/-! ### silent returns -/

def NotDeclined (r : Resp) : Prop := r.cls ≠ .declined

def QuietVal : Val → Prop
  | .resp r => NotDeclined r
  | _ => True

/-- the exception neither declines the request nor is a connection-level error -/
def QuietExc : Exc → Prop
  | .httpResp r => NotDeclined r
  | .http 0 _ _ => False
  | .conn | .sysExit => False
  | _ => True

theorem made_notDeclined (reasons : List (Nat × String)) (d : Val) (ct : Option Str) (hd : HdrArg)
    (st : Nat) (r : Resp) (h : makeResponse reasons d ct hd st = some r) : NotDeclined r := by
  unfold makeResponse at h
  split at h
  · cases h
  · split at h
    · cases h
    · split at h <;> first | (simp only [Option.some.injEq] at h; subst h; simp [NotDeclined]) | cases h

theorem closure_quiet (app : App) : Closure app NotDeclined QuietVal QuietExc where
  page := by intro c _; simp [NotDeclined, pageResp]
  page401 := by simp [NotDeclined, pageResp]
  notMod := by simp [NotDeclined, notModifiedResp]
  coerced := by
    intro v r hv h
    unfold toResponse at h
    split at h
    · simp only [Coerced.ok.injEq] at h; subst h; exact hv
    · split at h
      · cases h
      · simp only at h
        split at h
        · cases h
        · split at h
          · rename_i r' hm
            simp only [Coerced.ok.injEq] at h; subst h
            exact made_notDeclined _ _ _ _ _ _ hm
          · cases h
        · cases h
    · split at h
      · rename_i r' hm
        simp only [Coerced.ok.injEq] at h; subst h
        exact made_notDeclined _ _ _ _ _ _ hm
      · cases h
  excMade := by
    intro e r he h
    unfold excMakeResponse at h
    split at h
    · simp only [Option.some.injEq] at h; subst h; exact he
    · exact absurd he (by simp [QuietExc])
    · simp only [Option.some.injEq] at h; subst h; simp [NotDeclined]
    · cases h
  builtin := by intro route; cases route <;> simp [builtinVal, QuietVal, NotDeclined]
  noneOK := trivial
  framework := ⟨trivial, trivial, trivial, trivial, trivial⟩

theorem emit_some (reasons : List (Nat × String)) (r : Resp) (h : NotDeclined r) :
    ∃ e, emit reasons r = some e := by
  obtain ⟨cls, st, hs, ct, body, clen⟩ := r
  cases cls
  · simp only [emit]; split <;> exact ⟨_, rfl⟩
  · exact ⟨_, rfl⟩
  · exact absurd rfl h

theorem ladder_some (app : App) (p : Prog) (t : Trace) (e : Exc) (he : QuietExc e) :
    ∃ t' r, ladder app p t e = (t', some r) := by
  unfold ladder
  cases e with
  | http code kw nr =>
    simp only
    split
    · exact ⟨_, _, rfl⟩
    · exact ⟨_, _, rfl⟩
  | httpResp r => exact ⟨_, _, rfl⟩
  | conn => exact absurd he (by simp [QuietExc])
  | sysExit => exact absurd he (by simp [QuietExc])
  | respErr => exact ⟨_, _, rfl⟩
  | other c => exact ⟨_, _, rfl⟩
  | base => exact ⟨_, _, rfl⟩

/-- **silent only for the documented reasons.** If no callable declines the request
    (abort(0), a Declined response) and none raises a connection-level error
    (ConnectionError, SystemExit), and request construction does neither, then the server
    always receives an answer: `start_response` is called exactly once. -/
theorem C01_silent_reason (app : App) (p : Prog) (hp : ProgOK QuietVal QuietExc p)
    (post : AfterProg) (hpost : PostOK QuietVal QuietExc post)
    (ctor : Option Exc) (hc : ∀ e, ctor = some e → QuietExc e) (route : Route) :
    ∃ t e, run app p post ctor route = (t, .answered e) := by
  have C := closure_quiet app
  have hpre : ∃ t r, preAfter app p ctor route = (t, some r) := by
    unfold preAfter
    split
    · exact ⟨_, _, rfl⟩
    · rename_i t0 e hph
      have he := phase1_err C hp ctor hc route t0 e hph
      exact ladder_some app p t0 e he
  have hsome : ∃ t r, respond app p post ctor route = (t, some r) := by
    obtain ⟨t0, r0, h0⟩ := hpre
    unfold respond
    rw [h0]
    exact ⟨_, _, rfl⟩
  obtain ⟨t, r, hr⟩ := hsome
  have hnd : NotDeclined r := respond_P C hp post hpost ctor hc route t r hr
  obtain ⟨e, he⟩ := emit_some app.reasons r hnd
  refine ⟨t, e, ?_⟩
  unfold run
  rw [hr]
  simp only [he]

/-- the model's outcome space: one answer (exactly one `start_response` call) or silence -/
theorem C01_total (app : App) (p : Prog) (post : AfterProg) (ctor : Option Exc) (route : Route) :
    (∃ e, (run app p post ctor route).2 = .answered e) ∨ (run app p post ctor route).2 = .silent := by
  cases h : (run app p post ctor route).2 with
  | answered e => exact Or.inl ⟨e, rfl⟩
  | silent => exact Or.inr rfl

def C01_full : Prop :=
  (∀ app, Std app → ∀ p, GoodProg p → ∀ post, GoodPost post →
      ∀ ctor, (∀ e, ctor = some e → GoodExc e) → ∀ route t e,
      run app p post ctor route = (t, .answered e) →
      Gen.Reasons.table.lookup e.status = some e.reason ∧
      100 ≤ e.status ∧ e.status ≤ 999 ∧ e.reason ≠ "" ∧ GoodHs e.headers) ∧
  (∀ app p, ProgOK QuietVal QuietExc p → ∀ post, PostOK QuietVal QuietExc post →
      ∀ ctor, (∀ e, ctor = some e → QuietExc e) → ∀ route,
      ∃ t e, run app p post ctor route = (t, .answered e))

theorem C01 : C01_full := ⟨C01_wellformed, C01_silent_reason⟩

/-! ### non-vacuity: a concrete application and failing program meet the hypotheses -/

/-- the demo application is a standard one and the demo program obeys `GoodProg`; the request is answered -/
example : Std C04.demoApp := ⟨rfl, rfl⟩

example : GoodProg C04.demoProg := by
  intro s
  cases s with
  | before i => trivial
  | endpoint => trivial
  | status c => by_cases h : c = 404 <;> simp [C04.demoProg, h, GoodVal]
  | exch i => by_cases h : i = 0 <;> simp [C04.demoProg, h, GoodVal, GoodExc]

example : ∃ t e, run C04.demoApp C04.demoProg (fun _ => .same) none .hit = (t, .answered e) ∧ e.status = 200 := by
  refine ⟨_, _, rfl, ?_⟩
  decide


end Poor.Props.C01
