import PoorProofs.Lemmas.Wsgi
import PoorProofs.Props.C04
/-
C03 - before/after hooks run once, in order, around every dispatched request.
-/
namespace Poor.Props.C03
open Poor Poor.Response Poor.Wsgi

/-- the before hook `i` passes (returns normally; its return value is ignored) -/
def Passes (p : Prog) (i : Nat) : Prop := ∀ e, p (.before i) ≠ .raise e

def befores (i k : Nat) : Trace := (List.range' i k).map Ev.before

theorem callT_pass (p : Prog) (i : Nat) (t : Trace) (h : Passes p i) :
    ∃ v, callT p (.before i) (.before i) t = (t ++ [.before i], .ok v) := by
  unfold callT
  cases hp : p (.before i) with
  | ret v => exact ⟨v, rfl⟩
  | raise e => exact absurd hp (h e)
  | same => exact ⟨.none, rfl⟩

/-- all `k` hooks from `i` on pass: each runs exactly once, in registration order -/
theorem runBefore_all (p : Prog) (i k : Nat) (t : Trace) (h : ∀ j, j < k → Passes p (i + j)) :
    runBefore p i k t = (t ++ befores i k, .ok ()) := by
  induction k generalizing i t with
  | zero => simp [runBefore, befores, R.ok]
  | succ k ih =>
    obtain ⟨v, hv⟩ := callT_pass p i t (by simpa using h 0 (by omega))
    unfold runBefore
    rw [hv]
    simp only
    rw [ih (i + 1) (t ++ [Ev.before i]) (fun j hj => by have := h (j + 1) (by omega); rwa [show i + (j + 1) = i + 1 + j by omega] at this)]
    simp [befores, List.range'_succ]

/-- the hook at offset `m` is the first to stop the request: hooks `i..i+m` ran once each,
    in order, and **no later before hook runs** -/
theorem runBefore_stop (p : Prog) (i k m : Nat) (t : Trace) (hm : m < k)
    (hpass : ∀ j, j < m → Passes p (i + j)) (e : Exc) (hraise : p (.before (i + m)) = .raise e) :
    runBefore p i k t = (t ++ befores i (m + 1), .error e) := by
  induction m generalizing i k t with
  | zero =>
    obtain ⟨k', rfl⟩ : ∃ k', k = k' + 1 := ⟨k - 1, by omega⟩
    unfold runBefore
    simp only [Nat.add_zero] at hraise
    simp [callT, hraise, befores, R.err]
  | succ m ih =>
    obtain ⟨k', rfl⟩ : ∃ k', k = k' + 1 := ⟨k - 1, by omega⟩
    obtain ⟨v, hv⟩ := callT_pass p i t (by simpa using hpass 0 (by omega))
    unfold runBefore
    rw [hv]
    simp only
    rw [ih (i + 1) k' (t ++ [Ev.before i]) (by omega)
      (fun j hj => by have := hpass (j + 1) (by omega); rwa [show i + (j + 1) = i + 1 + j by omega] at this)
      (by rwa [show i + 1 + m = i + (m + 1) by omega])]
    simp [befores, List.range'_succ]

/-- **every dispatch exit** runs all before hooks first - also the 404 / 405 / 403 exits and
    the file, directory and debug pages - and only then the endpoint (or the built-in action) -/
theorem dispatch_order (app : App) (p : Prog) (route : Route)
    (h : ∀ j, j < app.nBefore → Passes p j) :
    ∃ rest res, dispatch app p route [] = (befores 0 app.nBefore ++ rest, res) ∧
      (rest = [.endpoint] ∨ rest = [] ∨ rest = [.builtinDispatch route]) ∧
      ((route = .hit ∨ route = .default) → rest = [.endpoint]) := by
  have hb := runBefore_all p 0 app.nBefore [] (by simpa using h)
  unfold dispatch
  rw [hb]
  cases route <;> simp [callT, R.err, R.ok]

/-- if a before hook stops the request, no later before hook and **no endpoint** runs -/
theorem dispatch_stopped (app : App) (p : Prog) (route : Route) (m : Nat) (hm : m < app.nBefore)
    (hpass : ∀ j, j < m → Passes p j) (e : Exc) (hraise : p (.before m) = .raise e) :
    dispatch app p route [] = (befores 0 (m + 1), .error e) := by
  have hb := runBefore_stop p 0 app.nBefore m [] hm (by simpa using hpass) e (by simpa using hraise)
  unfold dispatch
  rw [hb]
  simp [R.err]

def afters (j k : Nat) : Trace := (List.range' j k).map Ev.after

/-- after hooks that hand the response on: each runs exactly once, in order, and the client
    receives the response unchanged -/
theorem runAfter_same (app : App) (p : Prog) (post : AfterProg) (j k : Nat) (t : Trace) (r : Resp)
    (h : ∀ i, i < k → post (j + i) = .same) :
    runAfter app p post j k t r = (t ++ afters j k, r) := by
  induction k generalizing j t with
  | zero => simp [runAfter, afters]
  | succ k ih =>
    unfold runAfter
    have h0 : post j = .same := by simpa using h 0 (by omega)
    rw [h0]
    simp only
    rw [ih (j + 1) (t ++ [Ev.after j]) (fun i hi => by have := h (i + 1) (by omega); rwa [show j + (i + 1) = j + 1 + i by omega] at this)]
    simp [afters, List.range'_succ]

/-- an after hook that replaces the response: the next hook (and finally the client)
    receives what it returned -/
theorem runAfter_replace (app : App) (p : Prog) (post : AfterProg) (j k : Nat) (t : Trace) (r : Resp)
    (v : Val) (hv : post j = .ret v) (r' : Resp) (hr : toResponse app.reasons v = .ok r') :
    runAfter app p post j (k + 1) t r = runAfter app p post (j + 1) k (t ++ [Ev.after j]) r' := by
  conv => lhs; unfold runAfter
  simp [hv, callA, coerce, hr, R.ok]

/-- an after hook that fails (raises, or returns something that is no response): the
    remaining hooks are skipped and the client receives an error response -/
theorem runAfter_fail (app : App) (p : Prog) (post : AfterProg) (j k : Nat) (t : Trace) (r : Resp)
    (e : Exc) (he : post j = .raise e) :
    runAfter app p post j (k + 1) t r = errorResponse app p e (t ++ [Ev.after j]) := by
  conv => lhs; unfold runAfter
  simp [he, callA]

theorem runAfter_garbage (app : App) (p : Prog) (post : AfterProg) (j k : Nat) (t : Trace) (r : Resp)
    (hv : post j = .ret .junk) :
    runAfter app p post j (k + 1) t r = errorResponse app p .respErr (t ++ [Ev.after j]) := by
  conv => lhs; unfold runAfter
  simp [hv, callA, coerce, C04.toResponse_junk, R.err]

/-- the after-hook loop runs on whatever response the request produced - success, HTTP
    error or crash - and on nothing else -/
theorem after_on_every_response (app : App) (p : Prog) (post : AfterProg) (ctor : Option Exc)
    (route : Route) :
    respond app p post ctor route =
      match preAfter app p ctor route with
      | (t, none) => (t, none)
      | (t, some r) => ((runAfter app p post 0 app.nAfter t r).1, some (runAfter app p post 0 app.nAfter t r).2) :=
  rfl

/-! ### non-vacuity: a concrete application and failing program meet the hypotheses -/

/-- both before hooks of the demo pass, so `dispatch_order` applies: they run in order, then the endpoint -/
example : ∀ j, j < C04.demoApp.nBefore → Passes C04.demoProg j := by
  intro j _ e h
  simp [C04.demoProg] at h

example : (dispatch C04.demoApp C04.demoProg .hit []).1 = [.before 0, .before 1, .endpoint] := by decide


end Poor.Props.C03
