import PoorProofs.Props.C07
/-
C06 - Content-Length always equals the bytes actually sent.
-/
namespace Poor.Props.C06
open Poor Poor.Range Poor.Props.C07

/-- after any history of writes the advertised length is the buffer length -/
theorem C06_write_history (init : Bytes) (ws : List Bytes) :
    (ws.foldl Buf.write (Buf.init init)).contentLength
      = (ws.foldl Buf.write (Buf.init init)).data.length ∧
    (ws.foldl Buf.write (Buf.init init)).data = init ++ ws.flatten := by
  suffices h : ∀ b : Buf, b.contentLength = b.data.length →
      (ws.foldl Buf.write b).contentLength = (ws.foldl Buf.write b).data.length ∧
      (ws.foldl Buf.write b).data = b.data ++ ws.flatten by
    exact h (Buf.init init) rfl
  induction ws with
  | nil => intro b hb; simp [hb]
  | cons w ws ih =>
    intro b hb
    have := ih (b.write w) (by simp [Buf.write, hb])
    simpa [Buf.write, List.append_assoc] using this

theorem window_part_bounds {full : Nat} {rs : List RangeT} {f l : Nat}
    (h : window full rs = .part f l) : f ≤ l ∧ l < full := by
  unfold window at h
  split at h
  · cases h
  · rename_i first last _
    cases first <;> cases last <;> simp only [decide206] at h
    · cases h
    all_goals (repeat' split at h) <;> first | (cases h; omega) | cases h

/-- **C06 (emitted length).** For every known-length representation and *every* range
    list (valid, invalid, several, none): an emitted Content-Length is exactly the number
    of body bytes, and it is emitted whenever that number is positive. -/
theorem C06_emitted (rep : Rep) (hk : KnownLength rep) (rs : List RangeT) (o : Out)
    (h : respond rep rs = some o) :
    (∀ n, o.contentLength = some n → n = o.body.length) ∧
    (0 < o.body.length → o.contentLength = some o.body.length) := by
  unfold respond at h
  simp only at h
  have hl := length_eq rep hk
  split at h
  · cases h
  · simp only [Option.some.injEq] at h; subst h
    simp only [body_full rep hk, ← hl]
    constructor
    · intro n hn; split at hn <;> simp_all
    · intro hp; split <;> simp_all
  · rename_i f l hw
    simp only [Option.some.injEq] at h; subst h
    have hb := window_part_bounds hw
    have : (((content rep).drop f).take (l - f + 1)).length = l - f + 1 := by
      simp [List.length_take, List.length_drop]; omega
    simp [body_part rep hk f l hb.1, this]
  · split at h
    · simp only [Option.some.injEq] at h; subst h; simp
    · cases h


def C06_full : Prop :=
  (∀ (init : Bytes) (ws : List Bytes), (ws.foldl Buf.write (Buf.init init)).contentLength
      = (ws.foldl Buf.write (Buf.init init)).data.length
      ∧ (ws.foldl Buf.write (Buf.init init)).data = init ++ ws.flatten) ∧
  (∀ rep, KnownLength rep → ∀ rs o, respond rep rs = some o →
      (∀ n, o.contentLength = some n → n = o.body.length) ∧
      (0 < o.body.length → o.contentLength = some o.body.length))

theorem C06 : C06_full := ⟨C06_write_history, C06_emitted⟩

example : (([[1, 2], [], [3]] : List Bytes).foldl Buf.write (Buf.init [9])) = ⟨[9, 1, 2, 3], 4⟩ := by decide

end Poor.Props.C06
