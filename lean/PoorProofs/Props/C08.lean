import PoorModel.Multipart
namespace Poor.Props.C08
end Poor.Props.C08
