import PoorProofs.Lemmas.Multipart
import PoorProofs.Lemmas.MultipartG
/-
C08 - multipart/form-data decodes to exactly the parts that were encoded.
-/
namespace Poor.Props.C08
open Poor Poor.Multipart

/-- **content extraction (in-memory reader).**  Let `nb = "--" ++ boundary` be a delimiter (printable,
    no trailing blank, shorter than a line) that does not occur in the content `c` - which may hold
    anything else: CR, LF, CRLF, dashes, prefixes of the delimiter, the boundary without its dashes,
    NUL, 0xFF, and lines of any length (longer ones are read in 64 KiB pieces).  Then on
    `c CRLF nb CRLF tail` the content loop returns exactly `c`, reports "another part follows" and
    leaves the reader exactly at `tail`; on `c CRLF nb "--" CRLF tail` and on `c CRLF nb "--"` at
    the very end of the input (no final CRLF) it returns `c` and reports the closing delimiter. -/
theorem C08_extract (nb c tail mark eol : Bytes) (hb : BOk nb) (hno : ¬ nb <:+: c)
    (hmark : mark = [] ∨ mark = [DASH, DASH]) (heol : eol = [CR, LF] ∨ (eol = [] ∧ tail = []))
    (fuel : Nat) (hfuel : c.length + 2 < fuel) :
    readLines lfReader nb (nb ++ [DASH, DASH]) fuel ⟨[], [], true⟩
        (c ++ [CR, LF] ++ (nb ++ mark ++ eol ++ tail))
      = (c, if mark = [] then Stop.next else Stop.last, tail) := by
  refine extract_aux nb mark eol tail c hb hno hmark heol (c.length + 2) ⟨[], [], true⟩ []
    (c ++ [CR, LF]) fuel (by simp) hfuel (by simp) (by simp) ?_ (by simp) (Or.inr (Or.inr (Or.inr rfl)))
  intro h
  simp at h

/-- a delimiter made of an RFC 2046 boundary satisfies the hypotheses -/
theorem BOk_of_boundary (ib : Bytes) (hne : ib ≠ []) (hlen : ib.length ≤ 70)
    (hchars : ∀ x ∈ ib, 32 ≤ x.toNat ∧ x.toNat ≤ 126) (hlast : ib.getLast? ≠ some 32) :
    BOk (DASH :: DASH :: ib) := by
  refine ⟨rfl, ?_, ?_, ?_, ?_⟩
  · refine ⟨DASH :: DASH :: ib.dropLast, ib.getLast hne, ?_, ?_⟩
    · simp [List.dropLast_concat_getLast hne]
    · have hmem := List.getLast_mem hne
      have hr := hchars _ hmem
      have hl : ib.getLast hne ≠ 32 := by
        intro h; apply hlast; rw [List.getLast?_eq_some_getLast hne, h]
      have hn : (ib.getLast hne).toNat ≠ 32 := fun h => hl (by
        apply UInt8.toNat_inj.1; simpa using h)
      simp only [isWs, Bool.or_eq_false_iff, decide_eq_false_iff_not]
      refine ⟨⟨⟨⟨⟨hl, ?_⟩, ?_⟩, ?_⟩, ?_⟩, ?_⟩ <;> (intro h; rw [h] at hr; simp at hr)
  · intro h
    simp only [List.mem_cons] at h
    rcases h with h | h | h
    · simp [CR, DASH] at h
    · simp [CR, DASH] at h
    · have := hchars _ h; simp [CR] at this
  · intro h
    simp only [List.mem_cons] at h
    rcases h with h | h | h
    · simp [LF, DASH] at h
    · simp [LF, DASH] at h
    · have := hchars _ h; simp [LF] at this
  · simp [LINE_CAP]; omega

/-- **C08, in-memory delivery, whole bodies.**  For every RFC 2046 boundary, every non-empty list of
    parts - names and file names with any characters but CR/LF (spaces, quotes, semicolons,
    backslashes, non-ASCII), an optional plain media type, contents with any bytes and any line
    lengths that do not contain the delimiter - encoded per RFC 7578 with or without a final CRLF
    after the closing delimiter, the parser returns exactly the parts, in order: names, file names,
    media types (`text/plain` when none was sent), byte-exact contents, and which parts are files. -/
theorem C08_memory (ib final : Bytes) (hne : ib ≠ []) (hlen : ib.length ≤ 70)
    (hchars : ∀ x ∈ ib, 32 ≤ x.toNat ∧ x.toNat ≤ 126) (hlast : ib.getLast? ≠ some 32)
    (hfinal : final = [CR, LF] ∨ final = []) (ps : List EPart) (hps : ps ≠ []) (hok : ∀ p ∈ ps, PartOK ib p)
    (fuel : Nat) (hfuel : ∀ p ∈ ps, p.content.length + 3 + ps.length < fuel) :
    parseMultipart lfReader ib fuel (encode ib final ps) = .ok (ps.map expected) := by
  have hvalid : validBoundary ib = true := by
    unfold validBoundary
    have h1 : ib.isEmpty = false := by cases ib <;> simp_all
    have h2 : ib.all (fun x => decide (32 ≤ x.toNat) && decide (x.toNat ≤ 126)) = true := by
      rw [List.all_eq_true]; intro x hx; have := hchars x hx; simp [this.1, this.2]
    have h3 : (ib.getLast? != some 32) = true := by simpa using hlast
    have h4 : decide (ib.length ≤ 201) = true := by simp; omega
    simp [h1, h2, h3, h4]
  exact parse_encode ib final (BOk_of_boundary ib hne hlen hchars hlast) hvalid hfinal ps hps hok fuel hfuel

theorem validBoundary_of (ib : Bytes) (hne : ib ≠ []) (hlen : ib.length ≤ 70)
    (hchars : ∀ x ∈ ib, 32 ≤ x.toNat ∧ x.toNat ≤ 126) (hlast : ib.getLast? ≠ some 32) :
    validBoundary ib = true := by
  unfold validBoundary
  have h1 : ib.isEmpty = false := by cases ib <;> simp_all
  have h2 : ib.all (fun x => decide (32 ≤ x.toNat) && decide (x.toNat ≤ 126)) = true := by
    rw [List.all_eq_true]; intro x hx; have := hchars x hx; simp [this.1, this.2]
  have h3 : (ib.getLast? != some 32) = true := by simpa using hlast
  have h4 : decide (ib.length ≤ 201) = true := by simp; omega
  simp [h1, h2, h3, h4]

/-- **C08 over any line reader that honours the contract** (`Contract`: lines are consecutive pieces
    of the pending input, non-empty while input is left, never run past the first CRLF, return a
    complete CR/LF-free line whole, and a reader that stops after a CR says so).  Same statement as
    `C08_memory`, for every reader state whose pending input is the encoded body. -/
theorem C08_any_reader {R : Type} {rd : Rd R} {pend : R → Bytes} {Ok afterCR : R → Prop}
    (hc : Contract rd pend Ok afterCR) (ib final : Bytes) (hne : ib ≠ []) (hlen : ib.length ≤ 70)
    (hchars : ∀ x ∈ ib, 32 ≤ x.toNat ∧ x.toNat ≤ 126) (hlast : ib.getLast? ≠ some 32)
    (hfinal : final = [CR, LF] ∨ final = []) (ps : List EPart) (hps : ps ≠ []) (hok : ∀ p ∈ ps, PartOK ib p)
    (fuel : Nat) (hfuel : ∀ p ∈ ps, p.content.length + 3 + ps.length < fuel)
    (r : R) (hr : Ok r) (hpend : pend r = encode ib final ps) :
    parseMultipart rd ib fuel r = .ok (ps.map expected) :=
  parse_encodeG hc ib final (BOk_of_boundary ib hne hlen hchars hlast)
    (validBoundary_of ib hne hlen hchars hlast) hfinal ps hps hok fuel hfuel r hr hpend

/-- **C08, delivery through the block-caching reader (`CachedInput`).**  For every reader state -
    any block size, any part of the body already buffered, the rest still to be fetched from the
    stream - whose pending input is the encoded body, the parser returns exactly the parts. -/
theorem C08_cached (ib final : Bytes) (hne : ib ≠ []) (hlen : ib.length ≤ 70)
    (hchars : ∀ x ∈ ib, 32 ≤ x.toNat ∧ x.toNat ≤ 126) (hlast : ib.getLast? ≠ some 32)
    (hfinal : final = [CR, LF] ∨ final = []) (ps : List EPart) (hps : ps ≠ []) (hok : ∀ p ∈ ps, PartOK ib p)
    (fuel : Nat) (hfuel : ∀ p ∈ ps, p.content.length + 3 + ps.length < fuel)
    (s : Reader.St) (hpend : s.pending = encode ib final ps) :
    parseMultipart cachedReader ib fuel s = .ok (ps.map expected) :=
  C08_any_reader cachedContract ib final hne hlen hchars hlast hfinal ps hps hok fuel hfuel s trivial hpend

/-- **C08 with a preamble.**  Text before the first delimiter (RFC 2046 5.1.1: to be ignored) - any lines, empty
    ones included, none of which is the delimiter line - changes nothing, over every reader that honours the line
    contract (the in-memory one and the block-caching one in every state). -/
theorem C08_preamble {R : Type} {rd : Rd R} {pend : R → Bytes} {Ok afterCR : R → Prop}
    (hc : Contract rd pend Ok afterCR) (ib final : Bytes) (hne : ib ≠ []) (hlen : ib.length ≤ 70)
    (hchars : ∀ x ∈ ib, 32 ≤ x.toNat ∧ x.toNat ≤ 126) (hlast : ib.getLast? ≠ some 32)
    (hfinal : final = [CR, LF] ∨ final = []) (ps : List EPart) (hps : ps ≠ []) (hok : ∀ p ∈ ps, PartOK ib p)
    (pre : List Bytes) (hpre : ∀ l ∈ pre, CR ∉ l ∧ LF ∉ l ∧ strip (l ++ [CR, LF]) ≠ DASH :: DASH :: ib)
    (fuel : Nat) (hfuel : ∀ p ∈ ps, p.content.length + 3 + ps.length + pre.length < fuel)
    (r : R) (hr : Ok r) (hpend : pend r = preambleText pre ++ encode ib final ps) :
    parseMultipart rd ib fuel r = .ok (ps.map expected) :=
  parse_encode_preambleG hc ib final (BOk_of_boundary ib hne hlen hchars hlast)
    (validBoundary_of ib hne hlen hchars hlast) hfinal ps hps hok pre hpre fuel hfuel r hr hpend

/-- non-vacuity: the usual MIME preamble followed by an empty line -/
example : ∀ l ∈ [[84, 104, 105, 115], ([] : Bytes)], CR ∉ l ∧ LF ∉ l ∧ strip (l ++ [CR, LF]) ≠ DASH :: DASH :: [66] := by
  decide

/-- the state the request starts in: nothing buffered, the declared length is the body's length, the
    stream delivers the body in pieces of any sizes (`script`: short reads) -/
theorem C08_cached_fresh (ib final : Bytes) (hne : ib ≠ []) (hlen : ib.length ≤ 70)
    (hchars : ∀ x ∈ ib, 32 ≤ x.toNat ∧ x.toNat ≤ 126) (hlast : ib.getLast? ≠ some 32)
    (hfinal : final = [CR, LF] ∨ final = []) (ps : List EPart) (hps : ps ≠ []) (hok : ∀ p ∈ ps, PartOK ib p)
    (fuel : Nat) (hfuel : ∀ p ∈ ps, p.content.length + 3 + ps.length < fuel)
    (script : List Nat) (trailing : Bytes) :
    parseMultipart cachedReader ib fuel
        (Reader.St.init (encode ib final ps ++ trailing) (encode ib final ps).length script)
      = .ok (ps.map expected) :=
  C08_cached ib final hne hlen hchars hlast hfinal ps hps hok fuel hfuel _
    (by simp [Reader.St.pending, Reader.St.init])

/-- **the way the body is delivered does not matter**: in memory or through the caching reader with
    any block size, the decoded parts are the same. -/
theorem C08_delivery_independent (ib final : Bytes) (hne : ib ≠ []) (hlen : ib.length ≤ 70)
    (hchars : ∀ x ∈ ib, 32 ≤ x.toNat ∧ x.toNat ≤ 126) (hlast : ib.getLast? ≠ some 32)
    (hfinal : final = [CR, LF] ∨ final = []) (ps : List EPart) (hps : ps ≠ []) (hok : ∀ p ∈ ps, PartOK ib p)
    (fuel : Nat) (hfuel : ∀ p ∈ ps, p.content.length + 3 + ps.length < fuel)
    (s : Reader.St) (hpend : s.pending = encode ib final ps) :
    parseMultipart cachedReader ib fuel s = parseMultipart lfReader ib fuel (encode ib final ps) := by
  rw [C08_cached ib final hne hlen hchars hlast hfinal ps hps hok fuel hfuel s hpend,
    C08_memory ib final hne hlen hchars hlast hfinal ps hps hok fuel hfuel]

/-- non-vacuity: a content full of near-delimiters -/
example :
    readLines lfReader (DASH :: DASH :: [66]) (DASH :: DASH :: [66] ++ [DASH, DASH]) 40 ⟨[], [], true⟩
      ([45, 45, 13, 10, 45, 66, 13, 13, 10, 10] ++ [CR, LF] ++ (DASH :: DASH :: [66] ++ [] ++ [CR, LF] ++ [120]))
      = ([45, 45, 13, 10, 45, 66, 13, 13, 10, 10], Stop.next, [120]) := by
  apply C08_extract (DASH :: DASH :: [66]) _ [120] [] [CR, LF]
    (BOk_of_boundary [66] (by decide) (by decide) (by decide) (by decide)) (by decide) (Or.inl rfl) (Or.inl rfl)
  decide

/-- non-vacuity of `PartOK`: a file part with an awkward name and a content made of CR, LF and dashes -/
def demoPart : EPart :=
  ⟨"a b".toList, some "x\\y\".bin".toList, some "image/png".toList, [1, 2, 13, 10, 45, 45, 13, 45, 66]⟩

example : PartOK [66] demoPart := by
  refine ⟨by decide, ?_, ?_, ?_⟩
  · intro t ht
    simp only [hdrTexts, demoPart, List.mem_cons, List.not_mem_nil, or_false] at ht
    rcases ht with rfl | rfl <;> decide
  · decide
  · intro t ht
    simp only [demoPart, Option.some.injEq] at ht
    subst ht
    refine ⟨⟨by decide, by decide⟩, by decide, by decide, by decide⟩

/-- ... and a part whose media type is `application/x-www-form-urlencoded` (the model and the theorems excluded
    that type until the parser was repaired, /repo 233a847: the hypothesis had marked the defect) -/
example : PartOK [66] ⟨"q".toList, none, some "application/x-www-form-urlencoded".toList, [97, 61, 49]⟩ := by
  refine ⟨by decide, ?_, ?_, ?_⟩
  · intro t ht
    simp only [hdrTexts, List.mem_cons, List.not_mem_nil, or_false] at ht
    rcases ht with rfl | rfl <;> decide
  · decide
  · intro t ht
    simp only [Option.some.injEq] at ht
    subst ht
    refine ⟨⟨by decide, by decide⟩, by decide, by decide, by decide⟩

end Poor.Props.C08
