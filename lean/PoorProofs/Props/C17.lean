import PoorModel.Sched
import PoorModel.Gen.Shared
/-
C17 - a response depends only on its own request and the configuration.
-/
namespace Poor.Props.C17
open Poor Poor.Sched

variable {Sh Loc : Type} (sys : Sys Sh Loc)

theorem solo_succ (sh : Sh) (l : Loc) (n : Nat) :
    solo sys sh l (n + 1) = solo sys sh (sys.step sh l).2 n := rfl

/-- **the scheduling argument.**  If no step writes the shared state, then after *any* schedule
    (any interleaving of the steps of any number of in-flight requests, any history of earlier
    requests) the shared state is what it was and every request is exactly where its solo run
    against that state is after the same number of its own steps. -/
theorem sched_independent (hf : Frame sys) (sh : Sh) (locs : List Loc) (sched : List Nat) :
    (run sys sh locs sched).1 = sh ∧
    ∀ i, (run sys sh locs sched).2[i]? = (locs[i]?).map fun l => solo sys sh l (sched.count i) := by
  induction sched generalizing locs with
  | nil =>
    refine ⟨rfl, fun i => ?_⟩
    simp only [run, List.foldl_nil, List.count_nil, solo]
    cases locs[i]? <;> rfl
  | cons j rest ih =>
    unfold run
    simp only [List.foldl_cons]
    cases hj : locs[j]? with
    | none =>
      have h1 : exec1 sys (sh, locs) j = (sh, locs) := by simp [exec1, hj]
      rw [h1]
      obtain ⟨i1, i2⟩ := ih locs
      refine ⟨i1, fun i => ?_⟩
      have := i2 i
      unfold run at this
      rw [this]
      by_cases hij : i = j
      · subst hij; simp [hj]
      · have : (j :: rest).count i = rest.count i := by
          simp [List.count_cons, Ne.symm hij]
        rw [this]
    | some l =>
      have h1 : exec1 sys (sh, locs) j = (sh, locs.set j (sys.step sh l).2) := by
        simp [exec1, hj, hf sh l]
      rw [h1]
      obtain ⟨i1, i2⟩ := ih (locs.set j (sys.step sh l).2)
      refine ⟨i1, fun i => ?_⟩
      have := i2 i
      unfold run at this
      rw [this]
      by_cases hij : i = j
      · subst hij
        have hlt : i < locs.length := by
          rcases List.getElem?_eq_some_iff.1 hj with ⟨h, _⟩; exact h
        simp [List.getElem?_set_self hlt, hj, List.count_cons, solo_succ]
      · have hc : (j :: rest).count i = rest.count i := by
          simp [List.count_cons, Ne.symm hij]
        rw [hc, List.getElem?_set_ne (Ne.symm hij)]

/-- **histories and interleavings**: two schedules in which request `i` takes the same number of
    steps leave it in the same state - whatever the other requests are and do, and in whatever
    order the steps are interleaved.  In particular a request that runs to completion gets the
    answer it gets when it is sent alone to the same (fresh) tables. -/
theorem C17_schedule_irrelevant (hf : Frame sys) (sh : Sh) (locs locs' : List Loc) (s s' : List Nat)
    (i i' : Nat) (l : Loc) (hi : locs[i]? = some l) (hi' : locs'[i']? = some l)
    (hc : s.count i = s'.count i') :
    (run sys sh locs s).2[i]? = (run sys sh locs' s').2[i']? := by
  rw [(sched_independent sys hf sh locs s).2 i, (sched_independent sys hf sh locs' s').2 i', hi, hi', hc]

/-- the shared state itself is never changed by serving requests -/
theorem C17_shared_unchanged (hf : Frame sys) (sh : Sh) (locs : List Loc) (sched : List Nat) :
    (run sys sh locs sched).1 = sh := (sched_independent sys hf sh locs sched).1

/-- the frame condition is what the argument rests on: with a single writer the answer of another
    request does depend on the schedule -/
example : ∃ (sys : Sys Nat Nat) (s s' : List Nat),
    (run sys 0 [0, 0] s).2[1]? ≠ (run sys 0 [0, 0] s').2[1]? ∧ s.count 1 = s'.count 1 := by
  refine ⟨⟨fun sh l => (sh + 1, sh)⟩, [0, 1], [1, 0], by decide, by decide⟩

/-! ### the request model of C01/C03/C04 is an instance -/

theorem wsgi_frame : Frame wsgiSys := by
  intro app st
  cases st with
  | start => rfl
  | mid p post t r => cases r <;> rfl
  | fin => rfl

/-- two steps of `wsgiSys` are the whole request of the C01 model -/
theorem wsgi_solo (app : Wsgi.App) (p : Wsgi.Prog) (post : Wsgi.AfterProg) (ctor : Option Response.Exc)
    (route : Wsgi.Route) :
    solo wsgiSys app (.start p post ctor route) 2 =
      .fin (Wsgi.run app p post ctor route).1 (Wsgi.run app p post ctor route).2 := by
  simp only [solo, wsgiSys, wsgiStep, Wsgi.run, Wsgi.respond]
  cases h : Wsgi.preAfter app p ctor route with
  | mk t r =>
    cases r with
    | none => simp [wsgiStep]
    | some r =>
      simp only [wsgiStep]
      cases h2 : Wsgi.afterAll app p post t r with
      | mk t' r' =>
        cases r' with
        | none => rfl
        | some r'' =>
          simp only
          cases Response.emit app.reasons r'' <;> rfl

/-- **C17 for the request model**: in any interleaving of any requests against one table set, a
    request that has taken its two steps has produced exactly `Wsgi.run` of itself alone -/
theorem C17_wsgi (app : Wsgi.App) (locs : List Stage) (sched : List Nat) (i : Nat)
    (p : Wsgi.Prog) (post : Wsgi.AfterProg) (ctor : Option Response.Exc) (route : Wsgi.Route)
    (hi : locs[i]? = some (.start p post ctor route)) (hc : sched.count i = 2) :
    (run wsgiSys app locs sched).2[i]? =
      some (.fin (Wsgi.run app p post ctor route).1 (Wsgi.run app p post ctor route).2) := by
  rw [(sched_independent wsgiSys wsgi_frame app locs sched).2 i, hi, hc]
  simp [wsgi_solo]

/-! ### the frame condition against the source (regenerated inventory) -/

/-- every shared object that is written anywhere (at import or configuration time) is one of the
    objects the model knows about; containers that are only ever read do not matter -/
theorem shared_inventory_known : ∀ w ∈ Gen.Shared.writes, w.1 ∈ knownShared := by decide

/-- no syntactic write to a shared object sits in a function that can run while a request is
    served (the functions reachable in the package's call graph from `Application.__call__`,
    regenerated with the inventory): writers run at import or configuration time only -/
theorem no_request_time_writes :
    (Gen.Shared.writes.filter fun w => Gen.Shared.requestReachable.contains w.2.1) = [] := by decide

end Poor.Props.C17
