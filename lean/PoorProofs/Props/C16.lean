import PoorModel.Token
import Std.Data.String.ToNat
/-
C16 - auth tokens are valid for at least one and at most two timeout periods.
-/
namespace Poor.Props.C16
open Poor Poor.Token

/-- the window characterisation: for every timeout `T > 0` and instants `t0 ≤ t1`, a token
    issued at `t0` is accepted at `t1` iff the `T`-aligned windows are equal or adjacent -/
theorem valid_iff (T t0 t1 : Nat) (hT : 0 < T) (h : t0 ≤ t1) :
    valid T t0 t1 = true ↔ window T t1 ≤ window T t0 + 1 := by
  have hw : window T t0 ≤ window T t1 := Nat.div_le_div_right h
  unfold valid accepted issued
  generalize window T t0 = w0 at *
  generalize window T t1 = w1 at *
  simp only [List.contains_cons, List.contains_nil, Bool.or_false, Bool.or_eq_true, beq_iff_eq]
  constructor
  · rintro (h1 | h1)
    · have : (w0 + 2) * T = (w1 + 1) * T := by rw [Nat.add_mul, Nat.add_mul]; omega
      have := Nat.eq_of_mul_eq_mul_right hT this
      omega
    · have : (w0 + 2) * T = (w1 + 2) * T := by rw [Nat.add_mul, Nat.add_mul]; omega
      have := Nat.eq_of_mul_eq_mul_right hT this
      omega
  · intro h2
    have : w1 = w0 ∨ w1 = w0 + 1 := by omega
    rcases this with e | e
    · right; rw [e]; omega
    · left; rw [e, Nat.add_mul]; omega

/-- younger than one period: always accepted -/
theorem valid_of_lt (T t0 t1 : Nat) (hT : 0 < T) (h : t0 ≤ t1) (hlt : t1 - t0 < T * tps) :
    valid T t0 t1 = true := by
  rw [valid_iff T t0 t1 hT h]
  have hP : 0 < T * tps := Nat.mul_pos hT (by decide)
  have h1 : t1 ≤ t0 + T * tps := by omega
  have : t1 / (T * tps) ≤ (t0 + T * tps) / (T * tps) := Nat.div_le_div_right h1
  rw [Nat.add_div_right _ hP] at this
  exact this

/-- two periods old or more: never accepted -/
theorem invalid_of_ge (T t0 t1 : Nat) (hT : 0 < T) (h : t0 ≤ t1) (hge : 2 * (T * tps) ≤ t1 - t0) :
    valid T t0 t1 = false := by
  have hP : 0 < T * tps := Nat.mul_pos hT (by decide)
  have : ¬ (window T t1 ≤ window T t0 + 1) := by
    intro hc
    have h1 : (t0 + 2 * (T * tps)) / (T * tps) ≤ t1 / (T * tps) := Nat.div_le_div_right (by omega)
    have h2 : (t0 + 2 * (T * tps)) / (T * tps) = t0 / (T * tps) + 2 := by
      rw [show t0 + 2 * (T * tps) = t0 + T * tps + T * tps by omega,
          Nat.add_div_right _ hP, Nat.add_div_right _ hP]
    unfold window at hc
    omega
  rw [← valid_iff T t0 t1 hT h] at this
  simpa using this

section hash
variable {Tok : Type} [DecidableEq Tok] (H : Str → Tok)

/-- with the right secret and client, acceptance is exactly window validity -/
theorem check_same (secret client : Str) (T t0 t1 : Nat) (hT : 0 < T) (hH : Function.Injective H) :
    checkToken H (getToken H secret client (some T) t0) secret client (some T) t1 = valid T t0 t1 := by
  obtain ⟨T', rfl⟩ : ∃ T', T = T' + 1 := ⟨T - 1, by omega⟩
  simp only [checkToken, getToken, effective, valid, accepted, List.any_cons, List.any_nil,
    Bool.or_false, List.contains_cons, List.contains_nil]
  have key : ∀ e e' : Nat, (H (tokenText secret (some e) client) = H (tokenText secret (some e') client)) ↔ e = e' := by
    intro e e'
    constructor
    · intro h
      have := hH h
      simp only [tokenText, List.append_assoc, List.append_cancel_left_eq, List.append_cancel_right_eq] at this
      have h2 : (toString e) = (toString e') := String.toList_inj.mp this
      exact Nat.repr_injective h2
    · rintro rfl; rfl
  simp only [key]
  rfl

/-- **at least one, at most two periods** (any hash that does not collide on these texts) -/
theorem C16_windows (secret client : Str) (T t0 t1 : Nat) (hT : 0 < T) (h : t0 ≤ t1)
    (hH : Function.Injective H) :
    (t1 - t0 < T * tps →
      checkToken H (getToken H secret client (some T) t0) secret client (some T) t1 = true) ∧
    (2 * (T * tps) ≤ t1 - t0 →
      checkToken H (getToken H secret client (some T) t0) secret client (some T) t1 = false) ∧
    (checkToken H (getToken H secret client (some T) t0) secret client (some T) t1 = true
      ↔ window T t1 ≤ window T t0 + 1) := by
  rw [check_same H secret client T t0 t1 hT hH]
  exact ⟨valid_of_lt T t0 t1 hT h, invalid_of_ge T t0 t1 hT h, valid_iff T t0 t1 hT h⟩

/-- no timeout configured (`None`, or `0` as documented): tokens never expire -/
theorem C16_none (secret client : Str) (t0 t1 : Nat) (timeout : Option Nat)
    (h : timeout = none ∨ timeout = some 0) :
    checkToken H (getToken H secret client timeout t0) secret client timeout t1 = true := by
  rcases h with rfl | rfl <;> simp [checkToken, getToken, effective]

/-- acceptance under another secret/client forces the *formatted texts* to coincide -/
theorem C16_separation (secret client secret' client' : Str) (timeout : Option Nat) (t0 t1 : Nat)
    (hH : Function.Injective H)
    (h : checkToken H (getToken H secret client timeout t0) secret' client' timeout t1 = true) :
    ∃ e e', tokenText secret e client = tokenText secret' e' client' := by
  unfold checkToken getToken at h
  cases he : effective timeout with
  | none =>
    rw [he] at h; simp only [decide_eq_true_eq] at h
    exact ⟨none, none, hH h⟩
  | some T =>
    rw [he] at h
    simp only [accepted, List.any_cons, List.any_nil, Bool.or_false, Bool.or_eq_true,
      decide_eq_true_eq] at h
    rcases h with h | h
    · exact ⟨_, _, hH h⟩
    · exact ⟨_, _, hH h⟩

end hash

/-- the full-strength separation claim of the property -/
def C16_separation_full : Prop :=
  ∀ (secret client secret' client' : Str) (T t0 t1 : Nat),
    checkToken (fun x => x) (getToken (fun x => x) secret client (some T) t0)
      secret' client' (some T) t1 = true → secret = secret' ∧ client = client'

/-- ... is FALSE of the code as it stands even for a collision-free hash: the three
    fields are concatenated without delimiters (`"%s%s%s"`), so `("k1", expiry 300)` and
    `("k", expiry 1300)` - or clients `"c"`/`"0c"` - format to the same text.
    Recorded in known_findings.txt (key token-concat-ambiguity). -/
theorem C16_separation_full_false : ¬ C16_separation_full := by
  intro h
  have := h "k1".toList "c".toList "k".toList "c".toList 100 (100 * tps) (1100 * tps) (by decide)
  exact absurd this.1 (by decide)

def C16_full_windows : Prop :=
  ∀ {Tok : Type} [DecidableEq Tok] (H : Str → Tok), Function.Injective H →
  ∀ (secret client : Str) (T t0 t1 : Nat), 0 < T → t0 ≤ t1 →
    (t1 - t0 < T * tps →
      checkToken H (getToken H secret client (some T) t0) secret client (some T) t1 = true) ∧
    (2 * (T * tps) ≤ t1 - t0 →
      checkToken H (getToken H secret client (some T) t0) secret client (some T) t1 = false) ∧
    (checkToken H (getToken H secret client (some T) t0) secret client (some T) t1 = true
      ↔ window T t1 ≤ window T t0 + 1)

theorem C16_partial : C16_full_windows :=
  fun H hH secret client T t0 t1 hT h => C16_windows H secret client T t0 t1 hT h hH

example : valid 300 (1000 * tps) (1299 * tps) = true ∧ valid 300 (1000 * tps) (1600 * tps) = false := by decide

end Poor.Props.C16
