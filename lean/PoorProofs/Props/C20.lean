import PoorProofs.Lemmas.Html
import PoorModel.Gen.Pages
import PoorModel.Debug
/-
C20 - diagnostic detail is disclosed only when debug is on.
(The dispatcher gate for /debug-info is part of the request model: Props/C20 imports it
 once PoorModel.Wsgi is in place; see C20_route.)
-/
namespace Poor.Props.C20
open Poor Poor.Html Poor.Debug

/-- the environment override takes precedence over the application attribute -/
theorem debug_precedence (attr : Bool) :
    effectiveDebug none attr = attr ∧
    effectiveDebug (some []) attr = attr ∧
    (∀ v, v ≠ [] → effectiveDebug (some v) attr = (lowerAscii v == "on".toList)) := by
  refine ⟨rfl, rfl, ?_⟩
  intro v hv
  cases v with
  | nil => exact absurd rfl hv
  | cons c rest => rfl

/-- On / on / ON switch debug on, Off / off / anything else switch it off - whatever the attribute -/
theorem debug_override_cases (attr : Bool) :
    effectiveDebug (some "On".toList) attr = true ∧ effectiveDebug (some "on".toList) attr = true ∧
    effectiveDebug (some "ON".toList) attr = true ∧ effectiveDebug (some "Off".toList) attr = false ∧
    effectiveDebug (some "off".toList) attr = false ∧ effectiveDebug (some "yes".toList) attr = false := by
  cases attr <;> decide

/-- static check over the generated templates: with debug off no page that is served
    regardless of the debug setting can reach a diagnostic hole -/
theorem pages_diag_free : ∀ p ∈ Gen.Pages.ungated, diagFreeOff p.2 = true := by decide +kernel

/-- **C20 (pages).** With debug off, no rendering of any ungated built-in page (400, 401,
    403, 404, 405, 500, 501, directory listing) contains a character from a diagnostic
    hole: exception type/message/traceback, handler internals, server software. -/
theorem C20_pages : ∀ p ∈ Gen.Pages.ungated, ∀ xs, Renders false p.2 xs → ∀ r ∈ xs, r.diag = false :=
  fun p hp _ hr => diagFree_sound hr (pages_diag_free p hp)

/-- non-vacuity: the 500 page does contain diagnostic holes when debug is on -/
example : diagFreeOff (.ifDebug (.hole .diagnostic) .empty) = true ∧
          diagFreeOff (.seq (.hole .diagnostic) .empty) = false := by decide

end Poor.Props.C20
