import PoorModel.Digest
import PoorProofs.Lemmas.Digest
/-
C11 - digest-protected endpoints run only for correctly authenticated requests.
-/
namespace Poor.Props.C11
open Poor Poor.Digest

variable (H Hn : Str → Str)

/-- the `response` value the server expects for the parsed fields `d` and the stored hash -/
def expectedResponse (app : App) (rq : Rq) (d : Dict) (stored : Str) : Str :=
  let g := fun k => (dget d k).getD []
  let hash1 := if isSess app.algorithm then H (colon [stored, g "nonce", g "cnonce"]) else stored
  let hash2 := H (colon [rq.method, g "uri"])
  if !app.qop.isEmpty then H (colon [hash1, g "nonce", g "nc", g "cnonce", g "qop", hash2])
  else H (colon [hash1, g "nonce", hash2])

/-- the specification of "correctly authenticated", field by field (RFC 7616 with the server's
    configuration): what must hold of the parsed credentials `d` for user `u` -/
structure Valid (app : App) (rq : Rq) (realm : Str) (reqUser : Option Str) (d : Dict) (u : Str) : Prop where
  schemeOk : dget d "type" = some "Digest".toList
  nonceOk : ∃ n, dget d "nonce" = some n ∧ Token.checkToken Hn n app.secret rq.agent app.timeout rq.now = true
  algOk : dget d "algorithm" = some app.algorithm
  opaqOk : dget d "opaque" = some app.opaq
  uriOk : ∃ uri u' full, dget d "uri" = some uri ∧ Query.unquote uri = some u' ∧ comparePath rq = some full ∧
          endsWith u' full = true
  qopOk : app.qop.isEmpty = false → dget d "qop" = some app.qop
  realmOk : dget d "realm" = some realm
  userOk : dget d "username" = some u
  requiredOk : ∀ n, reqUser = some n → n.isEmpty = false → u = n
  responseOk : ∃ stored, lookupUser app realm u = some stored ∧ stored.isEmpty = false ∧
          dget d "response" = some (expectedResponse H app rq d stored)
  fieldsOk : ∀ k ∈ required app, (dget d k).isSome = true

theorem checkResponse_eq (app : App) (rq : Rq) (d : Dict) (stored : Str)
    (hn : (dget d "nonce").isSome) (hu : (dget d "uri").isSome) (hr : (dget d "response").isSome)
    (hc : isSess app.algorithm = true ∨ app.qop.isEmpty = false → (dget d "cnonce").isSome)
    (hq : app.qop.isEmpty = false → (dget d "nc").isSome ∧ (dget d "qop").isSome) :
    checkResponse H app rq d stored = some (some (expectedResponse H app rq d stored) == dget d "response") := by
  obtain ⟨n, hn⟩ := Option.isSome_iff_exists.1 hn
  obtain ⟨u, hu⟩ := Option.isSome_iff_exists.1 hu
  obtain ⟨r, hr⟩ := Option.isSome_iff_exists.1 hr
  unfold checkResponse expectedResponse
  simp only [hn, hu, hr, Option.getD_some]
  cases hs : isSess app.algorithm <;> cases hqe : app.qop.isEmpty
  · obtain ⟨c, hc⟩ := Option.isSome_iff_exists.1 (hc (Or.inr hqe))
    obtain ⟨⟨nc, hnc⟩, ⟨q, hq⟩⟩ := (fun h => (⟨Option.isSome_iff_exists.1 h.1, Option.isSome_iff_exists.1 h.2⟩ :
      (∃ a, dget d "nc" = some a) ∧ (∃ a, dget d "qop" = some a))) (hq hqe)
    simp [hc, hnc, hq, bind, Option.bind, pure]
  · simp [bind, Option.bind, pure]
  · obtain ⟨c, hc⟩ := Option.isSome_iff_exists.1 (hc (Or.inr hqe))
    obtain ⟨⟨nc, hnc⟩, ⟨q, hq⟩⟩ := (fun h => (⟨Option.isSome_iff_exists.1 h.1, Option.isSome_iff_exists.1 h.2⟩ :
      (∃ a, dget d "nc" = some a) ∧ (∃ a, dget d "qop" = some a))) (hq hqe)
    simp [hc, hnc, hq, bind, Option.bind, pure]
  · obtain ⟨c, hc⟩ := Option.isSome_iff_exists.1 (hc (Or.inl hs))
    simp [hc, bind, Option.bind, pure]


theorem required_some (app : App) (d : Dict)
    (h : (required app).any (fun k => (dget d k).isNone) = false) :
    ∀ k ∈ required app, (dget d k).isSome = true := by
  intro k hk
  have := List.any_eq_false.1 h k hk
  cases hd : dget d k <;> simp_all

theorem required_any (app : App) (d : Dict) (h : ∀ k ∈ required app, (dget d k).isSome = true) :
    (required app).any (fun k => (dget d k).isNone) = false := by
  apply List.any_eq_false.2
  intro k hk
  have := h k hk
  cases hd : dget d k <;> simp_all

theorem cnonce_required (app : App) (h : isSess app.algorithm = true ∨ app.qop.isEmpty = false) :
    "cnonce" ∈ required app := by
  unfold required
  rcases h with h | h
  · cases hq : app.qop.isEmpty <;> simp [h]
  · simp [h]

/-- **soundness and completeness of the gate in one statement**: the protected endpoint runs, as
    user `u`, exactly when the parsed credentials are valid for `u` -/
theorem gate_run_iff (app : App) (rq : Rq) (realm : Str) (reqUser : Option Str) (d : Dict) (u : Str) :
    gate H Hn app rq realm reqUser (some d) = .run u ↔ Valid H Hn app rq realm reqUser d u := by
  constructor
  · intro h
    unfold gate at h
    simp only at h
    cases htype : (dget d "type" != some "Digest".toList) with
    | true =>
      rw [if_pos htype] at h
      cases h
    | false =>
      have ht : dget d "type" = some "Digest".toList := by simpa using htype
      cases hnv : nonceValid Hn app rq d
      · simp [ht, hnv] at h
      cases hcred : checkCredentials H app rq realm reqUser d with
      | none => simp [ht, hnv, hcred] at h
      | some b =>
        cases b
        · simp [ht, hnv, hcred] at h
        cases huser : dget d "username" with
        | none => simp [ht, hnv, hcred, huser] at h
        | some u' =>
          simp [ht, hnv, hcred, huser] at h
          subst h
          -- unpack checkCredentials
          unfold checkCredentials at hcred
          cases hpre : preChecks app d
          · simp [hpre] at hcred
          cases hum : uriMatches rq d with
          | none => simp [hpre, hum] at hcred
          | some b =>
            cases b
            · simp [hpre, hum] at hcred
            cases hpost : postChecks app realm reqUser d
            · simp [hpre, hum, hpost] at hcred
            cases hst : storedHash app realm d with
            | none => simp [hpre, hum, hpost, hst] at hcred
            | some stored =>
              simp [hpre, hum, hpost, hst] at hcred
              -- the pieces
              simp only [preChecks, Bool.and_eq_true, Bool.not_eq_true', beq_iff_eq] at hpre
              obtain ⟨⟨hreq, halg⟩, hopq⟩ := hpre
              have hfields := required_some app d hreq
              simp only [postChecks, Bool.and_eq_true, Bool.or_eq_true, beq_iff_eq] at hpost
              obtain ⟨⟨hqop, hrealm⟩, hrequ⟩ := hpost
              have hnonce' : ∃ n, dget d "nonce" = some n ∧
                  Token.checkToken Hn n app.secret rq.agent app.timeout rq.now = true := by
                unfold nonceValid at hnv
                cases hn : dget d "nonce" with
                | none => simp [hn] at hnv
                | some n => exact ⟨n, rfl, by simpa [hn] using hnv⟩
              have hqop' : app.qop.isEmpty = false → dget d "qop" = some app.qop := by
                intro hq
                rcases hqop with hqop | hqop
                · rw [hq] at hqop; cases hqop
                · exact hqop
              have huri' : ∃ uri u' full, dget d "uri" = some uri ∧ Query.unquote uri = some u' ∧
                  comparePath rq = some full ∧ endsWith u' full = true := by
                unfold uriMatches at hum
                cases hu : dget d "uri" with
                | none => simp [hu] at hum
                | some uri =>
                  cases hq : Query.unquote uri with
                  | none => simp [hu, hq] at hum
                  | some u' =>
                    cases hf : comparePath rq with
                    | none => simp [hu, hq, hf] at hum
                    | some full => exact ⟨uri, u', full, rfl, hq, rfl, by simpa [hu, hq, hf] using hum⟩
              have hst' : lookupUser app realm u' = some stored ∧ stored.isEmpty = false := by
                unfold storedHash at hst
                rw [huser] at hst
                simp only [Option.bind_some] at hst
                cases hl : lookupUser app realm u' with
                | none => simp [hl] at hst
                | some s' =>
                  cases he : s'.isEmpty
                  · simp [hl, he] at hst; subst hst; exact ⟨rfl, he⟩
                  · simp [hl, he] at hst
              have hresp := checkResponse_eq H app rq d stored
                (by obtain ⟨n, hn, _⟩ := hnonce'; simp [hn])
                (by obtain ⟨uri, _, _, hu, _⟩ := huri'; simp [hu])
                (hfields "response" (by simp [required]))
                (fun hc => hfields _ (cnonce_required app hc))
                (by
                  intro hq
                  refine ⟨hfields "nc" (by simp [required, hq]), ?_⟩
                  rw [hqop' hq]; rfl)
              rw [hresp] at hcred
              have hresp' : dget d "response" = some (expectedResponse H app rq d stored) := by
                have : (some (expectedResponse H app rq d stored) == dget d "response") = true := by
                  simpa using hcred
                exact (beq_iff_eq.1 this).symm
              exact {
                schemeOk := ht
                nonceOk := hnonce'
                algOk := halg
                opaqOk := hopq
                uriOk := huri'
                qopOk := hqop'
                realmOk := hrealm
                userOk := huser
                requiredOk := by
                  intro n hn hne'
                  subst hn
                  simp only [userRequired, hne', Bool.false_or, beq_iff_eq, huser] at hrequ
                  simpa using hrequ
                responseOk := ⟨stored, hst'.1, hst'.2, hresp'⟩
                fieldsOk := hfields }
  · intro v
    obtain ⟨n, hn, hnok⟩ := v.nonceOk
    obtain ⟨uri, u', full, huri, hunq, hfull, hends⟩ := v.uriOk
    obtain ⟨stored, hstored, hne, hresp⟩ := v.responseOk
    have hreq := required_any app d v.fieldsOk
    have hcr := checkResponse_eq H app rq d stored (by simp [hn]) (by simp [huri]) (by simp [hresp])
      (fun hc => v.fieldsOk _ (cnonce_required app hc))
      (by
        intro hq
        refine ⟨v.fieldsOk "nc" (by simp [required, hq]), ?_⟩
        rw [v.qopOk hq]; rfl)
    have hpre : preChecks app d = true := by
      simp [preChecks, hreq, v.algOk, v.opaqOk]
    have hum : uriMatches rq d = some true := by
      simp [uriMatches, huri, hunq, hfull, hends]
    have hpost : postChecks app realm reqUser d = true := by
      have h1 : (app.qop.isEmpty || dget d "qop" == some app.qop) = true := by
        cases hqe : app.qop.isEmpty
        · simp [v.qopOk hqe]
        · simp
      have h3 : userRequired reqUser d = true := by
        unfold userRequired
        cases reqUser with
        | none => rfl
        | some n =>
          cases hne' : n.isEmpty
          · have := v.requiredOk n rfl hne'
            simp [v.userOk, this]
          · simp only [hne', Bool.true_or]
      simp [postChecks, h1, h3, v.realmOk]
    have hst : storedHash app realm d = some stored := by
      simp [storedHash, v.userOk, hstored, hne]
    have hcred : checkCredentials H app rq realm reqUser d = some true := by
      unfold checkCredentials
      simp [hpre, hum, hpost, hst, hcr, hresp]
    have hnv : nonceValid Hn app rq d = true := by simp [nonceValid, hn, hnok]
    unfold gate
    simp [v.schemeOk, hnv, hcred, v.userOk]

/-- a request without an Authorization header never reaches the endpoint: fresh challenge -/
theorem C11_no_header (app : App) (rq : Rq) (realm : Str) (reqUser : Option Str) :
    gate H Hn app rq realm reqUser none = .unauthorized false := rfl

/-- **soundness**: whatever the header holds, if the endpoint runs then the credentials are valid
    for the user attached to the request -/
theorem C11_sound (app : App) (rq : Rq) (realm : Str) (reqUser : Option Str) (d : Dict) (u : Str)
    (h : gate H Hn app rq realm reqUser (some d) = .run u) : Valid H Hn app rq realm reqUser d u :=
  (gate_run_iff H Hn app rq realm reqUser d u).1 h

/-- every other request: if the credentials are not valid for any user, the endpoint does not run -/
theorem C11_reject (app : App) (rq : Rq) (realm : Str) (reqUser : Option Str) (hdr : Option Dict)
    (h : ∀ d u, hdr = some d → ¬ Valid H Hn app rq realm reqUser d u) :
    ∀ u, gate H Hn app rq realm reqUser hdr ≠ .run u := by
  intro u hg
  cases hdr with
  | none => cases hg
  | some d => exact h d u rfl ((gate_run_iff H Hn app rq realm reqUser d u).1 hg)

/-- stale is reported exactly for Digest credentials whose nonce does not verify - in particular
    never while the nonce is current, and always when only the nonce is out of date -/
theorem C11_stale_iff (app : App) (rq : Rq) (realm : Str) (reqUser : Option Str) (d : Dict) :
    gate H Hn app rq realm reqUser (some d) = .unauthorized true ↔
      (dget d "type" = some "Digest".toList ∧ nonceValid Hn app rq d = false) := by
  unfold gate
  simp only
  cases htype : (dget d "type" != some "Digest".toList)
  · have ht : dget d "type" = some "Digest".toList := by simpa using htype
    cases hnv : nonceValid Hn app rq d
    · simp [ht]
    · simp only [ht, Bool.not_true, Bool.false_eq_true, if_false, true_and]
      cases hcred : checkCredentials H app rq realm reqUser d with
      | none => simp
      | some b =>
        cases b
        · simp
        · cases dget d "username" <;> simp
  · have ht : dget d "type" ≠ some "Digest".toList := by simpa using htype
    constructor
    · intro h; simp at h
    · intro h; exact absurd h.1 ht


/-! ### completeness: a client that follows RFC 7616 -/

theorem clientDict_get (app : App) (m : Str) (c : Client) :
    dget (clientDict H app m c) "username" = some c.user ∧
    dget (clientDict H app m c) "realm" = some c.realm ∧
    dget (clientDict H app m c) "nonce" = some c.nonce ∧
    dget (clientDict H app m c) "uri" = some c.uri ∧
    dget (clientDict H app m c) "algorithm" = some app.algorithm ∧
    dget (clientDict H app m c) "response" = some (clientResponse H app m c) ∧
    dget (clientDict H app m c) "opaque" = some app.opaq ∧
    dget (clientDict H app m c) "qop" = some app.qop ∧
    dget (clientDict H app m c) "nc" = some c.nc ∧
    dget (clientDict H app m c) "cnonce" = some c.cnonce ∧
    dget (clientDict H app m c) "type" = some "Digest".toList := by
  refine ⟨?_, ?_, ?_, ?_, ?_, ?_, ?_, ?_, ?_, ?_, ?_⟩ <;> simp [clientDict, dget, List.find?]

/-- **completeness**: for every configuration (algorithm, qop, timeout, user table), every method and
    URI, a client that holds a registered user's password and a nonce that verifies now, and
    computes its credentials as RFC 7616 prescribes, reaches the endpoint with its user name
    attached - for any hash function -/
theorem C11_complete (app : App) (rq : Rq) (c : Client) (reqUser : Option Str)
    (hreg : lookupUser app c.realm c.user = some (a1 H c)) (hne : (a1 H c).isEmpty = false)
    (hnonce : Token.checkToken Hn c.nonce app.secret rq.agent app.timeout rq.now = true)
    (huri : ∃ u full, Query.unquote c.uri = some u ∧ comparePath rq = some full ∧ endsWith u full = true)
    (hreq : ∀ n, reqUser = some n → n.isEmpty = false → c.user = n) :
    gate H Hn app rq c.realm reqUser (some (clientDict H app rq.method c)) = .run c.user := by
  obtain ⟨g1, g2, g3, g4, g5, g6, g7, g8, g9, g10, g11⟩ := clientDict_get H app rq.method c
  obtain ⟨u, full, hu1, hu2, hu3⟩ := huri
  apply (gate_run_iff H Hn app rq c.realm reqUser _ c.user).2
  exact {
    schemeOk := g11
    nonceOk := ⟨c.nonce, g3, hnonce⟩
    algOk := g5
    opaqOk := g7
    uriOk := ⟨c.uri, u, full, g4, hu1, hu2, hu3⟩
    qopOk := fun _ => g8
    realmOk := g2
    userOk := g1
    requiredOk := hreq
    responseOk := ⟨a1 H c, hreg, hne, by
      rw [g6]
      unfold expectedResponse clientResponse
      simp only [g3, g4, g8, g9, g10, Option.getD_some]⟩
    fieldsOk := by
      intro k hk
      unfold required at hk
      simp only [List.mem_append, List.mem_cons, List.not_mem_nil, or_false] at hk
      rcases hk with (rfl | rfl) | hk
      · simp [g4]
      · simp [g6]
      · split at hk
        · simp only [List.mem_cons, List.not_mem_nil, or_false] at hk
          rcases hk with rfl | rfl
          · simp [g9]
          · simp [g10]
        · split at hk
          · simp only [List.mem_cons, List.not_mem_nil, or_false] at hk
            subst hk; simp [g10]
          · cases hk }

/-- **completeness from the header text**: the Authorization header itself - tokenized by the
    model of `RE_AUTHORIZATION`, unquoted, transcoded - lets the client in.  (Values must be
    non-empty and free of `"` in their wire form, as RFC 7616 quoted strings without escapes are.) -/
theorem C11_complete_wire (app : App) (rq : Rq) (c : Client) (reqUser : Option Str)
    (hv : ∀ kv ∈ wireFields H app rq.method c, kv.2 ≠ [] ∧ '"' ∉ kv.2)
    (hreg : lookupUser app c.realm c.user = some (a1 H c)) (hne : (a1 H c).isEmpty = false)
    (hnonce : Token.checkToken Hn c.nonce app.secret rq.agent app.timeout rq.now = true)
    (huri : ∃ u full, Query.unquote c.uri = some u ∧ comparePath rq = some full ∧ endsWith u full = true)
    (hreq : ∀ n, reqUser = some n → n.isEmpty = false → c.user = n) :
    (authDict (renderAuth (wireFields H app rq.method c))).map
        (fun d => gate H Hn app rq c.realm reqUser (some d)) = some (.run c.user) := by
  rw [C11_wire H app rq.method c hv]
  simp only [Option.map_some]
  rw [C11_complete H Hn app rq c reqUser hreg hne hnonce huri hreq]

/-! ### the known finding: the uri is compared by suffix -/

theorem endsWith_append (pre s : Str) : endsWith (pre ++ s) s = true := by
  unfold endsWith
  simp

/-- **known finding (C11, key uri-suffix)**: credentials computed for `pre ++ path` - any prefix -
    run the endpoint at `path`.  The full soundness claim "wrong URI never runs the endpoint" is
    therefore false of the code; `C11_sound` states what does hold (the uri ends with the path). -/
theorem C11_uri_suffix_accepted (app : App) (rq : Rq) (c : Client) (pre : Str)
    (hq : rq.query = []) (huri : c.uri = pre ++ rq.path) (hpct : c.uri.contains '%' = false)
    (hreg : lookupUser app c.realm c.user = some (a1 H c)) (hne : (a1 H c).isEmpty = false)
    (hnonce : Token.checkToken Hn c.nonce app.secret rq.agent app.timeout rq.now = true) :
    gate H Hn app rq c.realm none (some (clientDict H app rq.method c)) = .run c.user := by
  apply C11_complete H Hn app rq c none hreg hne hnonce
  · refine ⟨c.uri, rq.path, ?_, ?_, ?_⟩
    · unfold Query.unquote; rw [hpct]; rfl
    · simp [comparePath, hq, HeaderValue.strip]
    · rw [huri]; exact endsWith_append pre rq.path
  · intro n hn; cases hn

/-! ### what soundness gives under a collision-free hash -/

theorem colon_head_inj (x x' : Str) (r r' : List Str) (hx : ':' ∉ x) (hx' : ':' ∉ x')
    (hr : r ≠ []) (hr' : r' ≠ []) (h : colon (x :: r) = colon (x' :: r')) : x = x' := by
  have e1 : ∀ (y : Str) (t : List Str), t ≠ [] → ∃ rest, colon (y :: t) = y ++ ':' :: rest := by
    intro y t ht
    cases t with
    | nil => exact absurd rfl ht
    | cons a t' => exact ⟨colon (a :: t'), by simp [colon, List.intercalate, List.intersperse]⟩
  obtain ⟨rest, h1⟩ := e1 x r hr
  obtain ⟨rest', h2⟩ := e1 x' r' hr'
  rw [h1, h2] at h
  clear h1 h2 e1
  induction x generalizing x' with
  | nil =>
    cases x' with
    | nil => rfl
    | cons c t =>
      simp only [List.nil_append, List.cons_append, List.cons.injEq] at h
      exact absurd (by rw [← h.1]; simp) hx'
  | cons c t ih =>
    cases x' with
    | nil =>
      simp only [List.nil_append, List.cons_append, List.cons.injEq] at h
      exact absurd (by rw [h.1]; simp) hx
    | cons c' t' =>
      simp only [List.cons_append, List.cons.injEq] at h
      rw [h.1, ih t' (fun hm => hx (by simp [hm])) (fun hm => hx' (by simp [hm])) h.2]

/-- a collision of `H`: two different texts with the same digest -/
def Collision : Prop := ∃ a b : Str, a ≠ b ∧ H a = H b

/-- two different secrets that lead to the same expected response exhibit a collision of the hash
    (digests are hex strings: they contain no `:`) -/
theorem expectedResponse_collision (hcol : ∀ s, ':' ∉ H s)
    (app : App) (rq : Rq) (d : Dict) (s s' : Str) (hs : ':' ∉ s) (hs' : ':' ∉ s') (hne : s ≠ s')
    (h : expectedResponse H app rq d s = expectedResponse H app rq d s') : Collision H := by
  unfold expectedResponse at h
  simp only at h
  -- one hashing step: equal digests of `colon (x :: r)`, `colon (x' :: r)` with x ≠ x'
  have step : ∀ (x x' : Str) (r : List Str), ':' ∉ x → ':' ∉ x' → r ≠ [] → x ≠ x' →
      H (colon (x :: r)) = H (colon (x' :: r)) → Collision H := by
    intro x x' r hx hx' hr hxx hh
    exact ⟨_, _, fun he => hxx (colon_head_inj x x' r r hx hx' hr hr he), hh⟩
  cases hsess : isSess app.algorithm <;> cases hq : app.qop.isEmpty <;>
    simp only [hsess, hq, Bool.not_false, Bool.not_true, if_true, if_false, Bool.false_eq_true] at h
  · exact step _ _ _ hs hs' (by simp) hne h
  · exact step _ _ _ hs hs' (by simp) hne h
  · by_cases hi : H (colon [s, (dget d "nonce").getD [], (dget d "cnonce").getD []]) =
        H (colon [s', (dget d "nonce").getD [], (dget d "cnonce").getD []])
    · exact step _ _ _ hs hs' (by simp) hne hi
    · exact step _ _ _ (hcol _) (hcol _) (by simp) hi h
  · by_cases hi : H (colon [s, (dget d "nonce").getD [], (dget d "cnonce").getD []]) =
        H (colon [s', (dget d "nonce").getD [], (dget d "cnonce").getD []])
    · exact step _ _ _ hs hs' (by simp) hne hi
    · exact step _ _ _ (hcol _) (hcol _) (by simp) hi h

/-- **wrong password / foreign secret**: if the response was computed from any secret other than the
    one stored for the named user (another password, another user's or realm's hash) and the
    endpoint nevertheless runs, a collision of the hash function has been produced.  (No
    injectivity is assumed - no hash with a fixed digest length is injective - this is the usual
    reduction: breaking the gate is as hard as finding a collision.) -/
theorem C11_wrong_secret_collision (hcol : ∀ s, ':' ∉ H s)
    (app : App) (rq : Rq) (realm : Str) (reqUser : Option Str) (d : Dict) (u u' stored other : Str)
    (huser : dget d "username" = some u) (hst : lookupUser app realm u = some stored)
    (hsc : ':' ∉ stored) (hoc : ':' ∉ other) (hne : other ≠ stored)
    (hresp : dget d "response" = some (expectedResponse H app rq d other))
    (hg : gate H Hn app rq realm reqUser (some d) = .run u') : Collision H := by
  have v := C11_sound H Hn app rq realm reqUser d u' hg
  have hu : u' = u := by
    have := v.userOk
    rw [huser] at this
    exact (Option.some.inj this).symm
  subst hu
  obtain ⟨stored', h1, _, h3⟩ := v.responseOk
  rw [hst] at h1
  cases h1
  rw [hresp] at h3
  exact expectedResponse_collision H hcol app rq d other stored hoc hsc hne (Option.some.inj h3)

/-- the gate never lets an exception escape (no 500), whatever the header holds - as long as the
    percent-escapes involved are UTF-8 (the part of `unquote` the model covers) -/
theorem C11_no_error (app : App) (rq : Rq) (realm : Str) (reqUser : Option Str) (hdr : Option Dict)
    (hdec : ∀ d uri, hdr = some d → dget d "uri" = some uri → (Query.unquote uri).isSome = true)
    (hq : (comparePath rq).isSome = true) :
    gate H Hn app rq realm reqUser hdr ≠ .error := by
  cases hdr with
  | none => intro h; cases h
  | some d =>
    intro h
    unfold gate at h
    simp only at h
    cases htype : (dget d "type" != some "Digest".toList) with
    | true => rw [if_pos htype] at h; cases h
    | false =>
      have ht : dget d "type" = some "Digest".toList := by simpa using htype
      cases hnv : nonceValid Hn app rq d with
      | false => simp [ht, hnv] at h
      | true =>
        have hnonce : (dget d "nonce").isSome = true := by
          unfold nonceValid at hnv
          cases hn : dget d "nonce" with
          | none => simp [hn] at hnv
          | some n => rfl
        cases hcred : checkCredentials H app rq realm reqUser d with
        | some b =>
          cases b
          · simp [ht, hnv, hcred] at h
          · cases huser : dget d "username" with
            | some u => simp [ht, hnv, hcred, huser] at h
            | none =>
              -- credentials cannot check out without a user name
              unfold checkCredentials at hcred
              cases hpre : preChecks app d
              · simp [hpre] at hcred
              cases hum : uriMatches rq d with
              | none => simp [hpre, hum] at hcred
              | some b =>
                cases b
                · simp [hpre, hum] at hcred
                cases hpost : postChecks app realm reqUser d
                · simp [hpre, hum, hpost] at hcred
                have : storedHash app realm d = none := by simp [storedHash, huser]
                simp [hpre, hum, hpost, this] at hcred
        | none =>
          unfold checkCredentials at hcred
          cases hpre : preChecks app d
          · simp [hpre] at hcred
          have hpre' := hpre
          simp only [preChecks, Bool.and_eq_true, Bool.not_eq_true', beq_iff_eq] at hpre'
          obtain ⟨⟨hreq, _⟩, _⟩ := hpre'
          have hfields := required_some app d hreq
          have huri : (dget d "uri").isSome = true := hfields "uri" (by simp [required])
          cases hum : uriMatches rq d with
          | none =>
            unfold uriMatches at hum
            obtain ⟨uri, hu⟩ := Option.isSome_iff_exists.1 huri
            obtain ⟨u', hu'⟩ := Option.isSome_iff_exists.1 (hdec d uri rfl hu)
            obtain ⟨full, hf⟩ := Option.isSome_iff_exists.1 hq
            simp [hu, hu', hf] at hum
          | some b =>
            cases b
            · simp [hpre, hum] at hcred
            cases hpost : postChecks app realm reqUser d
            · simp [hpre, hum, hpost] at hcred
            cases hst : storedHash app realm d with
            | none => simp [hpre, hum, hpost, hst] at hcred
            | some stored =>
              simp only [postChecks, Bool.and_eq_true, Bool.or_eq_true, beq_iff_eq] at hpost
              obtain ⟨⟨hqop, _⟩, _⟩ := hpost
              have hresp := checkResponse_eq H app rq d stored hnonce huri
                (hfields "response" (by simp [required]))
                (fun hc => hfields _ (cnonce_required app hc))
                (by
                  intro hqe
                  refine ⟨hfields "nc" (by simp [required, hqe]), ?_⟩
                  rcases hqop with hqop | hqop
                  · rw [hqe] at hqop; cases hqop
                  · rw [hqop]; rfl)
              simp [hpre, hum, hst, hresp, postChecks, hqop] at hcred
              split at hcred <;> cases hcred

/-! ### non-vacuity -/

def H0 (s : Str) : Str := 'h' :: s.map fun c => if c = ':' then ';' else c
def c0 : Client where
  user := "u".toList
  realm := "Z".toList
  password := "pw".toList
  nonce := H0 (Token.tokenText "k".toList none "UA".toList)
  cnonce := "c".toList
  nc := "1".toList
  uri := "/x/p".toList
def app0 : App where
  algorithm := "MD5-sess".toList
  qop := "auth".toList
  opaq := "o".toList
  users := [(("Z".toList, "u".toList), a1 H0 c0)]
  secret := "k".toList
  timeout := none
def rq0 : Rq where
  method := "GET".toList
  path := "/p".toList
  query := []
  agent := "UA".toList
  now := 5

/-- the hypotheses of `C11_complete` are satisfiable: a concrete client, application and request -/
example : gate H0 H0 app0 rq0 "Z".toList none (some (clientDict H0 app0 rq0.method c0)) = .run "u".toList := by
  apply C11_complete H0 H0 app0 rq0 c0 none
  · decide
  · decide
  · decide
  · refine ⟨"/x/p".toList, "/p".toList, ?_, ?_, ?_⟩
    · unfold Query.unquote; rfl
    · decide
    · decide
  · intro n hn; cases hn
/-- ... and so is the digest hypothesis of the collision reduction -/
example : ∀ s, ':' ∉ H0 s := by
  intro s h
  simp only [H0, List.mem_cons, List.mem_map] at h
  rcases h with h | ⟨c, _, hc⟩
  · exact absurd h (by decide)
  · split at hc <;> simp_all

end Poor.Props.C11
