import PoorProofs.Lemmas.HeaderValue
import PoorProofs.Lemmas.Date
import PoorModel.Gen.Patterns
import Std.Data.String.ToNat
/-
C18 - header values the library renders parse back to the same value.
-/
namespace Poor.Props.C18
open Poor Poor.HeaderValue

/-- the range scanner was written for exactly this pattern text (regenerated from headers.py) -/
theorem pattern_pinned : Gen.Patterns.RE_BYTES_RANGE = "(\\d*)-(\\d*),?" := by decide

/-- parameter names as `add_header(**kwargs)` produces them and `parse_header` returns them:
    non-empty, lower-case, free of separators and white space -/
def KeyOK (k : Str) : Prop :=
  k ≠ [] ∧ ∀ c ∈ k, c ≠ '=' ∧ c ≠ ';' ∧ c ≠ '"' ∧ isSpace c = false ∧ c.toLower = c

/-- a main value (media type, disposition): non-empty, no `;`, no `"`, no white space -/
def MainOK (m : Str) : Prop := m ≠ [] ∧ ∀ c ∈ m, c ≠ ';' ∧ c ≠ '"' ∧ isSpace c = false

theorem getLast?_of_all {P : Char → Prop} (s : Str) (hs : s ≠ []) (h : ∀ c ∈ s, P c) :
    ∃ d, s.getLast? = some d ∧ P d := by
  refine ⟨s.getLast hs, List.getLast?_eq_getLast hs, h _ (List.getLast_mem hs)⟩

theorem strip_nospace (s : Str) (hs : s ≠ []) (h : ∀ c ∈ s, isSpace c = false) : strip s = s := by
  cases hcs : s with
  | nil => exact absurd hcs hs
  | cons c t =>
    obtain ⟨d, hd1, hd2⟩ := getLast?_of_all (P := fun c => isSpace c = false) s hs h
    rw [← hcs]
    exact strip_id s c t hcs (h c (by simp [hcs])) d hd1 hd2

theorem takeWhile_key (k rest : Str) (hk : ∀ c ∈ k, c ≠ '=') :
    (k ++ '=' :: rest).takeWhile (· != '=') = k ∧ (k ++ '=' :: rest).dropWhile (· != '=') = '=' :: rest := by
  induction k with
  | nil => simp [List.takeWhile, List.dropWhile]
  | cons c t ih =>
    have hc : (c != '=') = true := by simpa using hk c (by simp)
    have := ih (fun x hx => hk x (by simp [hx]))
    simp [List.takeWhile, List.dropWhile, hc, this]

/-- **one parameter**: whatever the (non-empty) value contains - spaces, `;`, `"`, `\\`, `=`,
    `,`, non-ASCII text - parsing its rendering returns the name and exactly that value -/
theorem parseOne_render (k v : Str) (hk : KeyOK k) : parseOne (renderParam k v) = some (k, v) := by
  obtain ⟨hne, hall⟩ := hk
  have hsplit := takeWhile_key k ('"' :: escQ v ++ ['"']) (fun c hc => (hall c hc).1)
  have hform : renderParam k v = k ++ '=' :: ('"' :: escQ v ++ ['"']) := by
    simp [renderParam, List.append_assoc]
  have hkstrip : strip k = k := strip_nospace k hne (fun c hc => (hall c hc).2.2.2.1)
  have hklow : lowerAscii k = k := by
    unfold lowerAscii
    conv => rhs; rw [← List.map_id k]
    apply List.map_congr_left
    intro c hc; exact (hall c hc).2.2.2.2
  have hlast : ('"' :: escQ v ++ ['"']).getLast? = some '"' := by
    rw [show ('"' :: escQ v ++ ['"']) = ('"' :: escQ v) ++ ['"'] by simp]
    exact List.getLast?_concat
  have hval : strip ('"' :: escQ v ++ ['"']) = '"' :: escQ v ++ ['"'] :=
    strip_id _ '"' (escQ v ++ ['"']) rfl (by decide) '"' hlast (by decide)
  have hpv : paramValue (renderParam k v) = '"' :: escQ v ++ ['"'] := by
    unfold paramValue; rw [hform, hsplit.2]; simpa using hval
  have huq : unquoteIfQuoted ('"' :: escQ v ++ ['"']) = v := by
    unfold unquoteIfQuoted
    have h1 : decide (('"' :: escQ v ++ ['"']).length ≥ 2) = true := by simp
    have h2 : ('"' :: escQ v ++ ['"']).head? = some '"' := rfl
    have h4 : (('"' :: escQ v ++ ['"']).drop 1).dropLast = escQ v := by simp
    rw [h1, h2, hlast, h4, unescape_escQ]
    simp
  unfold parseOne
  have hcont : (renderParam k v).contains '=' = true := by rw [hform]; simp
  rw [if_pos hcont, hpv, huq]
  rw [hform, hsplit.1, hkstrip, hklow]

/-- the text after the main value: `; k1="v1"; k2="v2" ...` -/
def tail (ps : List (Str × Str)) : Str := ps.flatMap fun kv => ';' :: ' ' :: renderParam kv.1 kv.2

theorem renderHeader_eq (main : Str) (ps : List (Str × Str)) :
    renderHeader (some main) ps = main ++ tail ps := by
  unfold renderHeader tail
  simp only [Option.toList_some, List.singleton_append]
  induction ps generalizing main with
  | nil => simp [List.intercalate]
  | cons kv t ih =>
    have := ih (renderParam kv.1 kv.2)
    simp only [List.map_cons, List.flatMap_cons]
    rw [List.intercalate_cons_cons, this]
    simp [List.append_assoc]

theorem splitSeg_tail_head (ps : List (Str × Str)) :
    splitSeg false (tail ps) = ([], tail ps) := by
  cases ps with
  | nil => rfl
  | cons kv t => simp only [tail, List.flatMap_cons, List.cons_append]; rw [ss_semi]

/-- `_parseparam` cuts the rendered parameters exactly at their boundaries -/
theorem parseParam_tail (ps : List (Str × Str)) (hk : ∀ kv ∈ ps, KeyOK kv.1) :
    parseParam (tail ps) = ps.map fun kv => renderParam kv.1 kv.2 := by
  induction ps with
  | nil => simp [tail, parseParam]
  | cons kv t ih =>
    have hkv := hk kv (by simp)
    have ht := ih (fun x hx => hk x (by simp [hx]))
    have hform : tail (kv :: t) = ';' :: ((' ' :: kv.1 ++ ['=']) ++ '"' :: (escQ kv.2 ++ '"' :: tail t)) := by
      simp [tail, renderParam, List.append_assoc]
    rw [hform, parseParam]
    have hplain : ∀ c ∈ (' ' :: kv.1 ++ ['=']), c ≠ ';' ∧ c ≠ '"' := by
      intro c hc
      rcases List.mem_append.mp hc with h | h
      · rcases List.mem_cons.mp h with rfl | h
        · decide
        · exact ⟨(hkv.2 c h).2.1, (hkv.2 c h).2.2.1⟩
      · have : c = '=' := by simpa using h
        subst this; decide
    rw [splitSeg_plain _ _ hplain, ss_quote]
    simp only [Bool.not_false]
    rw [splitSeg_quoted, splitSeg_tail_head]
    simp only [List.append_nil]
    rw [ht]
    congr 1
    have hseg : (' ' :: kv.1 ++ ['=']) ++ '"' :: (escQ kv.2 ++ ['"']) = ' ' :: renderParam kv.1 kv.2 := by
      simp [renderParam, List.append_assoc]
    rw [hseg, strip_space_cons]
    obtain ⟨hne, hall⟩ := hkv
    cases hk1 : kv.1 with
    | nil => exact absurd hk1 hne
    | cons c r =>
      have hc := hall c (by simp [hk1])
      have hlast : (renderParam (c :: r) kv.2).getLast? = some '"' := by
        rw [show renderParam (c :: r) kv.2 = ((c :: r) ++ "=\"".toList ++ escQ kv.2) ++ ['"'] by
          simp [renderParam, List.append_assoc]]
        exact List.getLast?_concat
      show strip (renderParam (c :: r) kv.2) = renderParam kv.1 kv.2
      rw [hk1]
      exact strip_id (renderParam (c :: r) kv.2) c (r ++ "=\"".toList ++ escQ kv.2 ++ "\"".toList)
        (by simp [renderParam, List.append_assoc]) hc.2.2.2.1 '"' hlast (by decide)

theorem fold_dictSet (ps acc : List (Str × Str)) (hk : ∀ kv ∈ ps, KeyOK kv.1)
    (hnd : (acc.map (·.1) ++ ps.map (·.1)).Nodup) :
    (ps.map fun kv => renderParam kv.1 kv.2).foldl
      (fun d p => match parseOne p with | some (k, v) => dictSet d k v | none => d) acc = acc ++ ps := by
  induction ps generalizing acc with
  | nil => simp
  | cons kv t ih =>
    simp only [List.map_cons, List.foldl_cons, parseOne_render kv.1 kv.2 (hk kv (by simp))]
    have hnot : acc.any (fun e => e.1 == kv.1) = false := by
      rw [List.any_eq_false]
      intro e he heq
      have : e.1 = kv.1 := by simpa using heq
      rw [List.nodup_append] at hnd
      exact hnd.2.2 e.1 (List.mem_map.mpr ⟨e, he, rfl⟩) kv.1 (by simp) this
    have hds : dictSet acc kv.1 kv.2 = acc ++ [kv] := by simp [dictSet, hnot]
    rw [hds, ih (acc ++ [kv]) (fun x hx => hk x (by simp [hx])) (by simpa [List.append_assoc] using hnd)]
    simp [List.append_assoc]

/-- **C18 (parameterised values).** For every main value and every list of parameters with
    distinct names and arbitrary non-empty values, parsing what the library renders returns
    the original main value and exactly the parameters, in order. -/
theorem C18_params (main : Str) (ps : List (Str × Str)) (hm : MainOK main)
    (hk : ∀ kv ∈ ps, KeyOK kv.1) (hnd : (ps.map (·.1)).Nodup) :
    parseHeader (renderHeader (some main) ps) = (main, ps) := by
  rw [renderHeader_eq]
  unfold parseHeader
  rw [parseParam]
  have hplain : ∀ c ∈ main, c ≠ ';' ∧ c ≠ '"' := fun c hc => ⟨(hm.2 c hc).1, (hm.2 c hc).2.1⟩
  rw [splitSeg_plain _ _ hplain, splitSeg_tail_head, parseParam_tail ps hk]
  simp only [List.append_nil]
  rw [strip_nospace main hm.1 (fun c hc => (hm.2 c hc).2.2)]
  have := fold_dictSet ps [] hk (by simpa using hnd)
  simp only [List.nil_append] at this
  exact congrArg (Prod.mk main) this

/-- the three parsers are total functions of their input string (no input makes them fail) -/
theorem C18_total (s : Str) :
    (∃ r, parseHeader s = r) ∧ (∃ r, parseNegotiation s = r) ∧ (∃ r, parseRange s = r) :=
  ⟨⟨_, rfl⟩, ⟨_, rfl⟩, ⟨_, rfl⟩⟩

end Poor.Props.C18

namespace Poor.Props.C18
open Poor Poor.HeaderValue

/-! ### byte-range sets -/

def digitsOf (n : Nat) : Str := (toString n).toList

def renderOpt : Option Nat → Str
  | none => []
  | some n => digitsOf n

def renderItem (r : RangeT) : Str := renderOpt r.1 ++ '-' :: renderOpt r.2

/-- `",".join(items)` -/
def renderItems : List RangeT → Str
  | [] => []
  | [r] => renderItem r
  | r :: rs => renderItem r ++ ',' :: renderItems rs

theorem digitsOf_isDigit (n : Nat) : ∀ c ∈ digitsOf n, isDigit c = true := by
  intro c hc
  have h1 : c ∈ Nat.toDigits 10 n := by
    have := @Nat.toList_repr n
    simp only [digitsOf] at hc
    rw [show toString n = n.repr from rfl, this] at hc
    exact hc
  have hd := Nat.isDigit_of_mem_toDigits (by decide) (by decide) h1
  have := Char.isDigit_iff_toNat.mp hd
  simp only [isDigit, Bool.and_eq_true, decide_eq_true_eq]
  constructor
  · exact Char.le_def.mpr (by simpa [UInt32.le_iff_toNat_le] using this.1)
  · exact Char.le_def.mpr (by simpa [UInt32.le_iff_toNat_le] using this.2)

theorem natOfDigits_digitsOf (n : Nat) : natOfDigits (digitsOf n) = n := by
  unfold natOfDigits digitsOf
  rw [String.ofList_toList]
  have : (toString n).toNat? = some n := Nat.toNat?_repr n
  rw [this]; rfl

theorem digitsOf_ne_nil (n : Nat) : digitsOf n ≠ [] := by
  unfold digitsOf
  intro h
  have := @Nat.repr_ne_empty n
  apply this
  rw [show toString n = n.repr from rfl] at h
  exact String.toList_eq_nil_iff.mp h

end Poor.Props.C18

namespace Poor.Props.C18
open Poor Poor.HeaderValue

theorem takeWhile_digits (d rest : Str) (hd : ∀ c ∈ d, isDigit c = true)
    (hr : ∀ c, rest.head? = some c → isDigit c = false) :
    (d ++ rest).takeWhile isDigit = d ∧ (d ++ rest).dropWhile isDigit = rest := by
  induction d with
  | nil =>
    cases rest with
    | nil => simp
    | cons c t => have := hr c rfl; simp [List.takeWhile, List.dropWhile, this]
  | cons c t ih =>
    have hc := hd c (by simp)
    have := ih (fun x hx => hd x (by simp [hx]))
    simp [List.takeWhile, List.dropWhile, hc, this]

theorem renderOpt_digits (x : Option Nat) : ∀ c ∈ renderOpt x, isDigit c = true := by
  cases x with
  | none => intro c hc; cases hc
  | some n => exact digitsOf_isDigit n

/-- the rest after an item: end of text, or a comma and more text -/
def afterComma : Str → Str
  | ',' :: t => t
  | s => s

/-- one item of a range set is scanned as one match, whatever follows after a comma -/
theorem scan_item (r : RangeT) (rest : Str)
    (hrest : ∀ c, rest.head? = some c → isDigit c = false) :
    scanRanges (renderItem r ++ rest) = (renderOpt r.1, renderOpt r.2) :: scanRanges (afterComma rest) := by
  have h1 := takeWhile_digits (renderOpt r.1) ('-' :: (renderOpt r.2 ++ rest)) (renderOpt_digits r.1)
    (by intro c hc; simp at hc; subst hc; decide)
  have h2 := takeWhile_digits (renderOpt r.2) rest (renderOpt_digits r.2) hrest
  have hform : renderItem r ++ rest = renderOpt r.1 ++ '-' :: (renderOpt r.2 ++ rest) := by
    simp [renderItem, List.append_assoc]
  obtain ⟨c, cs, hs⟩ : ∃ c cs, renderItem r ++ rest = c :: cs := by
    rw [hform]
    cases hx : renderOpt r.1 with
    | nil => exact ⟨_, _, rfl⟩
    | cons a t => exact ⟨_, _, rfl⟩
  rw [hs, scanRanges]
  split
  · rename_i r2 hdrop
    rw [← hs, hform, h1.2] at hdrop
    cases hdrop
    simp only
    rw [← hs, hform, h1.1, h2.1, h2.2]
    congr 1
    unfold afterComma
    cases rest with
    | nil => rfl
    | cons x t => by_cases hx : x = ',' <;> simp [hx]
  · rename_i hno
    exfalso
    apply hno (renderOpt r.2 ++ rest)
    rw [← hs, hform, h1.2]

end Poor.Props.C18

namespace Poor.Props.C18
open Poor Poor.HeaderValue

theorem renderItems_head (rs : List RangeT) : ∀ c, (renderItems rs).head? = some c → c ≠ ',' := by
  intro c hc
  cases rs with
  | nil => simp [renderItems] at hc
  | cons r t =>
    have : (renderItems (r :: t)).head? = (renderItem r).head? := by
      cases t <;> simp [renderItems, renderItem, List.head?_append]
    rw [this] at hc
    simp only [renderItem] at hc
    cases hx : renderOpt r.1 with
    | nil => rw [hx] at hc; simp at hc; subst hc; decide
    | cons a l =>
      rw [hx] at hc; simp at hc; subst hc
      have := renderOpt_digits r.1 a (by simp [hx])
      intro h; subst h; exact absurd this (by decide)

/-- scanning a rendered range set yields exactly its items, in order -/
theorem scan_items (rs : List RangeT) :
    scanRanges (renderItems rs) = rs.map fun r => (renderOpt r.1, renderOpt r.2) := by
  induction rs with
  | nil => simp [renderItems, scanRanges]
  | cons r t ih =>
    cases t with
    | nil =>
      have := scan_item r [] (by intro c hc; cases hc)
      simp only [List.append_nil] at this
      simp [renderItems, this, afterComma, scanRanges]
    | cons r2 t2 =>
      have := scan_item r (',' :: renderItems (r2 :: t2)) (by intro c hc; simp at hc; subst hc; decide)
      simp only [renderItems] at this ih ⊢
      rw [this]
      simp only [afterComma, List.map_cons]
      rw [ih]
      simp

def WellFormed (r : RangeT) : Prop :=
  (r.1 ≠ none ∨ r.2 ≠ none) ∧
  (∀ n, r.1 = some n → (digitsOf n).length ≤ INT_MAX_DIGITS) ∧
  (∀ n, r.2 = some n → (digitsOf n).length ≤ INT_MAX_DIGITS)

theorem renderOpt_back (x : Option Nat) :
    (if (renderOpt x).isEmpty then none else some (natOfDigits (renderOpt x))) = x := by
  cases x with
  | none => rfl
  | some n =>
    have hne := digitsOf_ne_nil n
    change (if (digitsOf n).isEmpty then none else some (natOfDigits (digitsOf n))) = some n
    split
    · rename_i h; exact absurd (List.isEmpty_iff.mp h) hne
    · rw [natOfDigits_digitsOf]

theorem renderItems_no_eq (rs : List RangeT) : (renderItems rs).contains '=' = false := by
  have hitem : ∀ r : RangeT, ∀ c ∈ renderItem r, c ≠ '=' := by
    intro r c hc
    simp only [renderItem, List.mem_append, List.mem_cons] at hc
    rcases hc with h | rfl | h
    · intro e; subst e; exact absurd (renderOpt_digits r.1 _ h) (by decide)
    · decide
    · intro e; subst e; exact absurd (renderOpt_digits r.2 _ h) (by decide)
  have : ∀ c ∈ renderItems rs, c ≠ '=' := by
    induction rs with
    | nil => intro c hc; cases hc
    | cons r t ih =>
      cases t with
      | nil => simpa [renderItems] using hitem r
      | cons r2 t2 =>
        intro c hc
        simp only [renderItems, List.mem_append, List.mem_cons] at hc
        rcases hc with h | rfl | h
        · exact hitem r c h
        · decide
        · exact ih c (by simpa [renderItems] using h)
  rw [List.contains_eq_any_beq, List.any_eq_false]
  intro c hc; simpa using fun (e : '=' = c) => this c hc e.symm

/-- **C18 (ranges).** Every syntactically well-formed range set (`first-last`, `first-`,
    `-suffix` items, integers of any size below CPython's digit limit, any unit without `=`)
    parses to exactly the (first, last) pairs written. -/
theorem C18_ranges (unit : Str) (hu : ∀ c ∈ unit, c ≠ '=') (rs : List RangeT)
    (hwf : ∀ r ∈ rs, WellFormed r) :
    parseRange (unit ++ '=' :: renderItems rs) = some (unit, rs) := by
  unfold parseRange splitEq
  have hsplit := takeWhile_key unit (renderItems rs) hu
  rw [hsplit.2]
  simp only [renderItems_no_eq, Bool.false_eq_true, if_false, hsplit.1, scan_items]
  have hfilter : ((rs.map fun r => (renderOpt r.1, renderOpt r.2)).filter
      fun p => !(p.1.isEmpty && p.2.isEmpty)) = rs.map fun r => (renderOpt r.1, renderOpt r.2) := by
    rw [List.filter_eq_self]
    intro p hp
    simp only [List.mem_map] at hp
    obtain ⟨r, hr, rfl⟩ := hp
    have hw := (hwf r hr).1
    simp only [Bool.not_eq_true', Bool.and_eq_false_iff]
    rcases hw with h | h
    · left
      cases hx : r.1 with
      | none => exact absurd hx h
      | some n => simp [renderOpt]; exact digitsOf_ne_nil n
    · right
      cases hx : r.2 with
      | none => exact absurd hx h
      | some n => simp [renderOpt]; exact digitsOf_ne_nil n
  rw [hfilter]
  have hany : ((rs.map fun r => (renderOpt r.1, renderOpt r.2)).any
      fun p => decide (p.1.length > INT_MAX_DIGITS) || decide (p.2.length > INT_MAX_DIGITS)) = false := by
    rw [List.any_eq_false]
    intro p hp
    simp only [List.mem_map] at hp
    obtain ⟨r, hr, rfl⟩ := hp
    obtain ⟨_, h1, h2⟩ := hwf r hr
    simp only [Bool.or_eq_true, decide_eq_true_eq, not_or, Nat.not_lt]
    constructor
    · cases hx : r.1 with
      | none => simp [renderOpt]
      | some n => simpa [renderOpt] using h1 n hx
    · cases hx : r.2 with
      | none => simp [renderOpt]
      | some n => simpa [renderOpt] using h2 n hx
  simp only [hany, Bool.false_eq_true, if_false, List.map_map]
  congr 1
  congr 1
  conv => rhs; rw [← List.map_id rs]
  apply List.map_congr_left
  intro r _
  simp only [Function.comp, renderOpt_back, id]

/-- negotiation item `value;q=<q>`: the value and the q text come back (value without `;q=`
    and surrounding space, q text without `;q=`) -/
theorem splitQ_cons_none (c : Char) (t : Str) (h : splitQ (c :: t) = none) : splitQ t = none := by
  unfold splitQ at h
  split at h
  · cases h
  · rename_i heq; cases heq; simpa using h
  · rename_i heq; cases heq

theorem splitQ_render (v q : Str) (hv : splitQ v = none) :
    splitQ (v ++ (';' :: 'q' :: '=' :: q)) = some (v, q) := by
  induction v with
  | nil => simp [splitQ]
  | cons c t ih =>
    have := ih (splitQ_cons_none c t hv)
    simp only [List.cons_append]
    rw [splitQ]
    · simp [this]
    · intro r heq
      cases heq
      cases t with
      | nil => intro h; simp at h
      | cons a t2 =>
        intro h
        simp only [List.cons_append, List.cons.injEq] at h
        obtain ⟨ha, h2⟩ := h
        subst ha
        cases t2 with
        | nil => simp at h2
        | cons b t3 =>
          simp only [List.cons_append, List.cons.injEq] at h2
          obtain ⟨hb, _⟩ := h2
          subst hb
          simp [splitQ] at hv

theorem C18_nego (v q : Str) (hv : splitQ v = none) (hq : splitQ q = none) (hs : strip v = v) :
    parseNegoItem (v ++ (';' :: 'q' :: '=' :: q)) = (v, some q) := by
  unfold parseNegoItem
  rw [splitQ_render v q hv]
  simp [hq, hs]

/-! ### negotiation lists as a whole -/

/-- an item that survives a round trip: no comma and no `;q=` inside, no blanks around the value -/
structure NegoOK (x : Str × Option Str) : Prop where
  vcomma : ',' ∉ x.1
  vq : splitQ x.1 = none
  vstrip : strip x.1 = x.1
  qcomma : ∀ q, x.2 = some q → ',' ∉ q
  qq : ∀ q, x.2 = some q → splitQ q = none

theorem split_join (x : Str) (xs : List Str) (h : ∀ y ∈ x :: xs, ',' ∉ y) :
    (joinCommaSpace (x :: xs)).splitOn ',' = x :: xs.map (' ' :: ·) := by
  induction xs generalizing x with
  | nil =>
    simp only [joinCommaSpace, List.map_nil]
    exact List.splitOn_eq_singleton (h x (by simp))
  | cons y ys ih =>
    simp only [joinCommaSpace, List.map_cons]
    rw [List.splitOn_append_cons_self_of_not_mem (h x (by simp))]
    congr 1
    -- the rest starts with the blank of the separator
    have hrest := ih y (fun z hz => h z (by simp at hz ⊢; exact Or.inr hz))
    cases hys : ys with
    | nil =>
      subst hys
      simp only [joinCommaSpace, List.map_nil] at hrest ⊢
      exact List.splitOn_eq_singleton (by
        intro hm; rcases List.mem_cons.1 hm with h1 | h1
        · cases h1
        · exact h y (by simp) h1)
    | cons z zs =>
      subst hys
      simp only [joinCommaSpace, List.map_cons] at hrest ⊢
      have e : (' ' :: (y ++ ',' :: ' ' :: joinCommaSpace (z :: zs))) = (' ' :: y) ++ ',' :: (' ' :: joinCommaSpace (z :: zs)) := by simp
      rw [e, List.splitOn_append_cons_self_of_not_mem (by
        intro hm; rcases List.mem_cons.1 hm with h1 | h1
        · cases h1
        · exact h y (by simp) h1)]
      rw [List.splitOn_append_cons_self_of_not_mem (h y (by simp))] at hrest
      simp only [List.cons.injEq, true_and] at hrest ⊢
      exact hrest


theorem splitQ_space (v : Str) (hv : splitQ v = none) : splitQ (' ' :: v) = none := by
  rw [splitQ]
  · simp [hv]
  · intro r h; cases h

theorem strip_space (v : Str) : strip (' ' :: v) = strip v := by
  unfold strip
  have : isSpace ' ' = true := by decide
  simp [List.dropWhile, this]

/-- one rendered item parses back, with or without the blank that follows a comma -/
theorem nego_item (x : Str × Option Str) (h : NegoOK x) :
    parseNegoItem (renderNegoItem x.1 x.2) = x ∧ parseNegoItem (' ' :: renderNegoItem x.1 x.2) = x := by
  obtain ⟨v, q⟩ := x
  cases q with
  | none =>
    simp only [renderNegoItem, parseNegoItem, h.vq, splitQ_space v h.vq, strip_space, h.vstrip, and_self]
  | some q =>
    have hq := h.qq q rfl
    constructor
    · exact (C18_nego v q h.vq hq h.vstrip)
    · have e : (' ' :: renderNegoItem v (some q)) = (' ' :: v) ++ (';' :: 'q' :: '=' :: q) := by
        simp [renderNegoItem]
      rw [e]
      unfold parseNegoItem
      rw [splitQ_render (' ' :: v) q (splitQ_space v h.vq)]
      simp [hq, strip_space, h.vstrip]

/-- **C18, negotiation lists**: parsing what `render_negotiation` wrote returns the items, in order -/
theorem C18_nego_list (items : List (Str × Option Str)) (hne : items ≠ []) (hok : ∀ x ∈ items, NegoOK x) :
    parseNegotiation (renderNegotiation items) = items := by
  obtain ⟨x, xs, rfl⟩ : ∃ x xs, items = x :: xs := by
    cases items with
    | nil => exact absurd rfl hne
    | cons x xs => exact ⟨x, xs, rfl⟩
  unfold parseNegotiation renderNegotiation
  simp only [List.map_cons]
  have hcomma : ∀ y ∈ renderNegoItem x.1 x.2 :: xs.map (fun z => renderNegoItem z.1 z.2), ',' ∉ y := by
    intro y hy
    have key : ∀ z : Str × Option Str, NegoOK z → ',' ∉ renderNegoItem z.1 z.2 := by
      intro z hz
      obtain ⟨v, q⟩ := z
      cases q with
      | none => exact hz.vcomma
      | some q =>
        simp only [renderNegoItem]
        intro hm
        rcases List.mem_append.1 hm with h1 | h1
        · exact hz.vcomma h1
        · simp only [List.mem_cons] at h1
          rcases h1 with h1 | h1 | h1 | h1
          · cases h1
          · cases h1
          · cases h1
          · exact hz.qcomma q rfl h1
    rcases List.mem_cons.1 hy with rfl | hy
    · exact key x (hok x (by simp))
    · obtain ⟨z, hz, rfl⟩ := List.mem_map.1 hy
      exact key z (hok z (by simp [hz]))
  rw [split_join _ _ hcomma]
  simp only [List.map_cons, List.map_map, (nego_item x (hok x (by simp))).1, List.cons.injEq, true_and]
  calc List.map (parseNegoItem ∘ (fun y => ' ' :: y) ∘ fun z => renderNegoItem z.1 z.2) xs
      = List.map id xs := by
        apply List.map_congr_left
        intro z hz
        simp only [Function.comp, id]
        exact (nego_item z (hok z (by simp [hz]))).2
    _ = xs := by simp


/-! ### HTTP dates -/

/-- **C18, HTTP dates at one-second resolution**: for every timestamp from 1970-01-01 00:00:00 to
    9999-12-31 23:59:59, `http_to_time(time_to_http(t)) = t`.  Underneath: CPython's `_ymd2ord` inverts
    `_ord2ymd` on every ordinal (`Poor.Date.ord_roundtrip`), the date is valid, the year has four
    digits, and the canonical text parses back field by field. -/
theorem C18_dates (t : Nat) (h : t < Poor.Date.T_MAX) :
    Poor.Date.httpToTime (Poor.Date.timeToHttp t) = .ok t :=
  Poor.Date.date_roundtrip t h

/-- distinct seconds render differently -/
theorem C18_dates_injective (t u : Nat) (ht : t < Poor.Date.T_MAX) (hu : u < Poor.Date.T_MAX)
    (h : Poor.Date.timeToHttp t = Poor.Date.timeToHttp u) : t = u := by
  have h1 := C18_dates t ht
  rw [h, C18_dates u hu] at h1
  exact (Poor.Date.PRes.ok.inj h1).symm

/-- every rendered date has the fixed width of an IMF-fixdate -/
theorem C18_dates_width (t : Nat) (h : t < Poor.Date.T_MAX) : (Poor.Date.timeToHttp t).length = 29 :=
  Poor.Date.timeToHttp_length t h

/-- `_ord2ymd` and `_ymd2ord` are inverse in both directions: the calendar model is a bijection between
    ordinals and dates of the calendar -/
theorem C18_calendar_bijection :
    (∀ ord, 1 ≤ ord → Poor.Date.ymd2ord (Poor.Date.ord2ymd ord).1 (Poor.Date.ord2ymd ord).2.1
        (Poor.Date.ord2ymd ord).2.2 = ord) ∧
    (∀ y m d, Poor.Date.ValidDate y m d → Poor.Date.ord2ymd (Poor.Date.ymd2ord y m d) = (y, m, d)) :=
  ⟨Poor.Date.ord_roundtrip, Poor.Date.ymd_roundtrip⟩

/-- **parsing is sound**: whatever `http_to_time` accepts (canonical shape) is the rendering of the
    second it returns, except possibly for the day name, which is not cross-checked -/
theorem C18_dates_parse_sound (s : Str) (t : Nat) (h : Poor.Date.httpToTime s = .ok t) :
    ∃ w, w < 7 ∧ s = Poor.Date.render (Poor.Date.civilW t w) :=
  Poor.Date.parse_sound s t h

/-- non-vacuity: the leap day of 2000, and the last second covered -/
example : String.ofList (Poor.Date.timeToHttp 951782400) = "Tue, 29 Feb 2000 00:00:00 GMT" := by decide +kernel
example : String.ofList (Poor.Date.timeToHttp 253402300799) = "Fri, 31 Dec 9999 23:59:59 GMT" := by decide +kernel
example : (253402300799 : Nat) < Poor.Date.T_MAX := by decide

end Poor.Props.C18
