import PoorModel.Static
import PoorModel.Route
import PoorProofs.Props.C02
/-
C12 - static serving never leaves the document root.
-/
namespace Poor.Props.C12
open Poor Poor.Static

/-- a path component that cannot move the lookup: not empty, not `.`, not `..`, no slash -/
def Clean (c : Str) : Prop := c ≠ [] ∧ c ≠ ['.'] ∧ c ≠ dotdot ∧ '/' ∉ c

theorem splitSlash_no_slash (s : Str) : ∀ c ∈ splitSlash s, '/' ∉ c := by
  induction s with
  | nil => intro c hc; simp [splitSlash] at hc; subst hc; simp
  | cons x rest ih =>
    intro c hc
    simp only [splitSlash] at hc
    split at hc
    · rcases List.mem_cons.mp hc with rfl | h
      · simp
      · exact ih c h
    · rename_i hx
      split at hc
      · rename_i h t heq
        rcases List.mem_cons.mp hc with rfl | h2
        · have := ih h (by rw [heq]; simp)
          simp only [List.mem_cons, not_or]
          exact ⟨fun e => hx e.symm, this⟩
        · exact ih c (by rw [heq]; simp [h2])
      · simp at hc; subst hc; simp; exact fun e => hx e.symm

/-- for an absolute path the component loop only ever stacks clean components -/
theorem stepComp_clean (stack : List Str) (comp : Str) (hs : ∀ c ∈ stack, Clean c) (hc : '/' ∉ comp) :
    ∀ c ∈ stepComp true stack comp, Clean c := by
  unfold stepComp
  split
  · exact hs
  · rename_i h1
    split
    · rename_i h2
      have hnd : comp ≠ dotdot := by
        rcases h2 with h | h | h
        · exact h
        · simp at h
        · -- the top of a clean stack is never `..`
          cases stack with
          | nil => simp at h
          | cons t r =>
            simp only [List.head?_cons, Option.some.injEq] at h
            exact absurd h (hs t (by simp)).2.2.1
      intro c hcm
      rcases List.mem_cons.mp hcm with rfl | h
      · exact ⟨fun e => h1 (Or.inl e), fun e => h1 (Or.inr e), hnd, hc⟩
      · exact hs c h
    · intro c hcm
      exact hs c (List.mem_of_mem_tail hcm)

theorem foldl_clean (comps : List Str) (stack : List Str) (hs : ∀ c ∈ stack, Clean c)
    (hc : ∀ c ∈ comps, '/' ∉ c) : ∀ c ∈ comps.foldl (stepComp true) stack, Clean c := by
  induction comps generalizing stack with
  | nil => exact hs
  | cons x rest ih =>
    simp only [List.foldl_cons]
    exact ih _ (stepComp_clean stack x hs (hc x (by simp))) (fun c h => hc c (by simp [h]))

/-- `lstrip('/')` leaves nothing that starts with a slash -/
theorem lstrip_head (p : Str) : (lstripSlash p).head? ≠ some '/' := by
  unfold lstripSlash
  induction p with
  | nil => simp
  | cons c t ih =>
    simp only [List.dropWhile]
    split
    · exact ih
    · rename_i h; simp at h ⊢; exact h

/-- **lexical confinement.** For every document root and every request path whatsoever (dot
    segments, repeated or missing leading slashes, NUL, non-ASCII, names that merely extend
    the root's name), the file consulted is `root ++ "/" ++ c1 ++ "/" ++ ... ++ cn` where every
    `ci` is a clean component (non-empty, not `.`, not `..`, no slash) - or `root ++ "/"` itself.
    Nothing outside the root can be named this way. -/
theorem C12_confined (root path : Str) :
    ∃ comps : List Str, (∀ c ∈ comps, Clean c) ∧ rfile root path = root ++ '/' :: joinSlash comps := by
  unfold rfile normpath
  have hne : ('/' :: lstripSlash path) ≠ [] := by simp
  simp only [hne, if_false]
  have hinit : initialSlashes ('/' :: lstripSlash path) = 1 := by
    have := lstrip_head path
    cases hl : lstripSlash path with
    | nil => rfl
    | cons c t =>
      rw [hl] at this
      have hc : c ≠ '/' := by simpa using this
      show initialSlashes ('/' :: c :: t) = 1
      unfold initialSlashes
      split <;> simp_all
  rw [hinit]
  simp only [show ((1 : Nat) != 0) = true from rfl, List.replicate_one, List.singleton_append]
  refine ⟨((splitSlash ('/' :: lstripSlash path)).foldl (stepComp true) []).reverse, ?_, ?_⟩
  · intro c hc
    exact foldl_clean _ [] (by intro c h; cases h) (splitSlash_no_slash _) c (List.mem_reverse.mp hc)
  · simp

/-- the listing shows exactly the entries that are not hidden (`.x`), not backups (`x~`) and
    readable; the parent link appears only below the document root -/
theorem C12_listing (names : List Str) (readable : Str → Bool) (below : Bool) (item : Str) :
    item ∈ visible names readable below ↔
      (item ∈ names ∨ (below = true ∧ item = dotdot)) ∧
      (!(item.head? = some '.' && (item.drop 1).head? != some '.') &&
       !(item.getLast? = some '~') && readable item) = true := by
  unfold visible
  cases below <;> simp [List.mem_filter, or_and_right]

/-- files are served for GET and HEAD only, and only when the consulted path is a readable
    regular file; a directory is listed only with indexing on, otherwise 403 -/
theorem C12_gate (r : Route.Reg) (env : Route.Env) (bit : Nat) (path : Str) :
    (Route.select r env bit path = .file →
      env.docRoot = true ∧ env.fsFile = true ∧ (bit &&& (Gen.State.METHOD_HEAD ||| Gen.State.METHOD_GET)) ≠ 0) ∧
    (Route.select r env bit path = .dirIndex → env.docRoot = true ∧ env.index = true ∧ env.fsDir = true) := by
  unfold Route.select
  constructor <;> intro h
  all_goals
    split at h
    · split at h <;> cases h
    · split at h
      · cases h
      · rename_i s hs
        obtain ⟨_, _, _, _, rfl⟩ := C02.selectRegex_is_pattern _ _ _ _ hs
        cases h
      · unfold Route.selectDefault at h
        repeat' split at h
        all_goals first | (cases h; simp_all [Bool.and_eq_true]; done) | cases h

/-! ### non-vacuity -/

/-- non-vacuity: a path that climbs out lexically is confined to the root -/
example : rfile "/srv/site".toList "../../etc/passwd".toList = "/srv/site/etc/passwd".toList := by decide

example : rfile "/srv/site".toList "a/./b/../c".toList = "/srv/site/a/c".toList := by decide

/-- the antecedents of `C12_gate` are reachable -/
example : Route.select {} ⟨true, true, true, false, false, false⟩ 2 "/x".toList = .file := by decide
example : Route.select {} ⟨true, true, false, true, true, false⟩ 2 "/d".toList = .dirIndex := by decide

end Poor.Props.C12
