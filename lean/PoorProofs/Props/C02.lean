import PoorModel.Route
import PoorModel.Gen.Patterns
import PoorProofs.Lemmas.Regex
import PoorProofs.Props.C19
/-
C02 - requests reach exactly the endpoint the routing rules select
(and the dispatcher gate of C20).
-/
namespace Poor.Props.C02
open Poor Poor.Route Poor.Regex

/-- facts about the source the hand-written model relies on (regenerated every run):
    the rule anchor is `\Z` (a rule matches whole paths only - `$` would accept a trailing
    newline), and `re_filter` is the pattern `scanRule` was written for -/
theorem source_facts :
    Gen.Filters.anchors = ["\\Z"] ∧ Gen.Patterns.re_filter = "<(\\w+)(:[^>]+)?>" := by decide

/-- an exact static path registered for the method wins over everything else -/
theorem select_static_first (r : Reg) (env : Env) (bit : Nat) (path : Str) (inner : List (Nat × Nat)) (fn : Nat)
    (h1 : dget r.handlers path = some inner) (h2 : dget inner bit = some fn) :
    select r env bit path = .static fn := by
  simp [select, h1, h2]

/-- an exact static path registered only for other methods answers 405, whatever pattern
    routes, files or default handlers exist -/
theorem select_wrong_method (r : Reg) (env : Env) (bit : Nat) (path : Str) (inner : List (Nat × Nat))
    (h1 : dget r.handlers path = some inner) (h2 : dget inner bit = none) :
    select r env bit path = .wrongMethod := by
  simp [select, h1, h2]

/-- the entry does not serve this request: its pattern does not match, or it is not registered
    for the method -/
def Skips (bit : Nat) (path : Str) (e : Str × List (Nat × RH)) : Prop :=
  matchPat e.1 path = .ok none ∨ (∃ m, matchPat e.1 path = .ok (some m) ∧ dget e.2 bit = none)

/-- entries that do not serve the request are skipped, in order -/
theorem selectRegex_skips (bit : Nat) (path : Str) (pre rest : List (Str × List (Nat × RH)))
    (h : ∀ e ∈ pre, Skips bit path e) :
    selectRegex bit path (pre ++ rest) = selectRegex bit path rest := by
  induction pre with
  | nil => rfl
  | cons e t ih =>
    obtain ⟨pat, inner⟩ := e
    have he := h (pat, inner) (by simp)
    have ht := ih (fun e he => h e (by simp [he]))
    simp only [List.cons_append, selectRegex]
    rcases he with h0 | ⟨m, h1, h2⟩
    · simp only at h0; rw [h0]; exact ht
    · simp only at h1 h2; rw [h1]
      obtain ⟨groups, names⟩ := m
      simp only [h2]; exact ht

/-- **first pattern route in registration order** that matches the path and is registered
    for the method is the one selected -/
theorem selectRegex_first_match (bit : Nat) (path : Str) (pre post : List (Str × List (Nat × RH)))
    (pat : Str) (inner : List (Nat × RH)) (groups : List (Option Str)) (names : List (String × Nat)) (rh : RH)
    (hpre : ∀ e ∈ pre, Skips bit path e)
    (hm : matchPat pat path = .ok (some (groups, names))) (hb : dget inner bit = some rh) :
    ∃ args nm, selectRegex bit path (pre ++ (pat, inner) :: post)
      = .ok (some (.pattern rh.fn args nm (rh.rule.getD pat))) := by
  rw [selectRegex_skips bit path pre _ hpre]
  simp only [selectRegex, hm, hb]
  split <;> exact ⟨_, _, rfl⟩

/-- with converters (a rule written with `<name:filter>` groups) the handler receives, in the
    order of the rule's groups, the capture of each group *of that name* converted by its filter's
    converter - capturing groups inside a filter expression (`:float`, an inline `(a|b)+`) do not
    shift the arguments - and the same values by name on the request -/
theorem pattern_args_positional (bit : Nat) (path : Str) (post : List (Str × List (Nat × RH)))
    (pat : Str) (inner : List (Nat × RH)) (groups : List (Option Str)) (names : List (String × Nat)) (rh : RH)
    (hc : rh.convs ≠ [])
    (hm : matchPat pat path = .ok (some (groups, names))) (hb : dget inner bit = some rh) :
    selectRegex bit path ((pat, inner) :: post) =
      .ok (some (.pattern rh.fn (rh.convs.map fun cv => ⟨cv.2, groupByName names groups cv.1⟩)
                  (rh.convs.map (·.1)) (rh.rule.getD pat))) := by
  simp only [selectRegex, hm, hb]
  have : rh.convs.isEmpty = false := by cases h : rh.convs <;> simp_all
  simp [this]

/-- after the tables: file or index under the document root (GET/HEAD only), the debug
    page, the per-method default handler, and finally 404 - in that order -/
theorem select_fallbacks (r : Reg) (env : Env) (bit : Nat) (path : Str)
    (h1 : dget r.handlers path = none) (h2 : selectRegex bit path r.rhandlers = .ok none) :
    select r env bit path =
      if env.docRoot && (bit &&& (Gen.State.METHOD_HEAD ||| Gen.State.METHOD_GET) != 0) then
        if !env.fsExists then
          if env.debug && path = "/debug-info".toList then .debugInfo else selectDefault r bit
        else if env.fsFile then .file
        else if env.index && env.fsDir then .dirIndex
        else .forbidden
      else if env.debug && path = "/debug-info".toList then .debugInfo
      else selectDefault r bit := by
  unfold select
  rw [h1]
  simp only [h2]

/-- a compiled rule is anchored at the end: it ends in `\Z` -/
theorem rule_anchored (fs : Filters) (uri pat : Str) (h : compileText fs uri = some pat) :
    ∃ body, pat = body ++ "\\Z".toList := by
  unfold compileText at h
  simp only [Option.map_eq_some_iff] at h
  obtain ⟨body, _, rfl⟩ := h
  exact ⟨body, rfl⟩

/-- an inline `:re:` expression is used exactly as written: no case folding, whatever it contains -/
theorem inline_re_verbatim (fs : Filters) (e : Str)
    (hno : fs.lookup (lower (":re:".toList ++ e)) = none) :
    filterRegex fs (some (":re:".toList ++ e)) = some e := by
  unfold filterRegex
  simp only [hno]
  have h0 : lower (":re:".toList ++ e) = ":re:".toList ++ lower e := by
    simp only [lower, List.map_append]; rfl
  have h1 : (lower (":re:".toList ++ e)).take 4 = ":re:".toList := by
    rw [h0]; rfl
  have h2 : (":re:".toList ++ e).drop 4 = e := rfl
  simp only [h1, if_true, h2]

theorem selectRegex_is_pattern (bit : Nat) (path : Str) (l : List (Str × List (Nat × RH))) (s : Sel)
    (h : selectRegex bit path l = .ok (some s)) : ∃ fn args names rule, s = .pattern fn args names rule := by
  induction l with
  | nil => simp [selectRegex] at h
  | cons e rest ih =>
    obtain ⟨pat, inner⟩ := e
    simp only [selectRegex] at h
    split at h
    · cases h
    · exact ih h
    · split at h
      · exact ih h
      · split at h <;> (simp only [Except.ok.injEq, Option.some.injEq] at h; subst h; exact ⟨_, _, _, _, rfl⟩)

theorem selectDefault_ne_debug (r : Reg) (bit : Nat) : selectDefault r bit ≠ .debugInfo := by
  unfold selectDefault; split <;> (intro h; cases h)

/-- **C20 (dispatcher gate).** The debug page is reachable only when debug is effectively
    on; with debug off `/debug-info` is dispatched exactly like a path nobody registered -/
theorem C20_route (r : Reg) (env : Env) (bit : Nat) (path : Str) (hd : env.debug = false) :
    select r env bit path ≠ .debugInfo := by
  intro h
  unfold select at h
  simp only [hd, Bool.false_and, Bool.false_eq_true, if_false] at h
  split at h
  · split at h <;> cases h
  · split at h
    · cases h
    · rename_i s hs
      obtain ⟨_, _, _, _, rfl⟩ := selectRegex_is_pattern _ _ _ _ hs
      cases h
    · repeat' split at h
      all_goals first | cases h | exact selectDefault_ne_debug r bit h

/-- **the matcher misses nothing**: every residual the expression's language allows is among the results of
    the backtracking matcher (sre's empty-iteration rule loses no match) - with `ms_sound`, matcher and language
    agree -/
theorem C02_matcher_complete (u : UTables) {r : Re} {s t : Str} (h : Lang u r s t) (st : Bool) (c : Caps)
    (hb : BolOK r st) : ∃ c', (t, c') ∈ ms u r st s c :=
  ms_complete u h st c hb

/-- **a rule matches exactly the paths of its language**: an expression anchored with `\\Z` (every compiled
    rule is, `rule_anchored`) matches a path iff the *whole* path belongs to the language of the rule -/
theorem C02_match_exact (u : UTables) (a : Re) (hb : BolOK a true) (path : Str) :
    (pyMatch u (.seq a .eos) path).isSome = true ↔ Lang u a path [] :=
  anchored_match_iff u a hb path

/-! ### registration sequences: order and latest-wins -/
section Registrations
open Poor.Props.C19

/-- one registration of a pattern route (what `set_regular_route` / `set_route` with groups stores) -/
structure Registration where
  pat : Str
  fn : Nat
  mask : Nat
  convs : List (Str × Conv)
  rule : Option Str

def register (r : Reg) (g : Registration) : Reg := setRegular r g.pat g.fn g.mask g.convs g.rule

/-- a sequence of registrations -/
def regAll (r : Reg) (gs : List Registration) : Reg := gs.foldl register r

/-- patterns in the order of their first registration -/
def firstOcc (acc : List Str) (ks : List Str) : List Str :=
  ks.foldl (fun a k => if k ∈ a then a else a ++ [k]) acc

/-- **re-registration keeps the place**: registering a pattern that is already in the table (for
    further methods, or again) does not move it -/
theorem C02_reregister_keeps_place (r : Reg) (g : Registration) (h : g.pat ∈ keys r.rhandlers) :
    keys (register r g).rhandlers = keys r.rhandlers := by
  simp only [register, setRegular, fanOut_keys, if_pos h]

/-- a pattern registered for the first time goes to the end -/
theorem C02_new_pattern_last (r : Reg) (g : Registration) (h : g.pat ∉ keys r.rhandlers) :
    keys (register r g).rhandlers = keys r.rhandlers ++ [g.pat] := by
  simp only [register, setRegular, fanOut_keys, if_neg h]

/-- **registration order**: after any sequence of registrations the table lists the patterns in the
    order of their *first* registration -/
theorem C02_registration_order (r : Reg) (gs : List Registration) :
    keys (regAll r gs).rhandlers = firstOcc (keys r.rhandlers) (gs.map (·.pat)) := by
  induction gs generalizing r with
  | nil => rfl
  | cons g t ih =>
    simp only [regAll, List.foldl_cons, List.map_cons, firstOcc] at ih ⊢
    rw [ih (register r g)]
    congr 1
    simp only [register, setRegular, fanOut_keys]

/-- the handler stored for `(pattern, method)` is the one of the **latest** registration naming both -/
theorem C02_latest_registration (r : Reg) (gs : List Registration) (g : Registration) (p : Str) (b : Nat) :
    lookup2 (regAll r (gs ++ [g])).rhandlers p b =
      if p = g.pat ∧ b ∈ bitsOf g.mask then some ⟨g.fn, g.convs, g.rule⟩
      else lookup2 (regAll r gs).rhandlers p b := by
  simp only [regAll, List.foldl_append, List.foldl_cons, List.foldl_nil]
  generalize gs.foldl register r = r'
  simp only [register, setRegular]
  by_cases hp : p = g.pat
  · subst hp
    rw [fanOut_spec]
    by_cases hb : b ∈ bitsOf g.mask <;> simp [hb]
  · rw [fanOut_other_key _ _ _ _ _ _ hp]
    simp [hp]

theorem regAll_nodup (r : Reg) (gs : List Registration) (h : (keys r.rhandlers).Nodup) :
    (keys (regAll r gs).rhandlers).Nodup := by
  induction gs generalizing r with
  | nil => exact h
  | cons g t ih =>
    simp only [regAll, List.foldl_cons] at ih ⊢
    exact ih _ (by simp only [register, setRegular]; exact fanOut_nodup _ _ _ _ h)

/-- **selection in terms of registrations**: let the table be the result of any registration sequence
    on an empty table.  If `pat` is in it, every pattern placed before it (= first registered earlier)
    does not serve the request, `pat` matches the path and the latest registration of `pat` for the
    method stored `rh`, then the request is dispatched to `rh.fn`. -/
theorem C02_select_registered (gs : List Registration) (bit : Nat) (path : Str)
    (pre post : List (Str × List (Nat × RH))) (pat : Str) (inner : List (Nat × RH))
    (htab : (regAll {} gs).rhandlers = pre ++ (pat, inner) :: post)
    (groups : List (Option Str)) (names : List (String × Nat)) (rh : RH)
    (hpre : ∀ e ∈ pre, Skips bit path e)
    (hm : matchPat pat path = .ok (some (groups, names)))
    (hb : lookup2 (regAll {} gs).rhandlers pat bit = some rh) :
    ∃ args nm, selectRegex bit path (regAll {} gs).rhandlers
      = .ok (some (.pattern rh.fn args nm (rh.rule.getD pat))) := by
  have hnd := regAll_nodup {} gs (by simp [keys])
  rw [htab] at hnd hb ⊢
  have hnot : pat ∉ keys pre := by
    intro hm'
    simp only [keys, List.map_append, List.map_cons] at hnd
    have := (List.nodup_append.1 hnd).2.2 pat (by simpa [keys] using hm') pat (by simp)
    exact this rfl
  rw [lookup2_at pre post pat inner bit hnot] at hb
  exact selectRegex_first_match bit path pre post pat inner groups names rh hpre hm hb


/-- non-vacuity: `/a` for GET, `/b` for GET, then `/a` again for POST - `/a` keeps the first place and
    now answers both methods -/
example :
    keys (regAll {} [⟨"/a".toList, 1, 2, [], none⟩, ⟨"/b".toList, 2, 2, [], none⟩, ⟨"/a".toList, 3, 4, [], none⟩]).rhandlers
      = ["/a".toList, "/b".toList] := by decide

example :
    lookup2 (regAll {} [⟨"/a".toList, 1, 2, [], none⟩, ⟨"/b".toList, 2, 2, [], none⟩, ⟨"/a".toList, 3, 4, [], none⟩]).rhandlers
      "/a".toList 4 = some ⟨3, [], none⟩ := by decide

end Registrations

end Poor.Props.C02
