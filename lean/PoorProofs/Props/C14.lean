import PoorModel.Headers
/-
C14 - headers behave as an ordered, case-insensitive multimap with safe transcoding.

Every list of pairs is a reachable state of the collection (the constructor accepts any
pairs), so a per-operation theorem quantified over all states holds after every
operation sequence.
-/
namespace Poor.Props.C14
open Poor Poor.Headers

/-! ### the specification: an ordered multimap keyed by the case-normalised name -/

abbrev Spec := List (Str × Str)

def abs (h : Hs) : Spec := h.map fun kv => (lower kv.1, kv.2)

def Spec.get (s : Spec) (k : Str) : Option Str := (s.find? fun e => e.1 == k).map (·.2)
def Spec.getAll (s : Spec) (k : Str) : List Str := (s.filter fun e => e.1 == k).map (·.2)
def Spec.del (s : Spec) (k : Str) : Spec := s.filter fun e => !(e.1 == k)

theorem getItem_abs (h : Hs) (n : Str) : getItem h n = (abs h).get (key n) := by
  unfold getItem abs Spec.get
  induction h with
  | nil => rfl
  | cons kv t ih =>
    simp only [List.find?_cons, List.map_cons]
    split <;> simp_all

theorem getAll_abs (h : Hs) (n : Str) : getAll h n = (abs h).getAll (key n) := by
  unfold getAll abs Spec.getAll
  induction h with
  | nil => rfl
  | cons kv t ih =>
    simp only [List.filter_cons, List.map_cons]
    split <;> simp_all

theorem abs_delItem (h : Hs) (n : Str) : abs (delItem h n) = (abs h).del (key n) := by
  unfold delItem abs Spec.del
  induction h with
  | nil => rfl
  | cons kv t ih =>
    simp only [List.filter_cons, List.map_cons]
    split <;> simp_all

theorem abs_append (h : Hs) (e : Str × Str) : abs (h ++ [e]) = abs h ++ [(lower e.1, e.2)] := by
  simp [abs]

/-- `add_header` appends exactly one entry under the normalised name -/
theorem abs_addHeader (h h' : Hs) (n : Str) (v : Option Str) (ps : List (Str × Option Str))
    (hok : addHeader h n v ps = .ok h') :
    ∃ rendered, h' = h ++ [(iso n, rendered)] ∧ abs h' = abs h ++ [(key n, rendered)] := by
  unfold addHeader at hok
  simp only at hok
  split at hok
  · cases hok
  · cases hok
    exact ⟨_, rfl, by rw [abs_append]; rfl⟩

theorem addHeader_plain (h : Hs) (n v : Str) : addHeader h n (some v) [] = .ok (h ++ [(iso n, iso v)]) := by
  simp [addHeader, List.intercalate]

/-- item assignment = delete every entry of the name, then append one -/
theorem abs_setItem (h : Hs) (n v : Str) :
    ∃ h', setItem h n v = .ok h' ∧ abs h' = (abs h).del (key n) ++ [(key n, iso v)] := by
  refine ⟨delItem h n ++ [(iso n, iso v)], ?_, ?_⟩
  · simp [setItem, addHeader_plain]
  · rw [abs_append, abs_delItem]; rfl

/-- `add` succeeds exactly when the name is Set-Cookie (any casing) or not yet present -/
theorem abs_add (h : Hs) (n v : Str) :
    (key n = setCookieKey ∨ (abs h).get (key n) = none →
        add h n v = .ok (h ++ [(iso n, iso v)])) ∧
    (key n ≠ setCookieKey ∧ (abs h).get (key n) ≠ none → add h n v = .error .keyError) := by
  unfold add contains
  rw [getItem_abs]
  constructor
  · rintro (hk | hg)
    · simp [hk, addHeader_plain]
    · simp [hg, addHeader_plain]
  · rintro ⟨hk, hg⟩
    have : ((abs h).get (key n)).isSome = true := by
      cases hx : (abs h).get (key n) with
      | none => exact absurd hx hg
      | some _ => rfl
    simp [hk, this]

/-! ### the properties users rely on -/

theorem lookup_ignores_case (h : Hs) (n n' : Str) (hk : key n = key n') :
    getItem h n = getItem h n' ∧ getAll h n = getAll h n' ∧ contains h n = contains h n' := by
  simp [getItem, getAll, contains, hk]

theorem key_iso (n : Str) : lower (iso n) = key n := rfl

theorem set_replaces_all (h : Hs) (n v : Str) :
    ∃ h', setItem h n v = .ok h' ∧ getAll h' n = [iso v] := by
  obtain ⟨h', h1, h2⟩ := abs_setItem h n v
  refine ⟨h', h1, ?_⟩
  rw [getAll_abs, h2]
  simp [Spec.getAll, Spec.del, List.filter_append, List.filter_filter]

theorem set_others_untouched (h : Hs) (n v m : Str) (hm : key m ≠ key n) :
    ∃ h', setItem h n v = .ok h' ∧ getAll h' m = getAll h m ∧ delItem h' n = delItem h n := by
  refine ⟨delItem h n ++ [(iso n, iso v)], by simp [setItem, addHeader_plain], ?_, ?_⟩
  · simp only [getAll, delItem, List.filter_append, List.filter_filter, List.map_append]
    have e1 : ((lower (iso n) == key m) = false) := by
      simp only [key_iso, beq_eq_false_iff_ne, ne_eq]; exact fun h => hm h.symm
    simp only [List.filter_cons, List.filter_nil, e1]
    simp only [Bool.false_eq_true, if_false, List.map_nil, List.append_nil]
    congr 1
    apply List.filter_congr
    intro kv _
    by_cases hkv : lower kv.1 = key m
    · simp [hkv, hm]
    · simp [hkv]
  · simp only [delItem, List.filter_append, List.filter_filter]
    simp [key_iso]

theorem del_removes_all (h : Hs) (n m : Str) :
    getAll (delItem h n) n = [] ∧ contains (delItem h n) n = false ∧
    (key m ≠ key n → getAll (delItem h n) m = getAll h m) := by
  refine ⟨?_, ?_, ?_⟩
  · simp [getAll, delItem, List.filter_filter]
  · simp only [contains, getItem, delItem]
    rw [List.find?_filter]
    simp
  · intro hm
    simp only [getAll, delItem, List.filter_filter]
    congr 1
    apply List.filter_congr
    intro kv _
    by_cases hkv : lower kv.1 = key m
    · simp [hkv, hm]
    · simp [hkv]

theorem add_refuses_duplicate (h : Hs) (n v : Str) (hk : key n ≠ setCookieKey)
    (hc : contains h n = true) : add h n v = .error .keyError := by
  simp [add, hk, hc]

theorem add_allows_set_cookie (h : Hs) (n v : Str) (hk : key n = setCookieKey) :
    add h n v = .ok (h ++ [(iso n, iso v)]) := by
  simp [add, hk, addHeader_plain]

/-- iteration follows insertion order: every successful insertion appends at the end and
    leaves the earlier entries, and their order, as they were -/
theorem iteration_is_insertion_order (h h' : Hs) (n : Str) (v : Option Str)
    (ps : List (Str × Option Str)) (hok : addHeader h n v ps = .ok h') :
    ∃ e, h' = h ++ [e] := by
  obtain ⟨r, hr, _⟩ := abs_addHeader h h' n v ps hok
  exact ⟨_, hr⟩

/-! ### transcoding -/

theorem toNat_ofNat_small (n : Nat) (h : n < 256) : (Char.ofNat n).toNat = n := by
  have hv : n.isValidChar := Or.inl (by omega)
  rw [Char.ofNat, dif_pos hv]
  rfl

theorem latin1enc_latin1dec (b : Bytes) : latin1enc (latin1dec b) = some b := by
  unfold latin1enc latin1dec
  induction b with
  | nil => rfl
  | cons x t ih =>
    have hx : x.toNat < 256 := x.toNat_lt
    simp only [List.map_cons, List.mapM_cons, toNat_ofNat_small _ hx, hx, if_true]
    rw [ih]
    simp

/-- the latin-1 bytes a server puts on the wire are the UTF-8 encoding of the text supplied;
    in particular every stored code point is below 256 -/
theorem C14_transcode_bytes (s : Str) : latin1enc (iso s) = some (utf8enc s) :=
  latin1enc_latin1dec _

theorem utf8dec_utf8enc (s : Str) : utf8dec (utf8enc s) = some s := by
  unfold utf8dec utf8enc
  have h1 : (ByteArray.mk (s.flatMap String.utf8EncodeChar).toArray) = s.utf8Encode := by
    apply ByteArray.ext
    simp [List.utf8Encode]
  rw [h1, List.utf8Decode?_utf8Encode]
  simp

/-- decoding returns the original text -/
theorem C14_transcode_roundtrip (s : Str) : utf8 (iso s) = s := by
  unfold utf8
  rw [C14_transcode_bytes]
  simp only [utf8dec_utf8enc]

def C14_full : Prop :=
  (∀ h n n', key n = key n' → getItem h n = getItem h n' ∧ getAll h n = getAll h n') ∧
  (∀ h n v, ∃ h', setItem h n v = .ok h' ∧ getAll h' n = [iso v]) ∧
  (∀ h n v m, key m ≠ key n →
      ∃ h', setItem h n v = .ok h' ∧ getAll h' m = getAll h m ∧ delItem h' n = delItem h n) ∧
  (∀ h n m, getAll (delItem h n) n = [] ∧ (key m ≠ key n → getAll (delItem h n) m = getAll h m)) ∧
  (∀ h n v, key n ≠ setCookieKey → contains h n = true → add h n v = .error .keyError) ∧
  (∀ h n v, key n = setCookieKey → add h n v = .ok (h ++ [(iso n, iso v)])) ∧
  (∀ h h' n v ps, addHeader h n v ps = .ok h' → ∃ e, h' = h ++ [e]) ∧
  (∀ s, latin1enc (iso s) = some (utf8enc s)) ∧
  (∀ s, utf8 (iso s) = s)

theorem C14 : C14_full :=
  ⟨fun h n n' hk => ⟨(lookup_ignores_case h n n' hk).1, (lookup_ignores_case h n n' hk).2.1⟩,
   set_replaces_all, set_others_untouched,
   fun h n m => ⟨(del_removes_all h n m).1, (del_removes_all h n m).2.2⟩,
   add_refuses_duplicate, add_allows_set_cookie, iteration_is_insertion_order,
   C14_transcode_bytes, C14_transcode_roundtrip⟩

/-! non-vacuity -/
example : key "SET-Cookie".toList = setCookieKey := by decide
example : (add [("X-A".toList, "1".toList)] "x-a".toList "2".toList matches .error .keyError) = true := by decide
example : iso "é".toList = "Ã©".toList := by decide

end Poor.Props.C14
