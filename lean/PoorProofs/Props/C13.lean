import PoorModel.Session
import PoorProofs.Lemmas.Base64
import PoorProofs.Props.JsonCodec
/-
C13 - session cookies restore the stored data and reject foreign ones.
-/
namespace Poor.Props.C13
open Poor Poor.Session

theorem hiddenFrom_involutive (key : Bytes) (i : Nat) (t : Bytes) :
    hiddenFrom key i (hiddenFrom key i t) = t := by
  induction t generalizing i with
  | nil => rfl
  | cons b rest ih =>
    simp only [hiddenFrom, ih]
    congr 1
    rw [UInt8.xor_assoc, UInt8.xor_self, UInt8.xor_zero]

/-- the XOR stream cipher is its own inverse, for every key and every text -/
theorem hidden_involutive (key t : Bytes) : hidden key (hidden key t) = t :=
  hiddenFrom_involutive key 0 t

/-- the round-trip laws of the standard-library pieces (hypotheses, never axioms) -/
structure Laws {Data : Type} (c : Codec Data) : Prop where
  json : ∀ d, c.loads (c.dumps d) = some d
  zip : ∀ x, c.decompress (c.compress x) = some x
  b64 : ∀ x, c.b64dec (c.b64enc x) = some x

/-- **round trip.** For every data value, every secret (key stream) and every codec obeying
    the round-trip laws, loading the cookie value that `write()` produced restores the data. -/
theorem C13_roundtrip {Data : Type} (c : Codec Data) (hl : Laws c) (key : Bytes) (d : Data)
    (hd : c.isDict d = true) (hne : (writeValue c key d).isEmpty = false) :
    loadValue c key (writeValue c key d) = .ok (some d) := by
  unfold loadValue
  rw [hne]
  simp only [Bool.false_eq_true, if_false]
  unfold writeValue
  simp only [hl.b64, hl.zip, hidden_involutive, hl.json, hd, if_true]

/-- the codec with base64 made concrete (the C loops of `binascii`): only JSON and the compression module
    remain parameters -/
def withBase64 {Data : Type} (c : Codec Data) : Codec Data :=
  { c with b64enc := Poor.Base64.encode, b64dec := Poor.Base64.decode }

/-- **round trip with base64 proved, not assumed** (`Poor.Base64.decode_encode`) -/
theorem C13_roundtrip_b64 {Data : Type} (c : Codec Data)
    (hjson : ∀ d, c.loads (c.dumps d) = some d) (hzip : ∀ x, c.decompress (c.compress x) = some x)
    (key : Bytes) (d : Data) (hd : c.isDict d = true)
    (hne : (writeValue (withBase64 c) key d).isEmpty = false) :
    loadValue (withBase64 c) key (writeValue (withBase64 c) key d) = .ok (some d) :=
  C13_roundtrip (withBase64 c) ⟨hjson, hzip, Poor.Base64.decode_encode⟩ key d hd hne

/-- **round trip with JSON and base64 proved**: for every dictionary of well-formed JSON values, every key stream
    and every compression module that inverts itself, the cookie value restores an equal dictionary. -/
theorem C13_roundtrip_json (compress : Bytes → Bytes) (decompress : Bytes → Option Bytes)
    (hzip : ∀ x, decompress (compress x) = some x) (key : Bytes) (kvs : List (Poor.Json.CpStr × Poor.Json.J))
    (hok : Poor.Json.JOk (.obj kvs))
    (hne : (writeValue (jsonCodec compress decompress) key (.obj kvs)).isEmpty = false) :
    loadValue (jsonCodec compress decompress) key (writeValue (jsonCodec compress decompress) key (.obj kvs))
      = .ok (some (.obj kvs)) := by
  have hj : Poor.Json.loadBytes (Poor.Json.dumpBytes (.obj kvs)) = some (.obj kvs) :=
    JsonCodec.loadBytes_dumpBytes _ hok
  unfold loadValue
  rw [hne]
  simp only [Bool.false_eq_true, if_false]
  unfold writeValue
  simp only [jsonCodec, Poor.Base64.decode_encode, hzip, hidden_involutive, hj, if_true]

theorem drun_data {Data : Type} (c : Codec Data) (key : Bytes) (s : DSt Data) (ops : List (DOp Data)) :
    (drun c key s ops).data = lastData s.data ops := by
  induction ops generalizing s with
  | nil => rfl
  | cons op ops ih =>
    simp only [drun, List.foldl_cons] at ih ⊢
    rw [ih]
    cases op <;> rfl

/-- **the cookie a session emits is the cookie of its current data, at any point of its life**: after any history
    of assignments, writes, earlier `header()` calls and `destroy()`, the value `header()` puts into the cookie loads
    back to the data the session holds at that moment - not to what it held when a value was first written. -/
theorem C13_header_current {Data : Type} (c : Codec Data) (hl : Laws c) (key : Bytes) (s0 : DSt Data)
    (ops : List (DOp Data)) (hd : c.isDict (lastData s0.data ops) = true)
    (hne : (writeValue c key (lastData s0.data ops)).isEmpty = false) :
    loadValue c key (drun c key s0 (ops ++ [.header])).value = .ok (some (lastData s0.data ops)) := by
  have hv : (drun c key s0 (ops ++ [.header])).value = writeValue c key (lastData s0.data ops) := by
    simp only [drun, List.foldl_append, List.foldl_cons, List.foldl_nil, dstep]
    have := drun_data c key s0 ops
    simp only [drun] at this
    rw [this]
  rw [hv]
  exact C13_roundtrip c hl key _ hd hne

/-- the cookie value is empty only for an empty compressed payload (which no compression module produces) -/
theorem C13_value_nonempty {Data : Type} (c : Codec Data) (key : Bytes) (d : Data)
    (h : c.compress (hidden key (c.dumps d)) ≠ []) : (writeValue (withBase64 c) key d).isEmpty = false := by
  show (Poor.Base64.encode (c.compress (hidden key (c.dumps d)))).isEmpty = false
  generalize c.compress (hidden key (c.dumps d)) = x at h
  match x, h with
  | [_], _ => rfl
  | [_, _], _ => rfl
  | _ :: _ :: _ :: _, _ => rfl

/-- **errors.** Whatever string is loaded - foreign, truncated, arbitrary - the outcome is the
    restored dictionary, "no data", or the session error; no other failure exists -/
theorem C13_errors {Data : Type} (c : Codec Data) (key : Bytes) (raw : Str) :
    loadValue c key raw = .ok none ∨ (∃ d, loadValue c key raw = .ok (some d) ∧ c.isDict d = true)
      ∨ loadValue c key raw = .error () := by
  unfold loadValue
  split
  · exact Or.inl rfl
  · split
    · exact Or.inr (Or.inr rfl)
    · split
      · exact Or.inr (Or.inr rfl)
      · split
        · exact Or.inr (Or.inr rfl)
        · split
          · rename_i d _ hd; exact Or.inr (Or.inl ⟨d, rfl, hd⟩)
          · exact Or.inr (Or.inr rfl)

/-- **foreign secret (partial).** Under another key stream that differs at some position of
    the hidden text, the de-hidden plaintext differs from the original at that position: the
    JSON text the loader sees is not the text that was stored.  (That the *parsed* data
    differ as well is not provable without a model of JSON; the harness checks it.) -/
theorem C13_reject_partial (key key' : Bytes) (t : Bytes) (i : Nat) (hi : i < t.length)
    (hk : key.getD (i % key.length) 0 ≠ key'.getD (i % key'.length) 0) :
    (hidden key' (hidden key t))[i]? ≠ t[i]? := by
  suffices h : ∀ (j : Nat) (t : Bytes) (i : Nat), i < t.length →
      key.getD ((j + i) % key.length) 0 ≠ key'.getD ((j + i) % key'.length) 0 →
      (hiddenFrom key' j (hiddenFrom key j t))[i]? ≠ t[i]? by
    have := h 0 t i hi (by simpa using hk)
    simpa [hidden] using this
  intro j t
  induction t generalizing j with
  | nil => intro i hi; simp at hi
  | cons b rest ih =>
    intro i hi hne
    cases i with
    | zero =>
      simp only [hiddenFrom, List.getElem?_cons_zero, ne_eq, Option.some.injEq]
      intro heq
      apply hne
      simp only [Nat.add_zero]
      have h := congrArg (fun x => b ^^^ x) heq
      simp only [UInt8.xor_self] at h
      rw [← UInt8.xor_assoc, ← UInt8.xor_assoc, UInt8.xor_self, UInt8.zero_xor] at h
      exact UInt8.xor_eq_zero_iff.mp h
    | succ i =>
      simp only [hiddenFrom, List.getElem?_cons_succ]
      apply ih (j + 1) i (by simpa using hi)
      rwa [show j + 1 + i = j + (i + 1) by omega]

/-! ### attributes -/

/-- a destroyed session: the configuration itself is now "expired" -/
def Destroyed (s : St) : Prop :=
  s.cfg.expires = -1 ∧ (s.cfg.maxAge = none ∨ s.cfg.maxAge = some (-1)) ∧
  s.attrs.expires = some (-1) ∧ (s.attrs.maxAge = none ∨ s.attrs.maxAge = some (-1))

theorem destroy_destroyed (s : St) (h : s.attrs.maxAge = none ∨ s.cfg.maxAge ≠ none) : Destroyed (destroy s) := by
  unfold destroy Destroyed
  cases hm : s.cfg.maxAge with
  | none =>
    cases hs : s.cfg.secure <;> simp [hm, hs] <;> rcases h with h | h <;> simp_all
  | some m =>
    cases hs : s.cfg.secure <;> simp [hm, hs]

theorem write_keeps_destroyed (s : St) (h : Destroyed s) : Destroyed (write s) := by
  obtain ⟨h1, h2, h3, h4⟩ := h
  unfold write Destroyed
  simp only
  refine ⟨h1, h2, ?_, ?_⟩
  · cases hm : s.cfg.maxAge <;> cases hss : s.cfg.sameSite <;> simp [h1, h3, hm, hss] <;>
      (repeat' split) <;> simp_all
  · rcases h2 with h2 | h2 <;> cases hss : s.cfg.sameSite <;> simp [h1, h2, hss] <;>
      (repeat' split) <;> simp_all

theorem step_keeps_destroyed (s : St) (op : Op) (h : Destroyed s)
    (hm : s.attrs.maxAge = none ∨ s.cfg.maxAge ≠ none) : Destroyed (step s op) := by
  cases op with
  | load => exact h
  | write => exact write_keeps_destroyed s h
  | header => exact write_keeps_destroyed s h
  | destroy => exact destroy_destroyed s hm

/-- **destroyed stays destroyed.** After `destroy()`, whatever sequence of load / write /
    header calls follows, every `header()` emits an already-expired cookie: Expires in the
    past and, when Max-Age is present, Max-Age ≤ 0 -/
theorem C13_destroyed_expired (s : St) (h : Destroyed s) (ops : List Op) (hnd : ∀ op ∈ ops, op ≠ .destroy) :
    (headerAttrs (ops.foldl step s)).expires = some (-1) ∧
    ((headerAttrs (ops.foldl step s)).maxAge = none ∨ (headerAttrs (ops.foldl step s)).maxAge = some (-1)) := by
  have hfold : Destroyed (ops.foldl step s) := by
    induction ops generalizing s with
    | nil => exact h
    | cons op rest ih =>
      simp only [List.foldl_cons]
      apply ih
      · cases op with
        | load => exact h
        | write => exact write_keeps_destroyed s h
        | header => exact write_keeps_destroyed s h
        | destroy => exact absurd rfl (hnd .destroy (by simp))
      · intro o ho; exact hnd o (by simp [ho])
  have := write_keeps_destroyed _ hfold
  exact ⟨this.2.2.1, this.2.2.2⟩

/-- **configured attributes.** A fresh session's header carries HttpOnly and exactly the
    configured Path, Domain, Secure, SameSite, Expires and Max-Age -/
theorem C13_attrs (cfg : Cfg) :
    let a := headerAttrs (St.init cfg)
    a.httpOnly = true ∧
    a.domain = (if cfg.domain.isEmpty then none else some cfg.domain) ∧
    a.path = (if cfg.path.isEmpty then none else some cfg.path) ∧
    a.secure = cfg.secure ∧ a.sameSite = cfg.sameSite ∧
    a.expires = (if cfg.expires ≠ 0 then some cfg.expires else none) ∧ a.maxAge = cfg.maxAge := by
  obtain ⟨e, m, dom, path, sec, ss⟩ := cfg
  simp only [headerAttrs, St.init, write]
  by_cases hd : dom.isEmpty = true <;> by_cases hp : path.isEmpty = true <;> cases sec <;>
    cases ss <;> cases m <;> by_cases he : e = 0 <;> simp [hd, hp, he]

example : Destroyed (destroy (St.init ⟨3600, some 60, [], "/".toList, true, none⟩)) := by
  unfold Destroyed; decide

example : Poor.Base64.decode (Poor.Base64.encode [1, 2, 3, 4, 255]) = some [1, 2, 3, 4, 255] := by decide
example : Poor.Base64.encode [104, 105] = "aGk=".toList := by decide

end Poor.Props.C13
