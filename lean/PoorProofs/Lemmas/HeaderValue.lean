import PoorModel.HeaderValue
/- helper lemmas for C18: quoted-string scanning, escaping, stripping -/
namespace Poor.HeaderValue
open Poor

/-! ### escaping -/

theorem rp_match (a b r : Char) (rest : Str) : replacePair a b r (a :: b :: rest) = r :: replacePair a b r rest := by
  simp [replacePair]

theorem rp_skip (a b r x : Char) (rest : Str) (h : x ≠ a ∨ rest.head? ≠ some b) :
    replacePair a b r (x :: rest) = x :: replacePair a b r rest := by
  cases rest with
  | nil => simp [replacePair]
  | cons y ys =>
    have : ¬(x = a ∧ y = b) := by
      rintro ⟨h1, h2⟩
      rcases h with h | h
      · exact h h1
      · simp [h2] at h
    simp [replacePair, this]

/-- first pass of the unescaping: `\\\\` → `\\` leaves only the escaped quotes escaped -/
def escQuoteOnly (v : Str) : Str := v.flatMap fun c => if c = '"' then ['\\', '"'] else [c]

theorem escQ_cons (c : Char) (t : Str) :
    escQ (c :: t) = (if c = '\\' then ['\\', '\\'] else if c = '"' then ['\\', '"'] else [c]) ++ escQ t := by
  simp [escQ]

theorem escQuoteOnly_cons (c : Char) (t : Str) :
    escQuoteOnly (c :: t) = (if c = '"' then ['\\', '"'] else [c]) ++ escQuoteOnly t := by
  simp [escQuoteOnly]

theorem pass1 (v : Str) : replacePair '\\' '\\' '\\' (escQ v) = escQuoteOnly v := by
  induction v with
  | nil => rfl
  | cons c rest ih =>
    rw [escQ_cons, escQuoteOnly_cons]
    by_cases h1 : c = '\\'
    · subst h1
      simp only [if_true, show ('\\' = '"') = False by decide, if_false, List.cons_append, List.nil_append]
      rw [rp_match, ih]
    · by_cases h2 : c = '"'
      · subst h2
        simp only [show ('"' = '\\') = False by decide, if_false, if_true, List.cons_append, List.nil_append]
        rw [rp_skip _ _ _ _ _ (Or.inr (by simp)), rp_skip _ _ _ _ _ (Or.inl (by decide)), ih]
      · simp only [h1, h2, if_false, List.cons_append, List.nil_append]
        rw [rp_skip _ _ _ _ _ (Or.inl h1), ih]

theorem escQuoteOnly_head (v : Str) : (escQuoteOnly v).head? ≠ some '"' := by
  cases v with
  | nil => simp [escQuoteOnly]
  | cons c rest =>
    rw [escQuoteOnly_cons]
    split
    · simp
    · rename_i h; simp; exact fun hc => h hc

theorem pass2 (v : Str) : replacePair '\\' '"' '"' (escQuoteOnly v) = v := by
  induction v with
  | nil => rfl
  | cons c rest ih =>
    rw [escQuoteOnly_cons]
    by_cases h2 : c = '"'
    · subst h2
      simp only [if_true, List.cons_append, List.nil_append]
      rw [rp_match, ih]
    · simp only [h2, if_false, List.cons_append, List.nil_append]
      rw [rp_skip _ _ _ _ _ (Or.inr (escQuoteOnly_head rest)), ih]

/-- what `parse_header` undoes is exactly what `_formatparam` did -/
theorem unescape_escQ (v : Str) : unescape (escQ v) = v := by
  unfold unescape; rw [pass1, pass2]

/-! ### the segment scanner -/

theorem ss_esc (c : Char) (r : Str) :
    splitSeg true ('\\' :: c :: r) = ('\\' :: c :: (splitSeg true r).1, (splitSeg true r).2) := by
  rw [splitSeg]

theorem ss_quote (q : Bool) (r : Str) :
    splitSeg q ('"' :: r) = ('"' :: (splitSeg (!q) r).1, (splitSeg (!q) r).2) := by
  cases q <;> (rw [splitSeg]; all_goals simp)

theorem ss_semi (r : Str) : splitSeg false (';' :: r) = ([], ';' :: r) := by
  rw [splitSeg]; all_goals simp

theorem ss_other (q : Bool) (c : Char) (r : Str) (h1 : c ≠ '"') (h2 : c = ';' → q = true)
    (h3 : q = true → c ≠ '\\') : splitSeg q (c :: r) = (c :: (splitSeg q r).1, (splitSeg q r).2) := by
  cases q
  · rw [splitSeg]
    · have : c ≠ ';' := fun hc => by simpa using h2 hc
      simp [h1, this]
    all_goals simp
  · have h3' := h3 rfl
    rw [splitSeg]
    · simp [h1]
    all_goals (intros; simp_all)

theorem splitSeg_plain (pre rest : Str) (h : ∀ c ∈ pre, c ≠ ';' ∧ c ≠ '"') :
    splitSeg false (pre ++ rest) = (pre ++ (splitSeg false rest).1, (splitSeg false rest).2) := by
  induction pre with
  | nil => rfl
  | cons c t ih =>
    have hc := h c (by simp)
    have := ih (fun x hx => h x (by simp [hx]))
    simp only [List.cons_append]
    rw [ss_other false c _ hc.2 (fun e => absurd e hc.1) (fun e => by cases e), this]

/-- inside quotes: the escaped value and the closing quote are one stretch, whatever the
    value contains (semicolons, equal signs, quotes, backslashes) -/
theorem splitSeg_quoted (v rest : Str) :
    splitSeg true (escQ v ++ '"' :: rest)
      = (escQ v ++ '"' :: (splitSeg false rest).1, (splitSeg false rest).2) := by
  induction v with
  | nil => simp only [escQ, List.flatMap_nil, List.nil_append]; rw [ss_quote]; rfl
  | cons c t ih =>
    rw [escQ_cons]
    by_cases h1 : c = '\\'
    · subst h1
      simp only [if_true, List.cons_append, List.nil_append]
      rw [ss_esc, ih]
    · by_cases h2 : c = '"'
      · subst h2
        simp only [show ('"' = '\\') = False by decide, if_false, if_true, List.cons_append, List.nil_append]
        rw [ss_esc, ih]
      · simp only [h1, h2, if_false, List.cons_append, List.nil_append]
        rw [ss_other true c _ h2 (fun _ => rfl) (fun _ => h1), ih]

/-! ### stripping -/

theorem dropWhile_head_false {p : Char → Bool} {c : Char} {t : Str} (h : p c = false) :
    (c :: t).dropWhile p = c :: t := by simp [List.dropWhile, h]

theorem strip_id (s : Str) (c : Char) (t : Str) (hs : s = c :: t) (hh : isSpace c = false)
    (d : Char) (hl : s.getLast? = some d) (hd : isSpace d = false) : strip s = s := by
  unfold strip
  subst hs
  rw [dropWhile_head_false hh]
  have hrev : (c :: t).reverse.head? = some d := by rw [List.head?_reverse]; exact hl
  cases hr : (c :: t).reverse with
  | nil => simp at hr
  | cons x xs =>
    rw [hr] at hrev
    simp only [List.head?_cons, Option.some.injEq] at hrev
    subst hrev
    rw [dropWhile_head_false hd, ← hr, List.reverse_reverse]

theorem strip_space_cons (s : Str) : strip (' ' :: s) = strip s := by
  unfold strip
  have : isSpace ' ' = true := by decide
  simp [List.dropWhile, this]

end Poor.HeaderValue
