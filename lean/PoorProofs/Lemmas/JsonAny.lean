import PoorProofs.Lemmas.Json
/-
Every spelling of a JSON value, not only the one `json.dumps` writes: the inductive family `Txt v s`
("`s` is a JSON text of `v`": white space between tokens, every escape style inside strings, repeated keys),
`loads_txt` (the parser reads each of them back to `v`) and `Txt_dump` (the family contains `dump v`).
-/
namespace Poor.Json
open Poor
open Poor.HeaderValue (isDigit natOfDigits)

/-! ## every spelling of a value, not only the one `json.dumps` writes -/

/-- white space between tokens -/
def AllWs (w : Str) : Prop := ∀ c ∈ w, isWs c = true

/-- one code point of a string value as a client may write it: the character itself, a short escape
    (`\/` included), `\uXXXX` with hex digits of either case, or a surrogate pair of two such escapes -/
inductive CpEnc : Nat → Str → Prop
  | raw (c : Char) (h1 : 0x20 ≤ c.toNat) (h2 : c ≠ '"') (h3 : c ≠ '\\') : CpEnc c.toNat [c]
  | short (e : Char) (v : Nat) (he : e ≠ 'u') (hv : unesc e = some v) : CpEnc v ['\\', e]
  | u4 (n : Nat) (a b c d : Char) (h : hex4? [a, b, c, d] = some (n, [])) : CpEnc n ['\\', 'u', a, b, c, d]
  | pair (hi lo : Nat) (a b c d a' b' c' d' : Char) (hh : isHigh hi = true) (hl : isLow lo = true)
      (h1 : hex4? [a, b, c, d] = some (hi, [])) (h2 : hex4? [a', b', c', d'] = some (lo, [])) :
      CpEnc (joinSur hi lo) ['\\', 'u', a, b, c, d, '\\', 'u', a', b', c', d']

/-- the body of a string literal for the code points `s` (between the quotes) -/
inductive StrEnc : CpStr → Str → Prop
  | nil : StrEnc [] []
  | cons {c : Nat} {s : CpStr} {ec es : Str} : CpEnc c ec → StrEnc s es → StrEnc (c :: s) (ec ++ es)

theorem hex4?_append {a b c d : Char} {n : Nat} (h : hex4? [a, b, c, d] = some (n, [])) (T : Str) :
    hex4? (a :: b :: c :: d :: T) = some (n, T) := by
  simp only [hex4?] at h ⊢
  split at h
  · rename_i w x y z h1 h2 h3 h4
    simp only [Option.some.injEq, Prod.mk.injEq, and_true] at h
    rw [h]
  · simp at h

end Poor.Json
namespace Poor.Json
open Poor

/-- the first escape of an encoded code point, for the look-ahead of a preceding high surrogate: `pairAt`
    joins only when the text starts with `\u` + the hex of a low surrogate -/
theorem pairAt_CpEnc (u : Nat) {c : Nat} {ec : Str} (h : CpEnc c ec) (T : Str)
    (hnl : isHigh u = true → isLow c = false) : pairAt u (ec ++ T) = some none := by
  cases h with
  | raw ch h1 h2 h3 => exact pairAt_head_ne u ch _ h3
  | short e v he hv => exact pairAt_second_ne u e _ he
  | u4 n a b c' d hx =>
    by_cases hu : isHigh u = true
    · show pairAt u ('\\' :: 'u' :: a :: b :: c' :: d :: T) = some none
      unfold pairAt
      split
      · simp only [hex4?_append hx T, hnl hu, Bool.false_eq_true, if_false]
      · rfl
    · unfold pairAt; simp [hu]
  | pair hi lo a b c' d a' b' c'' d' hh hl h1 h2 =>
    by_cases hu : isHigh u = true
    · show pairAt u ('\\' :: 'u' :: a :: b :: c' :: d :: ('\\' :: 'u' :: a' :: b' :: c'' :: d' :: T)) = some none
      unfold pairAt
      have hnot : isLow hi = false := by
        simp only [isHigh, isLow, Bool.and_eq_true, decide_eq_true_eq] at hh ⊢
        simp only [Bool.and_eq_false_iff, decide_eq_false_iff_not]
        omega
      split
      · simp only [hex4?_append h1 _, hnot, Bool.false_eq_true, if_false]
      · rfl
    · unfold pairAt; simp [hu]

end Poor.Json
namespace Poor.Json
open Poor

theorem scan_raw (c : Char) (h1 : 0x20 ≤ c.toNat) (h2 : c ≠ '"') (h3 : c ≠ '\\') (T : Str) (acc : CpStr) :
    scanStr (c :: T) acc = scanStr T (c.toNat :: acc) := by
  rw [scanStr.eq_def]
  simp only [h2, h3, if_false]
  rw [if_neg (by omega)]

theorem scan_u (u : Nat) (a b c d : Char) (hx : hex4? [a, b, c, d] = some (u, [])) (T : Str) (ht : T ≠ [])
    (hp : pairAt u T = some none) (acc : CpStr) :
    scanStr ('\\' :: 'u' :: a :: b :: c :: d :: T) acc = scanStr T (u :: acc) := by
  rw [scanStr.eq_def]
  have e1 : ('\\' : Char) ≠ '"' := by decide
  simp only [e1, if_false, if_true]
  split
  · rename_i h; rw [hex4?_append hx T] at h; simp at h
  · rename_i u' r3 h
    rw [hex4?_append hx T] at h
    simp only [Option.some.injEq, Prod.mk.injEq] at h
    obtain ⟨rfl, rfl⟩ := h
    have : T.isEmpty = false := by cases T <;> simp_all
    simp only [this, Bool.false_eq_true, if_false]
    split
    · rename_i h5; rw [hp] at h5; simp at h5
    · rfl
    · rename_i j r5 h5; rw [hp] at h5; simp at h5

theorem scan_upair (hi lo : Nat) (a b c d a' b' c' d' : Char) (hh : isHigh hi = true) (hl : isLow lo = true)
    (h1 : hex4? [a, b, c, d] = some (hi, [])) (h2 : hex4? [a', b', c', d'] = some (lo, []))
    (T : Str) (ht : T ≠ []) (acc : CpStr) :
    scanStr ('\\' :: 'u' :: a :: b :: c :: d :: '\\' :: 'u' :: a' :: b' :: c' :: d' :: T) acc
      = scanStr T (joinSur hi lo :: acc) := by
  have hp : pairAt hi ('\\' :: 'u' :: a' :: b' :: c' :: d' :: T) = some (some (joinSur hi lo, T)) := by
    have hlen : 7 ≤ ('\\' :: 'u' :: a' :: b' :: c' :: d' :: T).length := by
      cases T with
      | nil => exact absurd rfl ht
      | cons x T => simp only [List.length_cons]; omega
    unfold pairAt
    rw [if_pos (by simp only [hh, decide_eq_true hlen, Bool.and_self])]
    simp only [hex4?_append h2 T, hl, if_true]
  rw [scanStr.eq_def]
  have e1 : ('\\' : Char) ≠ '"' := by decide
  simp only [e1, if_false, if_true]
  split
  · rename_i h; rw [hex4?_append h1 _] at h; simp at h
  · rename_i u' r3 h
    rw [hex4?_append h1 _] at h
    simp only [Option.some.injEq, Prod.mk.injEq] at h
    obtain ⟨rfl, rfl⟩ := h
    simp only [List.isEmpty_cons, Bool.false_eq_true, if_false]
    split
    · rename_i h5; rw [hp] at h5; simp at h5
    · rename_i h5; rw [hp] at h5; simp at h5
    · rename_i j r5 h5; rw [hp] at h5
      simp only [Option.some.injEq, Prod.mk.injEq] at h5
      obtain ⟨rfl, rfl⟩ := h5; rfl

theorem CpEnc_ne_nil {c : Nat} {ec : Str} (h : CpEnc c ec) : ec ≠ [] := by
  cases h <;> simp

/-- the scanner reads every spelling of a string back to its code points -/
theorem scanStr_enc {s : CpStr} {es : Str} (h : StrEnc s es) : ∀ (acc : CpStr) (rest : Str), NoPair s →
    scanStr (es ++ '"' :: rest) acc = .ok (acc.reverse ++ s) rest := by
  induction h with
  | nil => intro acc rest _; rw [scanStr.eq_def]; simp
  | @cons c s ec es hc hs ih =>
    intro acc rest hnp
    have hnp' : NoPair s := by
      cases s with
      | nil => trivial
      | cons b r => exact hnp.2
    have hT : es ++ '"' :: rest ≠ [] := by cases es <;> simp
    have fin : scanStr (es ++ '"' :: rest) (c :: acc) = .ok (acc.reverse ++ c :: s) rest := by
      rw [ih (c :: acc) rest hnp']; simp
    -- what follows a lone high surrogate never starts with the escape of a low one
    have hpa : pairAt c (es ++ '"' :: rest) = some none := by
      cases hs with
      | nil => exact pairAt_head_ne c '"' rest (by decide)
      | @cons b r eb er hb hr =>
        rw [List.append_assoc]
        exact pairAt_CpEnc c hb _ (fun hu => by
          have := hnp.1
          cases hl : isLow b
          · rfl
          · exact absurd ⟨hu, hl⟩ this)
    rw [List.append_assoc]
    cases hc with
    | raw ch h1 h2 h3 => exact (scan_raw ch h1 h2 h3 _ acc).trans fin
    | short e v he hv => exact (scan_short e c he hv _ acc).trans fin
    | u4 n a b c' d hx => exact (scan_u c a b c' d hx _ hT hpa acc).trans fin
    | pair hi lo a b c' d a' b' c'' d' hh hl h1 h2 =>
      exact (scan_upair hi lo a b c' d a' b' c'' d' hh hl h1 h2 _ hT acc).trans fin

end Poor.Json

namespace Poor.Json
open Poor
open Poor.HeaderValue (isDigit natOfDigits)

theorem skipWs_allWs (w X : Str) (hw : AllWs w) : skipWs (w ++ X) = skipWs X := by
  induction w with
  | nil => rfl
  | cons a w ih =>
    have ha := hw a List.mem_cons_self
    simp only [skipWs, List.cons_append, List.dropWhile, ha]
    exact ih (fun c hc => hw c (List.mem_cons_of_mem _ hc))

theorem skipWs_head (c : Char) (X : Str) (h : isWs c = false) : skipWs (c :: X) = c :: X := by
  simp [skipWs, List.dropWhile, h]

theorem sepOK_ws (w : Str) (c : Char) (X : Str) (hw : AllWs w) (hc : numCont c = false) : SepOK (w ++ c :: X) := by
  intro a r h
  cases w with
  | nil => simp only [List.nil_append, List.cons.injEq] at h; rw [← h.1]; exact hc
  | cons b w =>
    simp only [List.cons_append, List.cons.injEq] at h
    rw [← h.1]
    have := hw b List.mem_cons_self
    simp only [isWs, Bool.or_eq_true, decide_eq_true_eq] at this
    rcases this with ((rfl | rfl) | rfl) | rfl <;> decide

def dsetp (d : List (CpStr × J)) (kv : CpStr × J) : List (CpStr × J) := dset d kv.1 kv.2

mutual
/-- **a JSON text of the value `v`**: any white space between tokens, any spelling of the strings, integers as
    `str(int)` writes them (and `-0`), repeated keys (the last one wins, at the place of the first) -/
inductive Txt : J → Str → Prop
  | null : Txt .null ['n', 'u', 'l', 'l']
  | tru : Txt (.bool true) ['t', 'r', 'u', 'e']
  | fls : Txt (.bool false) ['f', 'a', 'l', 's', 'e']
  | int (i : Int) (h : (digitsOf i.natAbs).length ≤ INT_MAX_DIGITS) : Txt (.int i) (dumpInt i)
  | negZero : Txt (.int 0) ['-', '0']
  | str {s : CpStr} {es : Str} : StrEnc s es → NoPair s → Txt (.str s) ('"' :: (es ++ ['"']))
  | arrNil (w : Str) (hw : AllWs w) : Txt (.arr []) ('[' :: (w ++ [']']))
  | arr {l : List J} {t : Str} (w : Str) (hw : AllWs w) : Elems l t → Txt (.arr l) ('[' :: (w ++ t))
  | objNil (w : Str) (hw : AllWs w) : Txt (.obj []) ('{' :: (w ++ ['}']))
  | obj {ps : List (CpStr × J)} {t : Str} (w : Str) (hw : AllWs w) : Membs ps t →
      Txt (.obj (ps.foldl dsetp [])) ('{' :: (w ++ t))
/-- behind `[` and its white space: `value ws (, ws value ws)* ]` -/
inductive Elems : List J → Str → Prop
  | last {v : J} {s : Str} (w : Str) (hw : AllWs w) : Txt v s → Elems [v] (s ++ (w ++ [']']))
  | more {v : J} {s : Str} {l : List J} {t : Str} (w1 w2 : Str) (h1 : AllWs w1) (h2 : AllWs w2) :
      Txt v s → Elems l t → Elems (v :: l) (s ++ (w1 ++ ',' :: (w2 ++ t)))
/-- behind `{` and its white space: `"key" ws : ws value ws (, ws "key" ...)* }` -/
inductive Membs : List (CpStr × J) → Str → Prop
  | last {k : CpStr} {ek : Str} {v : J} {s : Str} (w1 w2 w3 : Str) (h1 : AllWs w1) (h2 : AllWs w2) (h3 : AllWs w3) :
      StrEnc k ek → NoPair k → Txt v s →
      Membs [(k, v)] ('"' :: (ek ++ '"' :: (w1 ++ ':' :: (w2 ++ (s ++ (w3 ++ ['}']))))))
  | more {k : CpStr} {ek : Str} {v : J} {s : Str} {ps : List (CpStr × J)} {t : Str} (w1 w2 w3 w4 : Str)
      (h1 : AllWs w1) (h2 : AllWs w2) (h3 : AllWs w3) (h4 : AllWs w4) :
      StrEnc k ek → NoPair k → Txt v s → Membs ps t →
      Membs ((k, v) :: ps) ('"' :: (ek ++ '"' :: (w1 ++ ':' :: (w2 ++ (s ++ (w3 ++ ',' :: (w4 ++ t)))))))
end

theorem Txt_head {v : J} {s : Str} (h : Txt v s) : ∃ c r, s = c :: r ∧ HeadOK c := by
  cases h with
  | null => exact ⟨_, _, rfl, by decide⟩
  | tru => exact ⟨_, _, rfl, by decide⟩
  | fls => exact ⟨_, _, rfl, by decide⟩
  | int i _ => obtain ⟨c, r, e, h, _⟩ := dumpInt_head i; exact ⟨c, r, e, h⟩
  | negZero => exact ⟨_, _, rfl, by decide⟩
  | str _ _ => exact ⟨_, _, rfl, by decide⟩
  | arrNil _ _ => exact ⟨_, _, rfl, by decide⟩
  | arr _ _ _ => exact ⟨_, _, rfl, by decide⟩
  | objNil _ _ => exact ⟨_, _, rfl, by decide⟩
  | obj _ _ _ => exact ⟨_, _, rfl, by decide⟩

theorem Elems_head {l : List J} {t : Str} (h : Elems l t) : ∃ c r, t = c :: r ∧ HeadOK c := by
  cases h with
  | last w hw hv => obtain ⟨c, r, e, hc⟩ := Txt_head hv; exact ⟨c, r ++ (w ++ [']']), by rw [e]; rfl, hc⟩
  | more w1 w2 h1 h2 hv hl => obtain ⟨c, r, e, hc⟩ := Txt_head hv; exact ⟨c, _, by rw [e]; rfl, hc⟩

theorem Membs_head {l : List (CpStr × J)} {t : Str} (h : Membs l t) : ∃ r, t = '"' :: r := by
  cases h <;> exact ⟨_, rfl⟩

end Poor.Json

namespace Poor.Json
open Poor
open Poor.HeaderValue (isDigit natOfDigits)

theorem numCont_ws (c : Char) (h : isWs c = true) : numCont c = false := by
  simp only [isWs, Bool.or_eq_true, decide_eq_true_eq] at h
  rcases h with ((rfl | rfl) | rfl) | rfl <;> decide

theorem sepOK_ws' (w : Str) (X : Str) (hw : AllWs w) (hX : SepOK X) : SepOK (w ++ X) := by
  intro a r h
  cases w with
  | nil => exact hX a r h
  | cons b w =>
    simp only [List.cons_append, List.cons.injEq] at h
    rw [← h.1]
    exact numCont_ws b (hw b List.mem_cons_self)

theorem sepOK_cons (c : Char) (X : Str) (hc : numCont c = false) : SepOK (c :: X) := by
  intro a r h
  simp only [List.cons.injEq] at h
  rw [← h.1]; exact hc

theorem pValue_negZero (f : Nat) (rest : Str) (h : SepOK rest) :
    pValue (f + 1) ('-' :: '0' :: rest) = .ok (.int 0) rest := by
  have hlit : pLiteral ('-' :: '0' :: rest) = none := pLiteral_minus_digit '0' rest (by decide)
  simp only [pValue]
  rw [if_neg (by decide), if_neg (by decide), if_neg (by decide), hlit]
  simp only [pNumber, pDigits, if_true]
  rw [finishNumber_sep true ['0'] rest h (by decide)]
  have : natOfDigits ['0'] = 0 := by rw [← digitsOf_zero]; exact natOfDigits_digitsOf 0
  rw [this]; rfl

mutual
theorem pValue_txt : ∀ {v : J} {s : Str}, Txt v s → ∀ (f : Nat) (rest : Str), s.length ≤ f → SepOK rest →
    pValue f (s ++ rest) = .ok v rest
  | _, _, .null, f, rest, hf, _ => by
    cases f with
    | zero => simp at hf
    | succ f =>
      simp only [List.cons_append, List.nil_append, pValue]
      rw [if_neg (by decide), if_neg (by decide), if_neg (by decide), pLiteral_null]
  | _, _, .tru, f, rest, hf, _ => by
    cases f with
    | zero => simp at hf
    | succ f =>
      simp only [List.cons_append, List.nil_append, pValue]
      rw [if_neg (by decide), if_neg (by decide), if_neg (by decide), pLiteral_true]
  | _, _, .fls, f, rest, hf, _ => by
    cases f with
    | zero => simp at hf
    | succ f =>
      simp only [List.cons_append, List.nil_append, pValue]
      rw [if_neg (by decide), if_neg (by decide), if_neg (by decide), pLiteral_false]
  | _, _, .int i h, f, rest, hf, hs => by
    cases f with
    | zero =>
      obtain ⟨c, r, e, _⟩ := dumpInt_head i
      rw [e] at hf; simp at hf
    | succ f => exact pValue_int f i rest hs h
  | _, _, .negZero, f, rest, hf, hs => by
    cases f with
    | zero => simp at hf
    | succ f => exact pValue_negZero f rest hs
  | _, _, .str (s := s) (es := es) he hn, f, rest, hf, _ => by
    cases f with
    | zero => simp at hf
    | succ f =>
      simp only [List.cons_append, List.append_assoc, List.nil_append, pValue, if_true]
      rw [scanStr_enc he [] rest hn]; simp
  | _, _, .arrNil w hw, f, rest, hf, _ => by
    cases f with
    | zero => simp at hf
    | succ f =>
      simp only [List.cons_append, List.append_assoc, pValue]
      rw [if_neg (by decide), if_neg (by decide), if_pos trivial, skipWs_allWs w _ hw]
      simp [skipWs, List.dropWhile, isWs]
  | _, _, .arr (l := l) (t := t) w hw he, f, rest, hf, _ => by
    cases f with
    | zero => simp at hf
    | succ f =>
      have hlen : t.length ≤ f := by simp only [List.length_cons, List.length_append] at hf; omega
      have ih := pElems_txt he f rest [] hlen
      obtain ⟨c, r, e, hc⟩ := Elems_head he
      simp only [List.cons_append, List.append_assoc, pValue]
      rw [if_neg (by decide), if_neg (by decide), if_pos trivial, skipWs_allWs w _ hw]
      rw [e] at ih ⊢
      simp only [List.cons_append] at ih ⊢
      rw [skipWs_head c _ hc.1]
      split
      · rename_i heq; simp only [List.cons.injEq] at heq; exact absurd heq.1 hc.2.1
      · simpa using ih
  | _, _, .objNil w hw, f, rest, hf, _ => by
    cases f with
    | zero => simp at hf
    | succ f =>
      simp only [List.cons_append, List.append_assoc, pValue]
      rw [if_neg (by decide), if_pos trivial, skipWs_allWs w _ hw]
      simp [skipWs, List.dropWhile, isWs]
  | _, _, .obj (ps := ps) (t := t) w hw hm, f, rest, hf, _ => by
    cases f with
    | zero => simp at hf
    | succ f =>
      have hlen : t.length ≤ f := by simp only [List.length_cons, List.length_append] at hf; omega
      have ih := pMembers_txt hm f rest [] hlen
      obtain ⟨r, e⟩ := Membs_head hm
      simp only [List.cons_append, List.append_assoc, pValue]
      rw [if_neg (by decide), if_pos trivial, skipWs_allWs w _ hw]
      rw [e] at ih ⊢
      simp only [List.cons_append] at ih ⊢
      rw [skipWs_head '"' _ (by decide)]
      exact ih
theorem pElems_txt : ∀ {l : List J} {t : Str}, Elems l t → ∀ (f : Nat) (rest : Str) (acc : List J), t.length ≤ f →
    pElems f (t ++ rest) acc = .ok (.arr (acc.reverse ++ l)) rest
  | _, _, .last (v := v) (s := s) w hw hv, f, rest, acc, hf => by
    have hpos : 0 < s.length := by obtain ⟨c, r, e, _⟩ := Txt_head hv; rw [e]; simp
    cases f with
    | zero => simp only [List.length_append] at hf; omega
    | succ f =>
      have h1 : s.length ≤ f := by simp only [List.length_append, List.length_cons, List.length_nil] at hf; omega
      have ih := pValue_txt hv f (w ++ ']' :: rest) h1 (sepOK_ws' w _ hw (sepOK_cons ']' rest (by decide)))
      simp only [List.append_assoc, List.cons_append, List.nil_append, pElems]
      rw [ih]
      simp only []
      rw [skipWs_allWs w _ hw, skipWs_head ']' _ (by decide)]
      simp
  | _, _, .more (v := v) (s := s) (l := l) (t := t) w1 w2 h1 h2 hv hl, f, rest, acc, hf => by
    have hpos : 0 < s.length := by obtain ⟨c, r, e, _⟩ := Txt_head hv; rw [e]; simp
    cases f with
    | zero => simp only [List.length_append] at hf; omega
    | succ f =>
      have hs : s.length ≤ f := by simp only [List.length_append, List.length_cons] at hf; omega
      have ht : t.length ≤ f := by simp only [List.length_append, List.length_cons] at hf; omega
      have ihv := pValue_txt hv f (w1 ++ ',' :: (w2 ++ (t ++ rest))) hs
        (sepOK_ws' w1 _ h1 (sepOK_cons ',' _ (by decide)))
      have ihl := pElems_txt hl f rest (v :: acc) ht
      obtain ⟨c, r, e, hc⟩ := Elems_head hl
      simp only [List.append_assoc, List.cons_append, pElems]
      rw [ihv]
      simp only []
      rw [skipWs_allWs w1 _ h1, skipWs_head ',' _ (by decide)]
      simp only [if_neg (show (',' : Char) ≠ ']' by decide), if_true]
      rw [skipWs_allWs w2 _ h2]
      rw [e] at ihl ⊢
      simp only [List.cons_append] at ihl ⊢
      rw [skipWs_head c _ hc.1, ihl]; simp
theorem pMembers_txt : ∀ {ps : List (CpStr × J)} {t : Str}, Membs ps t → ∀ (f : Nat) (rest : Str)
    (acc : List (CpStr × J)), t.length ≤ f → pMembers f (t ++ rest) acc = .ok (.obj (ps.foldl dsetp acc)) rest
  | _, _, .last (k := k) (ek := ek) (v := v) (s := s) w1 w2 w3 h1 h2 h3 hk hn hv, f, rest, acc, hf => by
    cases f with
    | zero => simp at hf
    | succ f =>
      have hs : s.length ≤ f := by simp only [List.length_append, List.length_cons] at hf; omega
      have ihv := pValue_txt hv f (w3 ++ '}' :: rest) hs (sepOK_ws' w3 _ h3 (sepOK_cons '}' rest (by decide)))
      obtain ⟨c, r, e, hc⟩ := Txt_head hv
      simp only [List.append_assoc, List.cons_append, List.nil_append, pMembers]
      rw [scanStr_enc hk [] _ hn]
      simp only [List.reverse_nil, List.nil_append]
      rw [skipWs_allWs w1 _ h1, skipWs_head ':' _ (by decide)]
      simp only []
      rw [skipWs_allWs w2 _ h2]
      rw [e] at ihv ⊢
      simp only [List.cons_append] at ihv ⊢
      rw [skipWs_head c _ hc.1, ihv]
      simp only []
      rw [skipWs_allWs w3 _ h3, skipWs_head '}' _ (by decide)]
      simp [dsetp]
  | _, _, .more (k := k) (ek := ek) (v := v) (s := s) (ps := ps) (t := t) w1 w2 w3 w4 h1 h2 h3 h4 hk hn hv hm,
      f, rest, acc, hf => by
    cases f with
    | zero => simp at hf
    | succ f =>
      have hs : s.length ≤ f := by simp only [List.length_append, List.length_cons] at hf; omega
      have ht : t.length ≤ f := by simp only [List.length_append, List.length_cons] at hf; omega
      have ihv := pValue_txt hv f (w3 ++ ',' :: (w4 ++ (t ++ rest))) hs
        (sepOK_ws' w3 _ h3 (sepOK_cons ',' _ (by decide)))
      have ihm := pMembers_txt hm f rest (dset acc k v) ht
      obtain ⟨c, r, e, hc⟩ := Txt_head hv
      obtain ⟨r', e'⟩ := Membs_head hm
      simp only [List.append_assoc, List.cons_append, pMembers]
      rw [scanStr_enc hk [] _ hn]
      simp only [List.reverse_nil, List.nil_append]
      rw [skipWs_allWs w1 _ h1, skipWs_head ':' _ (by decide)]
      simp only []
      rw [skipWs_allWs w2 _ h2]
      rw [e] at ihv ⊢
      simp only [List.cons_append] at ihv ⊢
      rw [skipWs_head c _ hc.1, ihv]
      simp only []
      rw [skipWs_allWs w3 _ h3, skipWs_head ',' _ (by decide)]
      simp only [if_neg (show (',' : Char) ≠ '}' by decide), if_true]
      rw [skipWs_allWs w4 _ h4]
      rw [e'] at ihm ⊢
      simp only [List.cons_append] at ihm ⊢
      rw [skipWs_head '"' _ (by decide), ihm]
      simp [dsetp]
end

end Poor.Json

namespace Poor.Json
open Poor

theorem Txt_head_ascii {v : J} {s : Str} (h : Txt v s) : ∃ c r, s = c :: r ∧ c.toNat < 128 := by
  cases h with
  | null => exact ⟨_, _, rfl, by decide⟩
  | tru => exact ⟨_, _, rfl, by decide⟩
  | fls => exact ⟨_, _, rfl, by decide⟩
  | int i _ =>
    obtain ⟨c, r, e, _, hc, _⟩ := dumpInt_head i
    refine ⟨c, r, e, ?_⟩
    rcases hc with rfl | hd
    · decide
    · exact digit_ascii c hd
  | negZero => exact ⟨_, _, rfl, by decide⟩
  | str _ _ => exact ⟨_, _, rfl, by decide⟩
  | arrNil _ _ => exact ⟨_, _, rfl, by decide⟩
  | arr _ _ _ => exact ⟨_, _, rfl, by decide⟩
  | objNil _ _ => exact ⟨_, _, rfl, by decide⟩
  | obj _ _ _ => exact ⟨_, _, rfl, by decide⟩

theorem skipWs_all (w : Str) (hw : AllWs w) : skipWs w = [] := by
  have := skipWs_allWs w [] hw
  rw [List.append_nil] at this
  rw [this]; rfl

/-- **`json.loads` reads every spelling of a value**: white space around and between the tokens, any escape
    style inside strings, repeated keys - the value is the one the text denotes -/
theorem loads_txt {v : J} {s : Str} (h : Txt v s) (w1 w2 : Str) (h1 : AllWs w1) (h2 : AllWs w2) :
    loads (w1 ++ (s ++ w2)) = some v := by
  unfold loads
  obtain ⟨c, r, e, hc⟩ := Txt_head_ascii h
  obtain ⟨c', r', e', hc'⟩ := Txt_head h
  have hbom : (w1 ++ (s ++ w2)).head? ≠ some (Char.ofNat 0xFEFF) := by
    cases w1 with
    | nil =>
      rw [e]
      simp only [List.nil_append, List.cons_append, List.head?_cons, ne_eq, Option.some.injEq]
      intro hb; rw [hb] at hc; revert hc; decide
    | cons a w =>
      simp only [List.cons_append, List.head?_cons, ne_eq, Option.some.injEq]
      intro hb
      have := h1 a List.mem_cons_self
      rw [hb] at this; revert this; decide
  rw [if_neg hbom, skipWs_allWs w1 _ h1]
  have hs : skipWs (s ++ w2) = s ++ w2 := by
    rw [e']; exact skipWs_head c' _ hc'.1
  rw [hs]
  have hsep : SepOK w2 := by
    have := sepOK_ws' w2 [] h2 (by intro c r hcr; cases hcr)
    rwa [List.append_nil] at this
  have := pValue_txt h ((w1 ++ (s ++ w2)).length + 1) w2 (by simp only [List.length_append]; omega) hsep
  rw [this]
  simp only [skipWs_all w2 h2, if_true]

end Poor.Json

namespace Poor.Json
open Poor

theorem CpEnc_escChar (c : Nat) (hc : c < 0x110000) : CpEnc c (escChar c) := by
  unfold escChar
  split; · rename_i h; subst h; exact CpEnc.short '"' 34 (by decide) (by decide)
  split; · rename_i h; subst h; exact CpEnc.short '\\' 92 (by decide) (by decide)
  split; · rename_i h; subst h; exact CpEnc.short 'n' 10 (by decide) (by decide)
  split; · rename_i h; subst h; exact CpEnc.short 'r' 13 (by decide) (by decide)
  split; · rename_i h; subst h; exact CpEnc.short 't' 9 (by decide) (by decide)
  split; · rename_i h; subst h; exact CpEnc.short 'f' 12 (by decide) (by decide)
  split; · rename_i h; subst h; exact CpEnc.short 'b' 8 (by decide) (by decide)
  split
  · rename_i h1 h2 h3 h4 h5 h6 h7 h8
    have hn := ofNat_toNat_small c h8.2
    have := CpEnc.raw (Char.ofNat c) (by rw [hn]; exact h8.1)
      (by intro h; rw [h] at hn; simp at hn; omega) (by intro h; rw [h] at hn; simp at hn; omega)
    rwa [hn] at this
  split
  · rename_i h9
    have := hex4?_hex4 c h9 []
    simp only [hex4, List.append_nil] at this
    exact CpEnc.u4 c _ _ _ _ this
  · rename_i h9
    have hj : joinSur (0xd800 + (c - 65536) / 1024 % 1024) (0xdc00 + (c - 65536) % 1024) = c := by
      unfold joinSur; omega
    have h1 := hex4?_hex4 (0xd800 + (c - 65536) / 1024 % 1024) (by omega) []
    have h2 := hex4?_hex4 (0xdc00 + (c - 65536) % 1024) (by omega) []
    simp only [hex4, List.append_nil] at h1 h2
    have := CpEnc.pair _ _ _ _ _ _ _ _ _ _ (by simp [isHigh]; omega) (by simp [isLow]; omega) h1 h2
    rw [hj] at this
    exact this

theorem StrEnc_flatMap (s : CpStr) (h : ∀ c ∈ s, c < 0x110000) : StrEnc s (s.flatMap escChar) := by
  induction s with
  | nil => exact StrEnc.nil
  | cons c s ih =>
    rw [List.flatMap_cons]
    exact StrEnc.cons (CpEnc_escChar c (h c List.mem_cons_self)) (ih (fun x hx => h x (List.mem_cons_of_mem _ hx)))

theorem foldl_dsetp_fresh (ps acc : List (CpStr × J)) (h : ((acc ++ ps).map Prod.fst).Nodup) :
    ps.foldl dsetp acc = acc ++ ps := by
  induction ps generalizing acc with
  | nil => simp
  | cons kv ps ih =>
    obtain ⟨k, v⟩ := kv
    have hk : k ∉ acc.map Prod.fst := by
      simp only [List.map_append, List.map_cons] at h
      have := (List.nodup_append.mp h).2.2
      intro hmem
      exact this k hmem k List.mem_cons_self rfl
    simp only [List.foldl_cons, dsetp]
    rw [dset_fresh acc k v hk, ih (acc ++ [(k, v)]) (by simpa using h)]
    simp

/-- **what `json.dumps` writes is one of the spellings** - so `loads_dump` is an instance of `loads_txt` -/
theorem Txt_dump (v : J) : JOk v → Txt v (dump v) := by
  refine J.rec
    (motive_1 := fun v => JOk v → Txt v (dump v))
    (motive_2 := fun l => l ≠ [] → JOks l → Elems l (dumpElems l))
    (motive_3 := fun l => l ≠ [] → MOk l → Membs l (dumpPairs l))
    (motive_4 := fun kv => JOk kv.2 → Txt kv.2 (dump kv.2))
    ?null ?bool ?int ?float ?str ?arr ?obj ?nil2 ?cons2 ?nil3 ?cons3 ?pair v
  case null => intro _; exact Txt.null
  case bool => intro b _; cases b; exact Txt.fls; exact Txt.tru
  case int => intro i h; simp only [dump]; exact Txt.int i h
  case float => intro h; exact absurd h (by simp [JOk])
  case str =>
    intro s h
    simp only [dump, dumpStr]
    exact Txt.str (StrEnc_flatMap s h.1) h.2
  case arr =>
    intro l ih h
    cases l with
    | nil => exact Txt.arrNil [] (by intro c hc; cases hc)
    | cons x xs =>
      have := Txt.arr [] (by intro c hc; cases hc) (ih (by simp) h)
      simpa [dump, dumpElems] using this
  case obj =>
    intro l ih h
    cases l with
    | nil => exact Txt.objNil [] (by intro c hc; cases hc)
    | cons kv r =>
      obtain ⟨k, w⟩ := kv
      have := Txt.obj [] (by intro c hc; cases hc) (ih (by simp) h.1)
      rw [foldl_dsetp_fresh _ [] (by simpa using h.2)] at this
      simpa [dump, dumpPairs] using this
  case nil2 => intro h; exact absurd rfl h
  case cons2 =>
    intro x xs ihx ihxs _ h
    cases xs with
    | nil =>
      have := Elems.last [] (by intro c hc; cases hc) (ihx h.1)
      simpa [dumpElems, dumpTail] using this
    | cons x' xs' =>
      have := Elems.more [] [' '] (by intro c hc; cases hc) (by intro c hc; simp at hc; rw [hc]; decide) (ihx h.1)
        (ihxs (by simp) h.2)
      simpa [dumpElems, dumpTail] using this
  case nil3 => intro h; exact absurd rfl h
  case cons3 =>
    intro kv r ihkv ihr _ h
    obtain ⟨k, w⟩ := kv
    have hk := StrEnc_flatMap k h.1.1
    cases r with
    | nil =>
      have := Membs.last [] [' '] [] (by intro c hc; cases hc) (by intro c hc; simp at hc; rw [hc]; decide)
        (by intro c hc; cases hc) hk h.1.2 (ihkv h.2.1)
      simpa [dumpPairs, dumpMembers, dumpStr] using this
    | cons kv' r' =>
      obtain ⟨k', w'⟩ := kv'
      have := Membs.more [] [' '] [] [' '] (by intro c hc; cases hc) (by intro c hc; simp at hc; rw [hc]; decide)
        (by intro c hc; cases hc) (by intro c hc; simp at hc; rw [hc]; decide) hk h.1.2 (ihkv h.2.1)
        (ihr (by simp) h.2.2)
      simpa [dumpPairs, dumpMembers, dumpStr] using this
  case pair => intro k w ih; exact ih

/-- non-vacuity with a text `json.dumps` would not write: `[ 1 ,"é\/" ]` is a spelling of `[1, "é/"]` -/
example : Txt (.arr [.int 1, .str [0xE9, 0x2F]])
    ("[ 1 ,\"\\u00E9\\/\" ]".toList) := by
  have hs : StrEnc [0xE9, 0x2F] ['\\', 'u', '0', '0', 'E', '9', '\\', '/'] :=
    StrEnc.cons (CpEnc.u4 0xE9 '0' '0' 'E' '9' (by decide)) (StrEnc.cons (CpEnc.short '/' 0x2F (by decide) (by decide)) StrEnc.nil)
  have h1 : Txt (.int 1) ['1'] := by
    have := Txt.int 1 (by decide)
    have e : dumpInt 1 = ['1'] := by decide
    rwa [e] at this
  have := Txt.arr [' '] (by intro c hc; simp at hc; rw [hc]; decide)
    (Elems.more [' '] [] (by intro c hc; simp at hc; rw [hc]; decide) (by intro c hc; cases hc) h1
      (Elems.last [' '] (by intro c hc; simp at hc; rw [hc]; decide) (Txt.str hs (by simp [NoPair, isHigh]))))
  exact this

end Poor.Json
