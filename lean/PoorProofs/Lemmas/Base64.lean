import PoorModel.Base64
/-
C13: base64 as the session cookie uses it - `b64decode(b64encode(x)) = x` for every byte string
(the C decoder loop of CPython, non-strict mode).
-/
namespace Poor.Base64
open Poor

theorem decChar_encChar : ∀ i, i < 64 → decChar (encChar i) = some i := by decide +kernel

theorem encChar_ne_pad : ∀ i, i < 64 → encChar i ≠ '=' := by decide +kernel

theorem ofNat_toNat (a : UInt8) : UInt8.ofNat a.toNat = a := by
  simp

/-- one alphabet character in state `s` -/
theorem step_char (s : DSt) (i : Nat) (hi : i < 64) (rest : Str) :
    decodeFrom s (encChar i :: rest) =
      (if s.quad = 0 then decodeFrom { s with quad := 1, left := i, pads := 0 } rest
       else if s.quad = 1 then
         decodeFrom { quad := 2, left := i % 16, pads := 0, out := s.out ++ [UInt8.ofNat (s.left * 4 + i / 16)] } rest
       else if s.quad = 2 then
         decodeFrom { quad := 3, left := i % 4, pads := 0, out := s.out ++ [UInt8.ofNat (s.left * 16 + i / 4)] } rest
       else decodeFrom { quad := 0, left := 0, pads := 0, out := s.out ++ [UInt8.ofNat (s.left * 64 + i)] } rest) := by
  rw [decodeFrom]
  rw [if_neg (encChar_ne_pad i hi), decChar_encChar i hi]

/-- a full quad decodes to its three bytes -/
theorem quad (o : Bytes) (p : Nat) (a b c : UInt8) (rest : Str) :
    decodeFrom { quad := 0, left := 0, pads := p, out := o }
      (encChar (a.toNat / 4) :: encChar (a.toNat % 4 * 16 + b.toNat / 16) ::
        encChar (b.toNat % 16 * 4 + c.toNat / 64) :: encChar (c.toNat % 64) :: rest)
    = decodeFrom { quad := 0, left := 0, pads := 0, out := o ++ [a, b, c] } rest := by
  have ha := a.toNat_lt; have hb := b.toNat_lt; have hc := c.toNat_lt
  rw [step_char _ _ (by omega)]
  simp only [if_true]
  rw [step_char _ _ (by omega)]
  simp only [show (1 : Nat) ≠ 0 by decide, if_false, if_true]
  rw [step_char _ _ (by omega)]
  simp only [show (2 : Nat) ≠ 0 by decide, show (2 : Nat) ≠ 1 by decide, if_false, if_true]
  rw [step_char _ _ (by omega)]
  simp only [show (3 : Nat) ≠ 0 by decide, show (3 : Nat) ≠ 1 by decide, show (3 : Nat) ≠ 2 by decide, if_false]
  have e1 : a.toNat / 4 * 4 + (a.toNat % 4 * 16 + b.toNat / 16) / 16 = a.toNat := by omega
  have e2 : (a.toNat % 4 * 16 + b.toNat / 16) % 16 * 16 + (b.toNat % 16 * 4 + c.toNat / 64) / 4 = b.toNat := by omega
  have e3 : (b.toNat % 16 * 4 + c.toNat / 64) % 4 * 64 + c.toNat % 64 = c.toNat := by omega
  rw [e1, e2, e3, ofNat_toNat, ofNat_toNat, ofNat_toNat]
  simp [List.append_assoc]

/-- **base64 round trip**: decoding what `b64encode` produced gives back the bytes, from any quad boundary -/
theorem decodeFrom_encode (x : Bytes) : ∀ (o : Bytes) (p : Nat),
    decodeFrom { quad := 0, left := 0, pads := p, out := o } (encode x) = some (o ++ x) := by
  induction x using encode.induct with
  | case1 => intro o p; simp [encode, decodeFrom]
  | case2 a =>
    intro o p
    have ha := a.toNat_lt
    rw [encode, step_char _ _ (by omega)]
    simp only [if_true]
    rw [step_char _ _ (by omega)]
    simp only [show (1 : Nat) ≠ 0 by decide, if_false, if_true]
    have e1 : a.toNat / 4 * 4 + (a.toNat % 4 * 16) / 16 = a.toNat := by omega
    rw [e1, ofNat_toNat]
    -- two pad characters end the input
    rw [decodeFrom]
    simp only [if_true]
    rw [decodeFrom]
    simp
  | case3 a b =>
    intro o p
    have ha := a.toNat_lt; have hb := b.toNat_lt
    rw [encode, step_char _ _ (by omega)]
    simp only [if_true]
    rw [step_char _ _ (by omega)]
    simp only [show (1 : Nat) ≠ 0 by decide, if_false, if_true]
    rw [step_char _ _ (by omega)]
    simp only [show (2 : Nat) ≠ 0 by decide, show (2 : Nat) ≠ 1 by decide, if_false, if_true]
    have e1 : a.toNat / 4 * 4 + (a.toNat % 4 * 16 + b.toNat / 16) / 16 = a.toNat := by omega
    have e2 : (a.toNat % 4 * 16 + b.toNat / 16) % 16 * 16 + (b.toNat % 16 * 4) / 4 = b.toNat := by omega
    rw [e1, e2, ofNat_toNat, ofNat_toNat]
    rw [decodeFrom]
    simp
  | case4 a b c rest ih =>
    intro o p
    rw [encode, quad, ih]
    simp

theorem decode_encode (x : Bytes) : decode (encode x) = some x := by
  unfold decode
  have := decodeFrom_encode x [] 0
  simpa using this

end Poor.Base64
