import PoorModel.Range
/- helper lemmas for C06/C07 -/
namespace Poor.Range
open Poor

theorem take_drop_append (c r : List α) (a b : Nat) :
    ((c ++ r).take b).drop a = ((c.take b).drop a) ++ ((r.take (b - c.length)).drop (a - c.length)) := by
  rw [List.take_append, List.drop_append]
  simp [List.length_take]
  by_cases h : b ≤ c.length
  · have : b - c.length = 0 := by omega
    simp [this]
  · have h1 : min b c.length = c.length := by omega
    simp [h1]

theorem ite_sub (pos start : Nat) : (if pos < start then start - pos else 0) = start - pos := by
  split <;> omega

/-- the chunk skipper yields exactly the slice, for every chunking (incl. empty chunks) -/
theorem rangeGen_some (start l : Nat) (cs : List Bytes) (pos : Nat) :
    (rangeGen start (some l) pos cs).flatten =
      ((cs.flatten).take (l + 1 - pos)).drop (start - pos) := by
  induction cs generalizing pos with
  | nil => simp [rangeGen]
  | cons c cs ih =>
    simp only [rangeGen, List.flatten_cons, ite_sub, slice]
    rw [take_drop_append]
    split
    · rename_i h
      rw [ih]
      have : (c.take (l + 1 - pos)).drop (start - pos) = [] := by
        apply List.drop_eq_nil_of_le; simp [List.length_take]; omega
      rw [this]
      have e1 : l + 1 - (pos + c.length) = l + 1 - pos - c.length := by omega
      have e2 : start - (pos + c.length) = start - pos - c.length := by omega
      simp [e1, e2]
    · rename_i h
      split
      · rename_i h2
        have : l + 1 - pos - c.length = 0 := by omega
        simp [this]
      · rename_i h2
        have e1 : l + 1 - (pos + c.length) = l + 1 - pos - c.length := by omega
        have e2 : start - (pos + c.length) = start - pos - c.length := by omega
        have e3 : c.take (l + 1 - pos) = c := List.take_of_length_le (by omega)
        have e4 : c.take c.length = c := List.take_length
        simp only [List.flatten_cons, ih, e1, e2, e3, e4]

theorem rangeGen_none (start : Nat) (cs : List Bytes) (pos : Nat) :
    (rangeGen start none pos cs).flatten = (cs.flatten).drop (start - pos) := by
  induction cs generalizing pos with
  | nil => simp [rangeGen]
  | cons c cs ih =>
    simp only [rangeGen, List.flatten_cons, ite_sub, slice]
    split
    · rename_i h
      rw [ih, List.drop_append]
      have : c.drop (start - pos) = [] := List.drop_eq_nil_of_le (by omega)
      have e2 : start - (pos + c.length) = start - pos - c.length := by omega
      simp [this, e2]
    · rename_i h
      have e2 : start - (pos + c.length) = 0 := by omega
      have e4 : c.take c.length = c := List.take_length
      simp only [List.flatten_cons, ih, e2, e4, List.drop_zero]
      rw [List.drop_append]
      have : start - pos - c.length = 0 := by omega
      simp [this]

end Poor.Range
