import PoorModel.Date
/-
C18, HTTP dates: CPython's calendar arithmetic (`_ord2ymd`, `_ymd2ord`) are inverse, dates are valid,
the canonical rendering parses back.
-/
namespace Poor.Date

theorem monthDay_spec : ∀ (leap : Bool) (n : Nat), n < 366 → (n < 365 ∨ leap = true) →
    1 ≤ (monthDay leap n).1 ∧ (monthDay leap n).1 ≤ 12 ∧ 1 ≤ (monthDay leap n).2 ∧
    (monthDay leap n).2 ≤ daysInMonth leap (monthDay leap n).1 ∧
    daysBeforeMonth leap (monthDay leap n).1 + (monthDay leap n).2 = n + 1 := by
  decide +kernel

theorem isLeap_iff (y : Nat) : isLeap y = true ↔ y % 4 = 0 ∧ (y % 100 ≠ 0 ∨ y % 400 = 0) := by
  simp [isLeap]

/-- the four-level decomposition of a 0-based day number -/
structure Decomp (n n400 n100 n4 n1 r : Nat) : Prop where
  e : n = 146097 * n400 + 36524 * n100 + 1461 * n4 + 365 * n1 + r
  b100 : 36524 * n100 + 1461 * n4 + 365 * n1 + r < 146097
  b4 : 1461 * n4 + 365 * n1 + r < 36524
  b1 : 365 * n1 + r < 1461
  br : r < 365

theorem decomp (n : Nat) :
    Decomp n (n / 146097) (n % 146097 / 36524) (n % 146097 % 36524 / 1461) (n % 146097 % 36524 % 1461 / 365)
      (n % 146097 % 36524 % 1461 % 365) := by
  constructor <;> omega

/-- days before the year that follows `Y = 400 a + 100 b + 4 c + d` full years -/
theorem dby_succ (a b c d : Nat) (hb : b ≤ 3) (hc : c ≤ 24) (hd : d ≤ 3) :
    daysBeforeYear (400 * a + 100 * b + 4 * c + d + 1) = 146097 * a + 36524 * b + 1461 * c + 365 * d := by
  unfold daysBeforeYear
  omega

theorem leap_succ (a b c d : Nat) (hb : b ≤ 3) (hc : c ≤ 24) (hd : d ≤ 3) :
    isLeap (400 * a + 100 * b + 4 * c + d + 1) = (d == 3 && (c != 24 || b == 3)) := by
  rw [Bool.eq_iff_iff, isLeap_iff]
  simp only [Bool.and_eq_true, Bool.or_eq_true, beq_iff_eq, bne_iff_ne, ne_eq]
  omega


/-- `_ord2ymd` in terms of the decomposition -/
theorem ord2ymd_eq (ord : Nat) :
    ord2ymd ord =
      (let n := ord - 1
       let a := n / 146097
       let b := n % 146097 / 36524
       let c := n % 146097 % 36524 / 1461
       let d := n % 146097 % 36524 % 1461 / 365
       let r := n % 146097 % 36524 % 1461 % 365
       if d == 4 || b == 4 then (a * 400 + b * 100 + c * 4 + d + 1 - 1, 12, 31)
       else (a * 400 + b * 100 + c * 4 + d + 1, (monthDay (d == 3 && (c != 24 || b == 3)) r).1,
             (monthDay (d == 3 && (c != 24 || b == 3)) r).2)) := rfl

/-- **calendar round trip**: `_ymd2ord(*_ord2ymd(n)) = n` for every ordinal -/
theorem ord_roundtrip (ord : Nat) (h : 1 ≤ ord) :
    ymd2ord (ord2ymd ord).1 (ord2ymd ord).2.1 (ord2ymd ord).2.2 = ord := by
  rw [ord2ymd_eq]
  simp only
  have hd := decomp (ord - 1)
  generalize (ord - 1) / 146097 = a at hd ⊢
  generalize (ord - 1) % 146097 / 36524 = b at hd ⊢
  generalize (ord - 1) % 146097 % 36524 / 1461 = c at hd ⊢
  generalize (ord - 1) % 146097 % 36524 % 1461 / 365 = d at hd ⊢
  generalize (ord - 1) % 146097 % 36524 % 1461 % 365 = r at hd ⊢
  obtain ⟨he, h100, h4, h1, hr⟩ := hd
  by_cases hsp : (d == 4 || b == 4) = true
  · rw [if_pos hsp]
    simp only [Bool.or_eq_true, beq_iff_eq] at hsp
    simp only [ymd2ord]
    rcases hsp with hd4 | hb4
    · subst hd4
      have hr0 : r = 0 := by omega
      have hc : c ≤ 23 := by omega
      have hb : b ≤ 3 := by omega
      subst hr0
      have hy : a * 400 + b * 100 + c * 4 + 4 + 1 - 1 = 400 * a + 100 * b + 4 * c + 3 + 1 := by omega
      rw [hy, dby_succ a b c 3 hb (by omega) (by omega), leap_succ a b c 3 hb (by omega) (by omega)]
      have hl : ((3 : Nat) == 3 && (c != 24 || b == 3)) = true := by
        have : c ≠ 24 := by omega
        simp [this]
      rw [hl]
      simp [daysBeforeMonth]
      omega
    · subst hb4
      have hc : c = 0 := by omega
      have hd0 : d = 0 := by omega
      have hr0 : r = 0 := by omega
      subst hc hd0 hr0
      have hy : a * 400 + 4 * 100 + 0 * 4 + 0 + 1 - 1 = 400 * a + 100 * 3 + 4 * 24 + 3 + 1 := by omega
      rw [hy, dby_succ a 3 24 3 (by omega) (by omega) (by omega), leap_succ a 3 24 3 (by omega) (by omega) (by omega)]
      simp [daysBeforeMonth]
      omega
  · rw [if_neg hsp]
    simp only [Bool.or_eq_true, beq_iff_eq, not_or] at hsp
    have hb : b ≤ 3 := by omega
    have hc : c ≤ 24 := by omega
    have hd3 : d ≤ 3 := by omega
    have hy : a * 400 + b * 100 + c * 4 + d + 1 = 400 * a + 100 * b + 4 * c + d + 1 := by omega
    simp only [ymd2ord]
    rw [hy, dby_succ a b c d hb hc hd3, leap_succ a b c d hb hc hd3]
    have := (monthDay_spec (d == 3 && (c != 24 || b == 3)) r (by omega) (Or.inl hr)).2.2.2.2
    omega


/-- what `_ord2ymd` returns is a date of the calendar -/
theorem ord2ymd_valid (ord : Nat) (h : 1 ≤ ord) :
    1 ≤ (ord2ymd ord).2.1 ∧ (ord2ymd ord).2.1 ≤ 12 ∧ 1 ≤ (ord2ymd ord).2.2 ∧
    (ord2ymd ord).2.2 ≤ daysInMonth (isLeap (ord2ymd ord).1) (ord2ymd ord).2.1 := by
  rw [ord2ymd_eq]
  simp only
  have hd := decomp (ord - 1)
  generalize (ord - 1) / 146097 = a at hd ⊢
  generalize (ord - 1) % 146097 / 36524 = b at hd ⊢
  generalize (ord - 1) % 146097 % 36524 / 1461 = c at hd ⊢
  generalize (ord - 1) % 146097 % 36524 % 1461 / 365 = d at hd ⊢
  generalize (ord - 1) % 146097 % 36524 % 1461 % 365 = r at hd ⊢
  obtain ⟨he, h100, h4, h1, hr⟩ := hd
  by_cases hsp : (d == 4 || b == 4) = true
  · rw [if_pos hsp]
    simp [daysInMonth]
  · rw [if_neg hsp]
    simp only [Bool.or_eq_true, beq_iff_eq, not_or] at hsp
    have hb : b ≤ 3 := by omega
    have hc : c ≤ 24 := by omega
    have hd3 : d ≤ 3 := by omega
    have hy : a * 400 + b * 100 + c * 4 + d + 1 = 400 * a + 100 * b + 4 * c + d + 1 := by omega
    simp only
    rw [hy, leap_succ a b c d hb hc hd3]
    have := monthDay_spec (d == 3 && (c != 24 || b == 3)) r (by omega) (Or.inl hr)
    exact ⟨this.1, this.2.1, this.2.2.1, this.2.2.2.1⟩

/-- ordinals of 1970-01-01 .. 9999-12-31 have four-digit years from 1970 on -/
theorem ord2ymd_year (ord : Nat) (h1 : EPOCH_ORD ≤ ord) (h2 : ord ≤ 3652059) :
    1970 ≤ (ord2ymd ord).1 ∧ (ord2ymd ord).1 ≤ 9999 := by
  rw [ord2ymd_eq]
  simp only
  have hd := decomp (ord - 1)
  generalize (ord - 1) / 146097 = a at hd ⊢
  generalize (ord - 1) % 146097 / 36524 = b at hd ⊢
  generalize (ord - 1) % 146097 % 36524 / 1461 = c at hd ⊢
  generalize (ord - 1) % 146097 % 36524 % 1461 / 365 = d at hd ⊢
  generalize (ord - 1) % 146097 % 36524 % 1461 % 365 = r at hd ⊢
  obtain ⟨he, h100, h4, h1', hr⟩ := hd
  unfold EPOCH_ORD at h1
  have ha : 4 ≤ a ∧ a ≤ 24 := by omega
  have hb : b ≤ 4 := by omega
  have hc : c ≤ 24 := by omega
  have hd : d ≤ 4 := by omega
  have hb4 : b = 4 → c = 0 ∧ d = 0 := by omega
  have hsmall : 100 * b + 4 * c + d ≤ 400 := by
    by_cases h : b = 4
    · have := hb4 h; omega
    · omega
  -- the last year of the range
  have hhi : a = 24 → 100 * b + 4 * c + d ≤ 398 := by
    intro h24
    subst h24
    have : b ≤ 3 := by omega
    by_cases h3 : b = 3
    · subst h3
      by_cases h24 : c = 24
      · subst h24; omega
      · omega
    · omega
  -- the first year of the range
  have hlo : a = 4 → 369 ≤ 100 * b + 4 * c + d ∧ (d = 4 ∨ b = 4 → 370 ≤ 100 * b + 4 * c + d) := by
    intro h4'
    subst h4'
    have : 3 ≤ b := by omega
    by_cases h3 : b = 3
    · subst h3
      have : 17 ≤ c := by omega
      by_cases h17 : c = 17
      · subst h17; omega
      · omega
    · have : b = 4 := by omega
      omega
  split
  · rename_i hsp
    simp only [Bool.or_eq_true, beq_iff_eq] at hsp
    simp only
    by_cases h4 : a = 4
    · have := hlo h4; omega
    · by_cases h24 : a = 24
      · have := hhi h24; omega
      · omega
  · simp only
    by_cases h4 : a = 4
    · have := hlo h4; omega
    · by_cases h24 : a = 24
      · have := hhi h24; omega
      · omega


/-! ### digits and names -/

theorem num2_pad2 : ∀ n, n < 100 → num2 (digit (n / 10)) (digit n) = some n := by
  decide +kernel

theorem digit_congr (a b : Nat) (h : a % 10 = b % 10) : digit a = digit b := by
  unfold digit; rw [h]

theorem num4_pad4 (y : Nat) (h : y < 10000) :
    num4 (digit (y / 1000)) (digit (y / 100)) (digit (y / 10)) (digit y) = some y := by
  have e1 : digit (y / 1000) = digit (y / 100 / 10) := digit_congr _ _ (by omega)
  have e2 : digit (y / 10) = digit (y % 100 / 10) := digit_congr _ _ (by omega)
  have e3 : digit y = digit (y % 100) := digit_congr _ _ (by omega)
  unfold num4
  rw [e1, num2_pad2 (y / 100) (by omega), e2, e3, num2_pad2 (y % 100) (by omega)]
  simp only [Option.bind_eq_bind, Option.bind_some, Option.pure_def, Option.some.injEq]
  omega

theorem dayName_spec : ∀ w, w < 7 → (dayNames.getD w []).length = 3 ∧ nameIdx dayNames (dayNames.getD w []) = some w := by
  decide +kernel

theorem monthName_spec : ∀ m, m < 12 →
    (monthNames.getD m []).length = 3 ∧ nameIdx monthNames (monthNames.getD m []) = some m := by
  decide +kernel

theorem len3 {α} (l : List α) (h : l.length = 3) : ∃ a b c, l = [a, b, c] := by
  match l, h with
  | [a, b, c], _ => exact ⟨a, b, c, rfl⟩

/-- parsing a rendered civil time gives back its timestamp -/
theorem parse_render (c : Civil) (hw : c.wday < 7) (hm1 : 1 ≤ c.month) (hm : c.month ≤ 12)
    (hy1 : 1970 ≤ c.year) (hy : c.year ≤ 9999) (hd1 : 1 ≤ c.day)
    (hd : c.day ≤ daysInMonth (isLeap c.year) c.month) (hh : c.hour < 24) (hmi : c.minute < 60) (hs : c.second < 60) :
    httpToTime (render c) = .ok (timestampOf c.year c.month c.day c.hour c.minute c.second) := by
  obtain ⟨hwl, hwi⟩ := dayName_spec c.wday hw
  obtain ⟨hml, hmi'⟩ := monthName_spec (c.month - 1) (by omega)
  obtain ⟨w1, w2, w3, hwe⟩ := len3 _ hwl
  obtain ⟨m1, m2, m3, hme⟩ := len3 _ hml
  have hd31 : c.day < 100 := by
    have : daysInMonth (isLeap c.year) c.month ≤ 31 := by
      unfold daysInMonth; split <;> (try split) <;> omega
    omega
  have hmm : c.month - 1 + 1 = c.month := by omega
  unfold render
  rw [hwe] at hwi
  rw [hme] at hmi'
  rw [hwe, hme]
  simp only [pad2, pad4, List.cons_append, List.nil_append, httpToTime, List.append_nil]
  rw [hwi, hmi', num2_pad2 c.day hd31, num4_pad4 c.year (by omega), num2_pad2 c.hour (by omega),
    num2_pad2 c.minute (by omega), num2_pad2 c.second (by omega)]
  simp only [hmm]
  rw [if_neg (by omega), if_neg (by omega), if_neg (by omega)]



theorem wday_lt (ymd : Nat × Nat × Nat) (s ord : Nat) : (civilFrom ymd s ord).wday < 7 :=
  Nat.mod_lt _ (by decide)

theorem hms_lt (ymd : Nat × Nat × Nat) (s ord : Nat) (hs : s < 86400) :
    (civilFrom ymd s ord).hour < 24 ∧ (civilFrom ymd s ord).minute < 60 ∧ (civilFrom ymd s ord).second < 60 := by
  refine ⟨?_, ?_, ?_⟩
  · show s / 3600 < 24; omega
  · show s % 3600 / 60 < 60; omega
  · show s % 60 < 60; omega

/-- `parse_render` for a civil time built by `civilFrom` -/
theorem parse_render_from (ymd : Nat × Nat × Nat) (s ord : Nat)
    (hw : (civilFrom ymd s ord).wday < 7)
    (hv : 1 ≤ ymd.2.1 ∧ ymd.2.1 ≤ 12 ∧ 1 ≤ ymd.2.2 ∧ ymd.2.2 ≤ daysInMonth (isLeap ymd.1) ymd.2.1)
    (hy : 1970 ≤ ymd.1 ∧ ymd.1 ≤ 9999)
    (hms : (civilFrom ymd s ord).hour < 24 ∧ (civilFrom ymd s ord).minute < 60 ∧ (civilFrom ymd s ord).second < 60) :
    httpToTime (render (civilFrom ymd s ord)) = .ok (timestampOf ymd.1 ymd.2.1 ymd.2.2 (s / 3600) (s % 3600 / 60) (s % 60)) :=
  parse_render (civilFrom ymd s ord) hw hv.1 hv.2.1 hy.1 hy.2 hv.2.2.1 hv.2.2.2 hms.1 hms.2.1 hms.2.2


/-- the last second of year 9999, plus one -/
def T_MAX : Nat := 253402300800

theorem date_roundtrip (t : Nat) (h : t < T_MAX) : httpToTime (timeToHttp t) = .ok t := by
  unfold T_MAX at h
  have h1 := ord_roundtrip (t / 86400 + EPOCH_ORD) (by unfold EPOCH_ORD; omega)
  have hv := ord2ymd_valid (t / 86400 + EPOCH_ORD) (by unfold EPOCH_ORD; omega)
  have hy := ord2ymd_year (t / 86400 + EPOCH_ORD) (by omega) (by unfold EPOCH_ORD; omega)
  unfold timeToHttp civilOf
  generalize ord2ymd (t / 86400 + EPOCH_ORD) = ymd at h1 hv hy ⊢
  generalize hord : t / 86400 + EPOCH_ORD = ord at h1 ⊢
  have hms := hms_lt ymd (t % 86400) ord (Nat.mod_lt _ (by decide))
  rw [parse_render_from ymd (t % 86400) ord (wday_lt _ _ _) hv hy hms]
  unfold timestampOf
  rw [h1, ← hord]
  generalize EPOCH_ORD = e
  congr 1
  omega

theorem render_length (c : Civil) (hw : c.wday < 7) (hm1 : 1 ≤ c.month) (hm : c.month ≤ 12) :
    (render c).length = 29 := by
  have h1 := (dayName_spec c.wday hw).1
  have h2 := (monthName_spec (c.month - 1) (by omega)).1
  simp only [render, pad2, pad4, List.length_append, List.length_cons, List.length_nil, h1, h2]

theorem render_length_from (ymd : Nat × Nat × Nat) (s ord : Nat) (hm1 : 1 ≤ ymd.2.1) (hm : ymd.2.1 ≤ 12) :
    (render (civilFrom ymd s ord)).length = 29 :=
  render_length _ (wday_lt _ _ _) hm1 hm

theorem timeToHttp_length (t : Nat) (h : t < T_MAX) : (timeToHttp t).length = 29 := by
  unfold T_MAX at h
  have hv := ord2ymd_valid (t / 86400 + EPOCH_ORD) (by unfold EPOCH_ORD; omega)
  unfold timeToHttp civilOf
  generalize ord2ymd (t / 86400 + EPOCH_ORD) = ymd at hv ⊢
  generalize t / 86400 + EPOCH_ORD = ord
  exact render_length_from ymd (t % 86400) ord hv.1 hv.2.1

/-! ## the other direction: every calendar date, every accepted string -/

theorem div4_step (z : Nat) : (z + 1) / 4 = z / 4 + (if (z + 1) % 4 = 0 then 1 else 0) := by
  split <;> omega
theorem div100_step (z : Nat) : (z + 1) / 100 = z / 100 + (if (z + 1) % 100 = 0 then 1 else 0) := by
  split <;> omega
theorem div400_step (z : Nat) : (z + 1) / 400 = z / 400 + (if (z + 1) % 400 = 0 then 1 else 0) := by
  split <;> omega

theorem dby_step (y : Nat) (h : 1 ≤ y) :
    daysBeforeYear (y + 1) = daysBeforeYear y + 365 + (if y % 4 = 0 ∧ (y % 100 ≠ 0 ∨ y % 400 = 0) then 1 else 0) := by
  unfold daysBeforeYear
  have e : y + 1 - 1 = y := by omega
  rw [e]
  obtain ⟨z, rfl⟩ : ∃ z, y = z + 1 := ⟨y - 1, by omega⟩
  have e2 : z + 1 - 1 = z := by omega
  rw [e2, div4_step, div100_step, div400_step]
  have hle : z / 100 ≤ z / 4 := Nat.div_le_div_left (by decide) (by decide)
  have h400_100 : (z + 1) % 400 = 0 → (z + 1) % 100 = 0 := by omega
  have h100_4 : (z + 1) % 100 = 0 → (z + 1) % 4 = 0 := by omega
  generalize z / 4 = a at *
  generalize z / 100 = b at *
  generalize z / 400 = c at *
  by_cases h4 : (z + 1) % 4 = 0 <;> by_cases h100 : (z + 1) % 100 = 0 <;> by_cases h400 : (z + 1) % 400 = 0 <;>
    simp only [h4, h100, h400, if_true, if_false, true_and, false_and, not_true_eq_false, not_false_eq_true,
      or_true, or_false, false_or, true_or, ne_eq] <;> first | omega | (exfalso; omega)

theorem dby_mono (y y' : Nat) (h1 : 1 ≤ y) (h : y ≤ y') : daysBeforeYear y ≤ daysBeforeYear y' := by
  induction y' with
  | zero => omega
  | succ n ih =>
    by_cases hn : y = n + 1
    · subst hn; exact Nat.le_refl _
    · have := ih (by omega)
      have := dby_step n (by omega)
      omega

theorem dby_succ_leap (y : Nat) (h : 1 ≤ y) :
    daysBeforeYear (y + 1) = daysBeforeYear y + (if isLeap y = true then 366 else 365) := by
  rw [dby_step y h]
  by_cases hl : isLeap y = true
  · rw [if_pos hl, if_pos ((isLeap_iff y).1 hl)]
  · rw [if_neg hl, if_neg (fun h' => hl ((isLeap_iff y).2 h'))]

/-- a valid month/day lies within its year -/
theorem dbm_bound : ∀ (leap : Bool) (m : Nat), m < 13 → 1 ≤ m → ∀ d, d < 32 → 1 ≤ d → d ≤ daysInMonth leap m →
    daysBeforeMonth leap m + d ≤ (if leap = true then 366 else 365) := by
  decide +kernel

theorem dbm_next : ∀ (leap : Bool) (m : Nat), m < 12 → 1 ≤ m →
    daysBeforeMonth leap m + daysInMonth leap m = daysBeforeMonth leap (m + 1) := by
  decide +kernel

theorem dbm_mono : ∀ (leap : Bool) (m : Nat), m < 13 → 1 ≤ m → ∀ m', m' < 13 → m ≤ m' →
    daysBeforeMonth leap m ≤ daysBeforeMonth leap m' := by
  decide +kernel

theorem dim_le (leap : Bool) (m : Nat) : daysInMonth leap m ≤ 31 := by
  unfold daysInMonth; split <;> (try split) <;> omega

/-- a date of the calendar -/
structure ValidDate (y m d : Nat) : Prop where
  y1 : 1 ≤ y
  m1 : 1 ≤ m
  m12 : m ≤ 12
  d1 : 1 ≤ d
  dn : d ≤ daysInMonth (isLeap y) m

theorem ymd2ord_range (y m d : Nat) (h : ValidDate y m d) :
    daysBeforeYear y < ymd2ord y m d ∧ ymd2ord y m d ≤ daysBeforeYear (y + 1) := by
  have h31 := dim_le (isLeap y) m
  have hb := dbm_bound (isLeap y) m (by have := h.m12; omega) h.m1 d (by have := h.dn; omega) h.d1 h.dn
  rw [dby_succ_leap y h.y1]
  unfold ymd2ord
  have hd := h.d1
  generalize daysBeforeMonth (isLeap y) m = q at *
  generalize (if isLeap y = true then 366 else 365) = L at *
  omega

theorem ymd2ord_inj (y m d y' m' d' : Nat) (h : ValidDate y m d) (h' : ValidDate y' m' d')
    (he : ymd2ord y m d = ymd2ord y' m' d') : y = y' ∧ m = m' ∧ d = d' := by
  have r := ymd2ord_range y m d h
  have r' := ymd2ord_range y' m' d' h'
  have hy : y = y' := by
    rcases Nat.lt_trichotomy y y' with hlt | heq | hgt
    · have := dby_mono (y + 1) y' (by omega) hlt; omega
    · exact heq
    · have := dby_mono (y' + 1) y (by omega) hgt; omega
  subst hy
  unfold ymd2ord at he
  have hm : m = m' := by
    rcases Nat.lt_trichotomy m m' with hlt | heq | hgt
    · have h1 := dbm_next (isLeap y) m (by have := h'.m12; omega) h.m1
      have h2 := dbm_mono (isLeap y) (m + 1) (by have := h'.m12; omega) (by omega) m' (by have := h'.m12; omega) hlt
      have := h.dn; have := h'.d1; omega
    · exact heq
    · have h1 := dbm_next (isLeap y) m' (by have := h.m12; omega) h'.m1
      have h2 := dbm_mono (isLeap y) (m' + 1) (by have := h.m12; omega) (by omega) m (by have := h.m12; omega) hgt
      have := h'.dn; have := h.d1; omega
  subst hm
  exact ⟨rfl, rfl, by omega⟩

theorem ord2ymd_year_pos (ord : Nat) (h : 1 ≤ ord) : 1 ≤ (ord2ymd ord).1 := by
  rw [ord2ymd_eq]
  simp only
  have hd := decomp (ord - 1)
  generalize (ord - 1) / 146097 = a at hd ⊢
  generalize (ord - 1) % 146097 / 36524 = b at hd ⊢
  generalize (ord - 1) % 146097 % 36524 / 1461 = c at hd ⊢
  generalize (ord - 1) % 146097 % 36524 % 1461 / 365 = d at hd ⊢
  generalize (ord - 1) % 146097 % 36524 % 1461 % 365 = r at hd ⊢
  split
  · rename_i hsp
    simp only [Bool.or_eq_true, beq_iff_eq] at hsp
    simp only
    omega
  · simp only; omega

/-- **the other inverse**: `_ord2ymd(_ymd2ord(y, m, d)) = (y, m, d)` for every date of the calendar -/
theorem ymd_roundtrip (y m d : Nat) (h : ValidDate y m d) : ord2ymd (ymd2ord y m d) = (y, m, d) := by
  have hpos : 1 ≤ ymd2ord y m d := by have := (ymd2ord_range y m d h).1; omega
  have hr := ord_roundtrip (ymd2ord y m d) hpos
  have hv := ord2ymd_valid (ymd2ord y m d) hpos
  have hy := ord2ymd_year_pos (ymd2ord y m d) hpos
  generalize ord2ymd (ymd2ord y m d) = r at hr hv hy
  obtain ⟨y', m', d'⟩ := r
  have := ymd2ord_inj y' m' d' y m d ⟨hy, hv.1, hv.2.1, hv.2.2.1, hv.2.2.2⟩ h hr
  obtain ⟨rfl, rfl, rfl⟩ := this
  rfl


/-! ### parsing is sound: a string that parses spells the time it parses to -/

theorem digitVal_digit (c : Char) (n : Nat) (h : digitVal c = some n) : n < 10 ∧ c = digit n := by
  unfold digitVal at h
  split at h
  · rename_i hc
    cases h
    obtain ⟨h0, h9⟩ := hc
    have h0' : 48 ≤ c.toNat := h0
    have h9' : c.toNat ≤ 57 := h9
    refine ⟨by omega, ?_⟩
    unfold digit
    have : 48 + (c.toNat - 48) % 10 = c.toNat := by omega
    rw [this]
    exact (Char.ofNat_toNat c).symm
  · cases h

theorem num2_pad2_inv (a b : Char) (n : Nat) (h : num2 a b = some n) : n < 100 ∧ [a, b] = pad2 n := by
  unfold num2 at h
  cases ha : digitVal a with
  | none => simp [ha] at h
  | some x =>
    cases hb : digitVal b with
    | none => simp [ha, hb] at h
    | some y =>
      simp [ha, hb] at h
      obtain ⟨hx, rfl⟩ := digitVal_digit a x ha
      obtain ⟨hy, rfl⟩ := digitVal_digit b y hb
      subst h
      refine ⟨by omega, ?_⟩
      unfold pad2
      rw [digit_congr ((x * 10 + y) / 10) x (by omega), digit_congr (x * 10 + y) y (by omega)]

theorem num4_pad4_inv (a b c d : Char) (n : Nat) (h : num4 a b c d = some n) : n < 10000 ∧ [a, b, c, d] = pad4 n := by
  unfold num4 at h
  cases h1 : num2 a b with
  | none => simp [h1] at h
  | some x =>
    cases h2 : num2 c d with
    | none => simp [h1, h2] at h
    | some y =>
      simp [h1, h2] at h
      obtain ⟨hx, e1⟩ := num2_pad2_inv a b x h1
      obtain ⟨hy, e2⟩ := num2_pad2_inv c d y h2
      subst h
      refine ⟨by omega, ?_⟩
      unfold pad2 at e1 e2
      unfold pad4
      simp only [List.cons.injEq, and_true] at e1 e2
      obtain ⟨rfl, rfl⟩ := e1
      obtain ⟨rfl, rfl⟩ := e2
      rw [digit_congr ((x * 100 + y) / 1000) (x / 10) (by omega), digit_congr ((x * 100 + y) / 100) x (by omega),
        digit_congr ((x * 100 + y) / 10) (y / 10) (by omega), digit_congr (x * 100 + y) y (by omega)]

theorem nameIdx_getD (names : List Str) (s : Str) (i : Nat) (h : nameIdx names s = some i) :
    i < names.length ∧ names.getD i [] = s := by
  unfold nameIdx at h
  simp only at h
  split at h
  · rename_i hlt
    cases h
    refine ⟨hlt, ?_⟩
    have := List.findIdx_getElem (w := hlt)
    simp only [beq_iff_eq] at this
    simp only [List.getD_eq_getElem?_getD, List.getElem?_eq_getElem hlt, Option.getD_some]
    exact this
  · cases h


/-- the civil time of `t` with the day name replaced (the parser does not cross-check the day name) -/
def civilW (t w : Nat) : Civil :=
  ⟨(civilOf t).year, (civilOf t).month, (civilOf t).day, (civilOf t).hour, (civilOf t).minute, (civilOf t).second, w⟩

theorem civilFrom_eq (y m d s ord : Nat) :
    civilFrom (y, m, d) s ord = ⟨y, m, d, s / 3600, s % 3600 / 60, s % 60, (ord + 6) % 7⟩ := rfl

theorem civilW_eq (t w y m d : Nat) (h : ord2ymd (t / 86400 + EPOCH_ORD) = (y, m, d)) :
    civilW t w = ⟨y, m, d, t % 86400 / 3600, t % 86400 % 3600 / 60, t % 86400 % 60, w⟩ := by
  unfold civilW civilOf
  rw [h, civilFrom_eq]

theorem dby_1970 : daysBeforeYear 1970 = 719162 := by decide

/-- **parsing is sound**: a string that `http_to_time` (canonical shape) accepts is the rendering of
    the second it returns, except possibly for the day name, which the parser does not cross-check -/
theorem parse_sound (s : Str) (t : Nat) (h : httpToTime s = .ok t) :
    ∃ w, w < 7 ∧ s = render (civilW t w) := by
  unfold httpToTime at h
  split at h
  · rename_i w1 w2 w3 d1 d2 m1 m2 m3 y1 y2 y3 y4 h1 h2 n1 n2 s1 s2
    split at h
    · rename_i wi mi d y hh mm ss hw hm hd hy hh' hmm hss
      split at h
      · cases h
      · split at h
        · cases h
        · split at h
          · cases h
          · rename_i hs60 hy70 hbad
            simp only [PRes.ok.injEq] at h
            have hd0 : d ≠ 0 := fun e => hbad (Or.inl e)
            have hdn : d ≤ daysInMonth (isLeap y) (mi + 1) := by
              apply Classical.byContradiction; intro hc; exact hbad (Or.inr (Or.inl (by omega)))
            have hh24 : hh < 24 := by
              apply Classical.byContradiction; intro hc; exact hbad (Or.inr (Or.inr (Or.inl (by omega))))
            have hm60 : mm < 60 := by
              apply Classical.byContradiction; intro hc; exact hbad (Or.inr (Or.inr (Or.inr (by omega))))
            have hs60' : ss < 60 := by omega
            obtain ⟨hwl, hwe⟩ := nameIdx_getD dayNames _ wi hw
            obtain ⟨hml, hme⟩ := nameIdx_getD monthNames _ mi hm
            have hml' : mi < 12 := hml
            obtain ⟨_, hde⟩ := num2_pad2_inv d1 d2 d hd
            obtain ⟨_, hye⟩ := num4_pad4_inv y1 y2 y3 y4 y hy
            obtain ⟨_, hhe⟩ := num2_pad2_inv h1 h2 hh hh'
            obtain ⟨_, hne⟩ := num2_pad2_inv n1 n2 mm hmm
            obtain ⟨_, hse⟩ := num2_pad2_inv s1 s2 ss hss
            have hvalid : ValidDate y (mi + 1) d := ⟨by omega, by omega, by omega, by omega, hdn⟩
            have hrt := ymd_roundtrip y (mi + 1) d hvalid
            have hrange := (ymd2ord_range y (mi + 1) d hvalid).1
            have hmono := dby_mono 1970 y (by omega) (by omega)
            rw [dby_1970] at hmono
            -- the timestamp decomposes back into day number and second of the day
            have hday : t / 86400 + EPOCH_ORD = ymd2ord y (mi + 1) d := by
              rw [← h]; unfold timestampOf EPOCH_ORD
              generalize ymd2ord y (mi + 1) d = o at hrange ⊢
              omega
            have hsec : t % 86400 = hh * 3600 + mm * 60 + ss := by
              rw [← h]; unfold timestampOf
              generalize (ymd2ord y (mi + 1) d - EPOCH_ORD) = q
              omega
            refine ⟨wi, hwl, ?_⟩
            rw [civilW_eq t wi y (mi + 1) d (by rw [hday, hrt])]
            unfold render
            simp only [Nat.add_sub_cancel, hwe, hme, ← hde, ← hye]
            have e1 : pad2 (t % 86400 / 3600) = [h1, h2] := by rw [hhe, hsec]; congr 1; omega
            have e2 : pad2 (t % 86400 % 3600 / 60) = [n1, n2] := by rw [hne, hsec]; congr 1; omega
            have e3 : pad2 (t % 86400 % 60) = [s1, s2] := by rw [hse, hsec]; congr 1; omega
            rw [e1, e2, e3]
            rfl
    · cases h
  · cases h


end Poor.Date
