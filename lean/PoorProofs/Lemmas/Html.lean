import PoorModel.Html
namespace Poor.Html
open Poor

theorem inertRun_append (q : St) (x y : List RC) :
    inertRun q (x ++ y) = (inertRun q x).bind fun q1 => inertRun q1 y := by
  induction x generalizing q with
  | nil => rfl
  | cons r rest ih =>
    simp only [List.cons_append, inertRun]
    split
    · rfl
    · exact ih _

theorem inertRun_lit (q : St) (s : Str) : inertRun q (litRC s) = some (run q s) := by
  induction s generalizing q with
  | nil => rfl
  | cons c rest ih =>
    simp only [litRC, List.map_cons, inertRun, Bool.false_and, Bool.false_eq_true, if_false]
    exact ih _

/-- a character a hole may emit never changes the state the hole may sit in -/
theorem step_hole (cls : Cls) (q : St) (c : Char) (hok : holeOk cls q = true)
    (ha : cls.allows c = true) : step q c = q := by
  cases cls <;> cases q <;> simp_all [holeOk, Cls.allows, step]

theorem holeOk_not_tag (cls : Cls) (q : St) (hok : holeOk cls q = true) (ht : cls.tainted = true) :
    q ≠ .tag := by
  cases cls <;> cases q <;> simp_all [holeOk, Cls.tainted]

theorem inertRun_hole (cls : Cls) (q : St) (x : Str) (hok : holeOk cls q = true)
    (ha : ∀ c ∈ x, cls.allows c = true) : inertRun q (holeRC cls x) = some q := by
  induction x with
  | nil => rfl
  | cons c rest ih =>
    have hs := step_hole cls q c hok (ha c (by simp))
    simp only [holeRC, List.map_cons, inertRun, hs]
    have : (cls.tainted && (q == St.tag || q != q)) = false := by
      cases ht : cls.tainted with
      | false => rfl
      | true =>
        have := holeOk_not_tag cls q hok ht
        simp [this]
    rw [this]
    simp only [Bool.false_eq_true, if_false]
    exact ih (fun c hc => ha c (by simp [hc]))

/-- **soundness of the static check**: if `post t q = some q'`, every rendering of `t`
    (any debug flag, any hole contents of the declared classes, any loop counts) is read
    from state `q` without a client-controlled character touching the markup structure,
    and ends in `q'`. -/
theorem post_sound {debug : Bool} {t : Tpl} {xs : List RC} (hr : Renders debug t xs) :
    ∀ q q', post t q = some q' → inertRun q xs = some q' := by
  induction hr with
  | lit s => intro q q' h; simp only [post, Option.some.injEq] at h; rw [inertRun_lit, h]
  | hole cls x ha =>
    intro q q' h
    simp only [post] at h
    split at h
    · rename_i hok; cases h; exact inertRun_hole cls q x hok ha
    · cases h
  | seq ha hb iha ihb =>
    intro q q' h
    simp only [post] at h
    cases hpa : post _ q with
    | none => rw [hpa] at h; cases h
    | some q1 =>
      rw [hpa] at h
      simp only [Option.bind_some] at h
      rw [inertRun_append, iha q q1 hpa]
      exact ihb q1 q' h
  | altL ha iha =>
    intro q q' h
    simp only [post] at h
    split at h
    · rename_i x y hx hy
      split at h
      · cases h; exact iha q _ hx
      · cases h
    · cases h
  | altR hb ihb =>
    intro q q' h
    simp only [post] at h
    split at h
    · rename_i x y hx hy
      split at h
      · rename_i hxy; cases h; rw [hxy] at *; exact ihb q _ hy
      · cases h
    · cases h
  | dbgOn _ ha iha =>
    intro q q' h
    simp only [post] at h
    split at h
    · rename_i x y hx hy
      split at h
      · cases h; exact iha q _ hx
      · cases h
    · cases h
  | dbgOff _ hb ihb =>
    intro q q' h
    simp only [post] at h
    split at h
    · rename_i x y hx hy
      split at h
      · rename_i hxy; cases h; rw [hxy] at *; exact ihb q _ hy
      · cases h
    · cases h
  | starNil =>
    intro q q' h
    simp only [post] at h
    split at h
    · split at h
      · cases h; rfl
      · cases h
    · cases h
  | starCons ha hs iha ihs =>
    intro q q' h
    have h0 := h
    simp only [post] at h
    split at h
    · rename_i q1 hq1
      split at h
      · rename_i he
        cases h
        rw [inertRun_append, iha q q1 hq1, he]
        exact ihs q q h0
      · cases h
    · cases h
  | empty => intro q q' h; simp only [post, Option.some.injEq] at h; rw [← h]; rfl

/-- with debug off, a template that passes `diagFreeOff` renders no diagnostic character -/
theorem diagFree_sound {t : Tpl} {xs : List RC} (hr : Renders false t xs) :
    diagFreeOff t = true → ∀ r ∈ xs, r.diag = false := by
  induction hr with
  | lit s => intro _ r hr; simp [litRC] at hr; obtain ⟨_, _, rfl⟩ := hr; rfl
  | hole cls x ha =>
    intro h r hr
    simp only [diagFreeOff, Bool.not_eq_true'] at h
    simp [holeRC] at hr; obtain ⟨_, _, rfl⟩ := hr; exact h
  | seq ha hb iha ihb =>
    intro h r hr
    simp only [diagFreeOff, Bool.and_eq_true] at h
    rcases List.mem_append.mp hr with h1 | h1
    · exact iha h.1 r h1
    · exact ihb h.2 r h1
  | altL ha iha =>
    intro h r hr; simp only [diagFreeOff, Bool.and_eq_true] at h; exact iha h.1 r hr
  | altR hb ihb =>
    intro h r hr; simp only [diagFreeOff, Bool.and_eq_true] at h; exact ihb h.2 r hr
  | dbgOn hd _ _ => cases hd
  | dbgOff _ hb ihb => intro h r hr; exact ihb h r hr
  | starNil => intro _ r hr; cases hr
  | starCons ha hs iha ihs =>
    intro h r hr
    rcases List.mem_append.mp hr with h1 | h1
    · exact iha (by simpa [diagFreeOff] using h) r h1
    · exact ihs h r h1
  | empty => intro _ r hr; cases hr

end Poor.Html
