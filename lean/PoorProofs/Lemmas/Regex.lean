import PoorModel.Regex
/- language-level soundness of the backtracking matcher -/
namespace Poor.Regex
open Poor

/-- `Lang u r s t`: the expression `r` can consume a prefix of `s` leaving `t` -/
inductive Lang (u : UTables) : Re → Str → Str → Prop
  | eps {s} : Lang u .eps s s
  | cls {items neg x xs} : clsTest u items neg x = true → Lang u (.cls items neg) (x :: xs) xs
  | any {x xs} : (x != '\n') = true → Lang u .any (x :: xs) xs
  | seq {a b s t v} : Lang u a s t → Lang u b t v → Lang u (.seq a b) s v
  | altL {a b s t} : Lang u a s t → Lang u (.alt a b) s t
  | altR {a b s t} : Lang u b s t → Lang u (.alt a b) s t
  | repStop {a mx g s} : Lang u (.rep a 0 mx g) s s
  | repStep {a mn mx g s t v} : mx ≠ some 0 → Lang u a s t →
      Lang u (.rep a (mn - 1) (mx.map (· - 1)) g) t v → Lang u (.rep a mn mx g) s v
  | group {i n a s t} : Lang u a s t → Lang u (.group i n a) s t
  | bol {s} : Lang u .bol s s
  | eol {s} : (s = [] ∨ s = ['\n']) → Lang u .eol s s
  | eos {s} : s = [] → Lang u .eos s s

theorem repIter_sound (u : UTables) (f : Str → Caps → Res) (a : Re) (g : Bool)
    (hf : ∀ s c r, r ∈ f s c → Lang u a s r.1) :
    ∀ fuel mn mx s c r, r ∈ repIter f g fuel mn mx s c → Lang u (.rep a mn mx g) s r.1 := by
  intro fuel
  induction fuel with
  | zero =>
    intro mn mx s c r h
    simp only [repIter] at h
    split at h
    · rename_i h0; subst h0; simp at h; subst h; exact .repStop
    · simp at h
  | succ fuel ih =>
    intro mn mx s c r h
    simp only [repIter] at h
    split at h
    · -- max = some 0: no further iteration; only legal when the minimum is met
      split at h
      · rename_i h0; subst h0; simp at h; subst h; exact .repStop
      · simp at h
    · rename_i hm
      split at h
      · -- mandatory iteration
        rw [List.mem_flatMap] at h
        obtain ⟨m, hmem, hr⟩ := h
        exact .repStep hm (hf s c m hmem) (ih _ _ _ _ _ hr)
      · rename_i hmin
        have hmn : mn = 0 := by omega
        subst hmn
        have key : r = (s, c) ∨ ∃ m ∈ f s c,
            (m.1.length < s.length ∧ r ∈ repIter f g fuel 0 (mx.map (· - 1)) m.1 m.2) ∨
            (¬ m.1.length < s.length ∧ r = (m.1, m.2)) := by
          have hmore : ∀ x, x ∈ ((f s c).flatMap fun r =>
              if r.1.length < s.length then repIter f g fuel 0 (mx.map (· - 1)) r.1 r.2 else [(r.1, r.2)]) →
              ∃ m ∈ f s c, (m.1.length < s.length ∧ x ∈ repIter f g fuel 0 (mx.map (· - 1)) m.1 m.2) ∨
                (¬ m.1.length < s.length ∧ x = (m.1, m.2)) := by
            intro x hx
            rw [List.mem_flatMap] at hx
            obtain ⟨m, hm1, hm2⟩ := hx
            refine ⟨m, hm1, ?_⟩
            split at hm2
            · rename_i hlt; exact Or.inl ⟨hlt, hm2⟩
            · rename_i hlt; simp at hm2; exact Or.inr ⟨hlt, hm2⟩
          split at h
          · rw [List.mem_append] at h
            rcases h with h | h
            · exact Or.inr (hmore r h)
            · left; simpa using h
          · rw [List.mem_cons] at h
            rcases h with h | h
            · exact Or.inl h
            · exact Or.inr (hmore r h)
        rcases key with h1 | ⟨m, hmem, h2 | h2⟩
        · subst h1; exact .repStop
        · exact .repStep hm (hf s c m hmem) (by simpa using ih _ _ _ _ _ h2.2)
        · obtain ⟨_, rfl⟩ := h2
          exact .repStep hm (hf s c m hmem) .repStop

end Poor.Regex

namespace Poor.Regex
open Poor

/-- **soundness**: every success the matcher reports (in whatever backtracking priority)
    is a genuine match of the expression: the consumed prefix belongs to its language -/
theorem ms_sound (u : UTables) : ∀ (r : Re) (st : Bool) (s : Str) (c : Caps) (x : Str × Caps),
    x ∈ ms u r st s c → Lang u r s x.1 := by
  intro r
  induction r with
  | eps => intro st s c x h; simp [ms] at h; subst h; exact .eps
  | cls items neg =>
    intro st s c x h
    cases s with
    | nil => simp [ms] at h
    | cons y ys =>
      simp only [ms] at h
      split at h
      · simp at h; subst h; exact .cls (by assumption)
      · simp at h
  | any =>
    intro st s c x h
    cases s with
    | nil => simp [ms] at h
    | cons y ys =>
      simp only [ms] at h
      split at h
      · simp at h; subst h; exact .any (by assumption)
      · simp at h
  | seq a b iha ihb =>
    intro st s c x h
    simp only [ms, List.mem_flatMap] at h
    obtain ⟨m, hm, hx⟩ := h
    exact .seq (iha st s c m hm) (ihb false m.1 m.2 x hx)
  | alt a b iha ihb =>
    intro st s c x h
    simp only [ms, List.mem_append] at h
    rcases h with h | h
    · exact .altL (iha st s c x h)
    · exact .altR (ihb st s c x h)
  | rep a mn mx g iha =>
    intro st s c x h
    simp only [ms] at h
    exact repIter_sound u (ms u a false) a g (iha false) _ mn mx s c x h
  | group i n a iha =>
    intro st s c x h
    simp only [ms, List.mem_map] at h
    obtain ⟨m, hm, hx⟩ := h
    subst hx
    exact .group (iha st s c m hm)
  | bol =>
    intro st s c x h
    simp only [ms] at h
    split at h
    · simp at h; subst h; exact .bol
    · simp at h
  | eol =>
    intro st s c x h
    simp only [ms] at h
    split at h
    · simp at h; subst h; exact .eol (by assumption)
    · simp at h
  | eos =>
    intro st s c x h
    simp only [ms] at h
    split at h
    · simp at h; subst h; exact .eos (by assumption)
    · simp at h

/-- a match consumes a prefix: what is left is a suffix of the subject -/
theorem lang_suffix {u : UTables} {r : Re} {s t : Str} (h : Lang u r s t) : ∃ pre, s = pre ++ t := by
  induction h with
  | eps => exact ⟨[], rfl⟩
  | cls _ => exact ⟨[_], rfl⟩
  | any _ => exact ⟨[_], rfl⟩
  | seq _ _ iha ihb =>
    obtain ⟨p1, h1⟩ := iha; obtain ⟨p2, h2⟩ := ihb
    exact ⟨p1 ++ p2, by rw [h1, h2, List.append_assoc]⟩
  | altL _ ih => exact ih
  | altR _ ih => exact ih
  | repStop => exact ⟨[], rfl⟩
  | repStep _ _ _ iha ihb =>
    obtain ⟨p1, h1⟩ := iha; obtain ⟨p2, h2⟩ := ihb
    exact ⟨p1 ++ p2, by rw [h1, h2, List.append_assoc]⟩
  | group _ ih => exact ih
  | bol => exact ⟨[], rfl⟩
  | eol _ => exact ⟨[], rfl⟩
  | eos _ => exact ⟨[], rfl⟩

/-- an expression that ends in `\Z` matches only by consuming the whole subject -/
theorem seq_eos_full {u : UTables} {a : Re} {s t : Str} (h : Lang u (.seq a .eos) s t) :
    t = [] ∧ Lang u a s [] := by
  cases h with
  | seq ha hb =>
    cases hb with
    | eos he => subst he; exact ⟨rfl, ha⟩

end Poor.Regex
