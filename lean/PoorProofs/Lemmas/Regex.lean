import PoorModel.Regex
/- language-level soundness of the backtracking matcher -/
namespace Poor.Regex
open Poor

/-- `Lang u r s t`: the expression `r` can consume a prefix of `s` leaving `t` -/
inductive Lang (u : UTables) : Re → Str → Str → Prop
  | eps {s} : Lang u .eps s s
  | cls {items neg x xs} : clsTest u items neg x = true → Lang u (.cls items neg) (x :: xs) xs
  | any {x xs} : (x != '\n') = true → Lang u .any (x :: xs) xs
  | seq {a b s t v} : Lang u a s t → Lang u b t v → Lang u (.seq a b) s v
  | altL {a b s t} : Lang u a s t → Lang u (.alt a b) s t
  | altR {a b s t} : Lang u b s t → Lang u (.alt a b) s t
  | repStop {a mx g s} : Lang u (.rep a 0 mx g) s s
  | repStep {a mn mx g s t v} : mx ≠ some 0 → Lang u a s t →
      Lang u (.rep a (mn - 1) (mx.map (· - 1)) g) t v → Lang u (.rep a mn mx g) s v
  | group {i n a s t} : Lang u a s t → Lang u (.group i n a) s t
  | bol {s} : Lang u .bol s s
  | eol {s} : (s = [] ∨ s = ['\n']) → Lang u .eol s s
  | eos {s} : s = [] → Lang u .eos s s

theorem repIter_sound (u : UTables) (f : Str → Caps → Res) (a : Re) (g : Bool)
    (hf : ∀ s c r, r ∈ f s c → Lang u a s r.1) :
    ∀ fuel mn mx s c r, r ∈ repIter f g fuel mn mx s c → Lang u (.rep a mn mx g) s r.1 := by
  intro fuel
  induction fuel with
  | zero =>
    intro mn mx s c r h
    simp only [repIter] at h
    split at h
    · rename_i h0; subst h0; simp at h; subst h; exact .repStop
    · simp at h
  | succ fuel ih =>
    intro mn mx s c r h
    simp only [repIter] at h
    split at h
    · -- max = some 0: no further iteration; only legal when the minimum is met
      split at h
      · rename_i h0; subst h0; simp at h; subst h; exact .repStop
      · simp at h
    · rename_i hm
      split at h
      · -- mandatory iteration
        rw [List.mem_flatMap] at h
        obtain ⟨m, hmem, hr⟩ := h
        exact .repStep hm (hf s c m hmem) (ih _ _ _ _ _ hr)
      · rename_i hmin
        have hmn : mn = 0 := by omega
        subst hmn
        have key : r = (s, c) ∨ ∃ m ∈ f s c,
            (m.1.length < s.length ∧ r ∈ repIter f g fuel 0 (mx.map (· - 1)) m.1 m.2) ∨
            (¬ m.1.length < s.length ∧ r = (m.1, m.2)) := by
          have hmore : ∀ x, x ∈ ((f s c).flatMap fun r =>
              if r.1.length < s.length then repIter f g fuel 0 (mx.map (· - 1)) r.1 r.2 else [(r.1, r.2)]) →
              ∃ m ∈ f s c, (m.1.length < s.length ∧ x ∈ repIter f g fuel 0 (mx.map (· - 1)) m.1 m.2) ∨
                (¬ m.1.length < s.length ∧ x = (m.1, m.2)) := by
            intro x hx
            rw [List.mem_flatMap] at hx
            obtain ⟨m, hm1, hm2⟩ := hx
            refine ⟨m, hm1, ?_⟩
            split at hm2
            · rename_i hlt; exact Or.inl ⟨hlt, hm2⟩
            · rename_i hlt; simp at hm2; exact Or.inr ⟨hlt, hm2⟩
          split at h
          · rw [List.mem_append] at h
            rcases h with h | h
            · exact Or.inr (hmore r h)
            · left; simpa using h
          · rw [List.mem_cons] at h
            rcases h with h | h
            · exact Or.inl h
            · exact Or.inr (hmore r h)
        rcases key with h1 | ⟨m, hmem, h2 | h2⟩
        · subst h1; exact .repStop
        · exact .repStep hm (hf s c m hmem) (by simpa using ih _ _ _ _ _ h2.2)
        · obtain ⟨_, rfl⟩ := h2
          exact .repStep hm (hf s c m hmem) .repStop

end Poor.Regex

namespace Poor.Regex
open Poor

/-- **soundness**: every success the matcher reports (in whatever backtracking priority)
    is a genuine match of the expression: the consumed prefix belongs to its language -/
theorem ms_sound (u : UTables) : ∀ (r : Re) (st : Bool) (s : Str) (c : Caps) (x : Str × Caps),
    x ∈ ms u r st s c → Lang u r s x.1 := by
  intro r
  induction r with
  | eps => intro st s c x h; simp [ms] at h; subst h; exact .eps
  | cls items neg =>
    intro st s c x h
    cases s with
    | nil => simp [ms] at h
    | cons y ys =>
      simp only [ms] at h
      split at h
      · simp at h; subst h; exact .cls (by assumption)
      · simp at h
  | any =>
    intro st s c x h
    cases s with
    | nil => simp [ms] at h
    | cons y ys =>
      simp only [ms] at h
      split at h
      · simp at h; subst h; exact .any (by assumption)
      · simp at h
  | seq a b iha ihb =>
    intro st s c x h
    simp only [ms, List.mem_flatMap] at h
    obtain ⟨m, hm, hx⟩ := h
    exact .seq (iha st s c m hm) (ihb false m.1 m.2 x hx)
  | alt a b iha ihb =>
    intro st s c x h
    simp only [ms, List.mem_append] at h
    rcases h with h | h
    · exact .altL (iha st s c x h)
    · exact .altR (ihb st s c x h)
  | rep a mn mx g iha =>
    intro st s c x h
    simp only [ms] at h
    exact repIter_sound u (ms u a false) a g (iha false) _ mn mx s c x h
  | group i n a iha =>
    intro st s c x h
    simp only [ms, List.mem_map] at h
    obtain ⟨m, hm, hx⟩ := h
    subst hx
    exact .group (iha st s c m hm)
  | bol =>
    intro st s c x h
    simp only [ms] at h
    split at h
    · simp at h; subst h; exact .bol
    · simp at h
  | eol =>
    intro st s c x h
    simp only [ms] at h
    split at h
    · simp at h; subst h; exact .eol (by assumption)
    · simp at h
  | eos =>
    intro st s c x h
    simp only [ms] at h
    split at h
    · simp at h; subst h; exact .eos (by assumption)
    · simp at h

/-- a match consumes a prefix: what is left is a suffix of the subject -/
theorem lang_suffix {u : UTables} {r : Re} {s t : Str} (h : Lang u r s t) : ∃ pre, s = pre ++ t := by
  induction h with
  | eps => exact ⟨[], rfl⟩
  | cls _ => exact ⟨[_], rfl⟩
  | any _ => exact ⟨[_], rfl⟩
  | seq _ _ iha ihb =>
    obtain ⟨p1, h1⟩ := iha; obtain ⟨p2, h2⟩ := ihb
    exact ⟨p1 ++ p2, by rw [h1, h2, List.append_assoc]⟩
  | altL _ ih => exact ih
  | altR _ ih => exact ih
  | repStop => exact ⟨[], rfl⟩
  | repStep _ _ _ iha ihb =>
    obtain ⟨p1, h1⟩ := iha; obtain ⟨p2, h2⟩ := ihb
    exact ⟨p1 ++ p2, by rw [h1, h2, List.append_assoc]⟩
  | group _ ih => exact ih
  | bol => exact ⟨[], rfl⟩
  | eol _ => exact ⟨[], rfl⟩
  | eos _ => exact ⟨[], rfl⟩

/-- an expression that ends in `\Z` matches only by consuming the whole subject -/
theorem seq_eos_full {u : UTables} {a : Re} {s t : Str} (h : Lang u (.seq a .eos) s t) :
    t = [] ∧ Lang u a s [] := by
  cases h with
  | seq ha hb =>
    cases hb with
    | eos he => subst he; exact ⟨rfl, ha⟩

end Poor.Regex

/-! ## completeness of the backtracking matcher -/
namespace Poor.Regex
open Poor

/-- the residual `t` is among the results -/
def Has (res : Res) (t : Str) : Prop := ∃ c', (t, c') ∈ res

/-- order on repetition bounds: `none` is "no upper bound" -/
def mxLe : Option Nat → Option Nat → Prop
  | _, none => True
  | none, some _ => False
  | some a, some b => a ≤ b

theorem mxLe_pred (a b : Option Nat) (h : mxLe a b) : mxLe (a.map (· - 1)) (b.map (· - 1)) := by
  cases a <;> cases b <;> simp_all [mxLe] <;> omega

theorem mxLe_pred_self (a : Option Nat) : mxLe (a.map (· - 1)) a := by
  cases a <;> simp [mxLe]

theorem mxLe_refl (a : Option Nat) : mxLe a a := by
  cases a <;> simp [mxLe]

theorem mxLe_ne_zero (a b : Option Nat) (h : mxLe a b) (ha : a ≠ some 0) : b ≠ some 0 := by
  cases a <;> cases b <;> simp_all [mxLe] <;> omega

theorem repIter_stop (f : Str → Caps → Res) (g : Bool) (fuel : Nat) (mx : Option Nat) (s : Str) (c : Caps) :
    Has (repIter f g fuel 0 mx s c) s := by
  cases fuel with
  | zero => exact ⟨c, by simp [repIter]⟩
  | succ fuel =>
    simp only [repIter]
    split
    · exact ⟨c, by simp⟩
    · simp only [show ¬ (0 > 0) by omega, if_false]
      split
      · exact ⟨c, by simp⟩
      · exact ⟨c, by simp⟩

/-- membership in the "one more optional iteration" part of `repIter` -/
theorem more_has (f : Str → Caps → Res) (g : Bool) (fuel : Nat) (mx : Option Nat) (s : Str) (c : Caps) (v : Str) :
    Has ((f s c).flatMap fun r =>
        if r.1.length < s.length then repIter f g fuel 0 (mx.map (· - 1)) r.1 r.2 else [(r.1, r.2)]) v ↔
      ∃ m ∈ f s c, (m.1.length < s.length ∧ Has (repIter f g fuel 0 (mx.map (· - 1)) m.1 m.2) v) ∨
        (¬ m.1.length < s.length ∧ v = m.1) := by
  constructor
  · rintro ⟨c', h⟩
    rw [List.mem_flatMap] at h
    obtain ⟨m, hm, hx⟩ := h
    refine ⟨m, hm, ?_⟩
    split at hx
    · rename_i hlt; exact Or.inl ⟨hlt, c', hx⟩
    · rename_i hlt; simp at hx; exact Or.inr ⟨hlt, hx.1⟩
  · rintro ⟨m, hm, h | h⟩
    · obtain ⟨hlt, c', hc'⟩ := h
      exact ⟨c', List.mem_flatMap.2 ⟨m, hm, by rw [if_pos hlt]; exact hc'⟩⟩
    · obtain ⟨hlt, rfl⟩ := h
      exact ⟨m.2, List.mem_flatMap.2 ⟨m, hm, by rw [if_neg hlt]; simp⟩⟩

/-- the optional phase: what `repIter` returns for minimum 0 (and a bound that is not exhausted) -/
theorem repIter_opt (f : Str → Caps → Res) (g : Bool) (fuel : Nat) (mx : Option Nat) (hm : mx ≠ some 0)
    (s : Str) (c : Caps) (v : Str) :
    Has (repIter f g (fuel + 1) 0 mx s c) v ↔
      v = s ∨ ∃ m ∈ f s c, (m.1.length < s.length ∧ Has (repIter f g fuel 0 (mx.map (· - 1)) m.1 m.2) v) ∨
        (¬ m.1.length < s.length ∧ v = m.1) := by
  rw [← more_has]
  simp only [repIter, if_neg hm, show ¬ (0 > 0) by omega, if_false]
  constructor
  · rintro ⟨c', h⟩
    split at h
    · rcases List.mem_append.1 h with h | h
      · exact Or.inr ⟨c', h⟩
      · simp at h; exact Or.inl h.1
    · rcases List.mem_cons.1 h with h | h
      · simp at h; exact Or.inl h.1
      · exact Or.inr ⟨c', h⟩
  · rintro (rfl | ⟨c', h⟩)
    · split
      · exact ⟨c, List.mem_append.2 (Or.inr (by simp))⟩
      · exact ⟨c, by simp⟩
    · split
      · exact ⟨c', List.mem_append.2 (Or.inl h)⟩
      · exact ⟨c', List.mem_cons.2 (Or.inr h)⟩

/-- more fuel and a larger bound never lose a residual -/
theorem repIter_mono (f : Str → Caps → Res) (g : Bool) :
    ∀ (fuel fuel' mn : Nat) (mx mx' : Option Nat) (s : Str) (c : Caps) (v : Str),
      fuel ≤ fuel' → mxLe mx mx' → Has (repIter f g fuel mn mx s c) v → Has (repIter f g fuel' mn mx' s c) v := by
  intro fuel
  induction fuel with
  | zero =>
    intro fuel' mn mx mx' s c v _ _ h
    obtain ⟨c', h⟩ := h
    simp only [repIter] at h
    split at h
    · rename_i h0; subst h0
      simp at h
      rw [h.1]
      exact repIter_stop f g fuel' mx' s c
    · simp at h
  | succ fuel ih =>
    intro fuel' mn mx mx' s c v hle hmx h
    obtain ⟨fuel'', rfl⟩ : ∃ k, fuel' = k + 1 := ⟨fuel' - 1, by omega⟩
    by_cases hm0 : mx = some 0
    · -- bound exhausted on the left: only the stop result
      obtain ⟨c', h⟩ := h
      simp only [repIter, hm0, if_true] at h
      split at h
      · rename_i h0; subst h0
        simp at h; rw [h.1]
        exact repIter_stop f g _ mx' s c
      · simp at h
    · have hm0' := mxLe_ne_zero mx mx' hmx hm0
      by_cases hmn : mn > 0
      · obtain ⟨c', h⟩ := h
        simp only [repIter, if_neg hm0, if_pos hmn] at h
        rw [List.mem_flatMap] at h
        obtain ⟨m, hmem, hr⟩ := h
        obtain ⟨c'', hc''⟩ := ih fuel'' (mn - 1) _ _ m.1 m.2 v (by omega) (mxLe_pred mx mx' hmx) ⟨c', hr⟩
        refine ⟨c'', ?_⟩
        simp only [repIter, if_neg hm0', if_pos hmn]
        exact List.mem_flatMap.2 ⟨m, hmem, hc''⟩
      · have : mn = 0 := by omega
        subst this
        rw [repIter_opt f g fuel mx hm0] at h
        rw [repIter_opt f g fuel'' mx' hm0']
        rcases h with h | ⟨m, hmem, h | h⟩
        · exact Or.inl h
        · exact Or.inr ⟨m, hmem, Or.inl ⟨h.1, ih fuel'' 0 _ _ m.1 m.2 v (by omega) (mxLe_pred mx mx' hmx) h.2⟩⟩
        · exact Or.inr ⟨m, hmem, Or.inr h⟩


/-- `^` may only stand where the matcher is still at the start of the subject -/
def BolOK : Re → Bool → Prop
  | .bol, st => st = true
  | .seq a b, st => BolOK a st ∧ BolOK b false
  | .alt a b, st => BolOK a st ∧ BolOK b st
  | .rep a _ _ _, _ => BolOK a false
  | .group _ _ a, st => BolOK a st
  | _, _ => True

theorem suffix_length {u : UTables} {r : Re} {s t : Str} (h : Lang u r s t) : t.length ≤ s.length := by
  obtain ⟨pre, rfl⟩ := lang_suffix h
  simp

theorem suffix_eq {u : UTables} {r : Re} {s t : Str} (h : Lang u r s t) (hl : ¬ t.length < s.length) : t = s := by
  obtain ⟨pre, rfl⟩ := lang_suffix h
  have : pre = [] := by
    cases pre with
    | nil => rfl
    | cons x xs => simp at hl; omega
  simp [this]

/-- **completeness**: whatever the expression can consume, the backtracking matcher finds - every residual
    of the language is among its results (the empty-iteration rule of sre loses nothing) -/
theorem ms_complete (u : UTables) {r : Re} {s t : Str} (h : Lang u r s t) :
    ∀ (st : Bool) (c : Caps), BolOK r st → Has (ms u r st s c) t := by
  induction h with
  | eps => intro st c _; exact ⟨c, by simp [ms]⟩
  | cls hx => intro st c _; exact ⟨c, by simp [ms, hx]⟩
  | any hx => intro st c _; exact ⟨c, by simp [ms, hx]⟩
  | seq _ _ iha ihb =>
    intro st c hb
    obtain ⟨c1, h1⟩ := iha st c hb.1
    obtain ⟨c2, h2⟩ := ihb false c1 hb.2
    exact ⟨c2, by simp only [ms, List.mem_flatMap]; exact ⟨_, h1, h2⟩⟩
  | altL _ ih =>
    intro st c hb
    obtain ⟨c1, h1⟩ := ih st c hb.1
    exact ⟨c1, by simp only [ms, List.mem_append]; exact Or.inl h1⟩
  | altR _ ih =>
    intro st c hb
    obtain ⟨c1, h1⟩ := ih st c hb.2
    exact ⟨c1, by simp only [ms, List.mem_append]; exact Or.inr h1⟩
  | repStop =>
    intro st c _
    simp only [ms]
    exact repIter_stop _ _ _ _ _ _
  | @repStep a mn mx g s t v hm ha hrest iha ihrest =>
    intro st c hb
    have hba : BolOK a false := hb
    simp only [ms]
    obtain ⟨c1, h1⟩ := iha false c hba
    have hlen := suffix_length ha
    by_cases hmn : mn > 0
    · -- a mandatory iteration
      have hr := ihrest false c1 hb
      simp only [ms] at hr
      have hr' := repIter_mono (ms u a false) g _ (mn + s.length) (mn - 1) (mx.map (· - 1)) (mx.map (· - 1)) t c1 v
        (by omega) (mxLe_refl _) hr
      obtain ⟨c2, h2⟩ := hr'
      refine ⟨c2, ?_⟩
      have e : mn + s.length + 1 = (mn + s.length) + 1 := rfl
      rw [e]
      simp only [repIter, if_neg hm, if_pos hmn]
      exact List.mem_flatMap.2 ⟨(t, c1), h1, h2⟩
    · have h0 : mn = 0 := by omega
      subst h0
      have e : 0 + s.length + 1 = s.length + 1 := by omega
      rw [e, repIter_opt _ g _ mx hm]
      by_cases hlt : t.length < s.length
      · have hr := ihrest false c1 hb
        simp only [ms] at hr
        have hr' := repIter_mono (ms u a false) g _ s.length 0 (mx.map (· - 1)) (mx.map (· - 1)) t c1 v (by omega)
          (mxLe_refl _) hr
        exact Or.inr ⟨(t, c1), h1, Or.inl ⟨hlt, hr'⟩⟩
      · -- an iteration that consumed nothing: the rest of the derivation starts from the same place
        have hts := suffix_eq ha hlt
        subst hts
        have hr := ihrest false c hb
        simp only [ms] at hr
        have hr' := repIter_mono (ms u a false) g _ (t.length + 1) 0 (mx.map (· - 1)) mx t c v (by omega)
          (mxLe_pred_self mx) hr
        rw [repIter_opt _ g _ mx hm] at hr'
        exact hr'
  | group _ ih =>
    intro st c hb
    obtain ⟨c1, h1⟩ := ih st c hb
    exact ⟨_, by simp only [ms, List.mem_map]; exact ⟨_, h1, rfl⟩⟩
  | bol => intro st c hb; have : st = true := hb; subst this; exact ⟨c, by simp [ms]⟩
  | eol hx => intro st c _; exact ⟨c, by simp [ms, hx]⟩
  | eos hx => intro st c _; exact ⟨c, by simp [ms, hx]⟩

/-- `pattern.match(s)` succeeds exactly when some prefix of the subject belongs to the language -/
theorem pyMatch_iff (u : UTables) (r : Re) (hb : BolOK r true) (s : Str) :
    (pyMatch u r s).isSome = true ↔ ∃ t, Lang u r s t := by
  unfold pyMatch
  constructor
  · intro h
    cases hm : ms u r true s [] with
    | nil => rw [hm] at h; simp at h
    | cons x xs => exact ⟨x.1, ms_sound u r true s [] x (by rw [hm]; simp)⟩
  · rintro ⟨t, ht⟩
    obtain ⟨c', hc'⟩ := ms_complete u ht true [] hb
    cases hm : ms u r true s [] with
    | nil => rw [hm] at hc'; simp at hc'
    | cons x xs => simp


/-- **a rule anchored with `\\Z` matches exactly the subjects that belong to its language as a whole** -/
theorem anchored_match_iff (u : UTables) (a : Re) (hb : BolOK a true) (s : Str) :
    (pyMatch u (.seq a .eos) s).isSome = true ↔ Lang u a s [] := by
  rw [pyMatch_iff u (.seq a .eos) ⟨hb, trivial⟩ s]
  constructor
  · rintro ⟨t, ht⟩
    exact (seq_eos_full ht).2
  · intro h
    exact ⟨[], .seq h (.eos rfl)⟩


end Poor.Regex
